"""Shared by harness/c05.py and harness/c06.py: synthetic data sets on disk, the real Calculator on them,
and the harness' OWN readers / physics (never cij's) for the independent oracles.

* `draw_case`      — one data set per the quantifier of C05 (4–12 volumes, 1–8 q-points, 1–10 atoms, ± lattice
                     block, nine crystal systems + "no symmetry requested", grid settings with the requested
                     pressures inside the computed range), every random choice from the rng it is given;
* `case_files`     — the three files as text (this is the replay payload: a concrete input, independent of
                     any generator code);
* `Run`            — materialises the files in a scratch directory, constructs the real
                     `cij.core.calculator.Calculator(settings)`, removes the directory;
* `parse_*`        — own parsers of the three files;
* `symmetry_fill`  — own crystal-system completion of a static table by *group averaging* (Laue-group rotation
                     matrices acting on the rank-4 tensor), not by cij's constraint files;
* CODATA factors from scipy.constants (cij uses pint's registry, qha its own module).
"""
from __future__ import annotations

import contextlib
import io
import itertools
import logging
import math
import os
import shutil
import tempfile
import warnings
from typing import Dict, List, Optional, Tuple

import numpy
import yaml

from harness import synth

SYSTEMS = ["triclinic", "monoclinic", "orthorhombic", "tetragonal7", "tetragonal6", "trigonal7", "trigonal6",
           "hexagonal", "cubic"]

# ----------------------------------------------------------------------------- constants (own: CODATA via scipy)
def codata():
    import scipy.constants as sc
    ry_j = sc.physical_constants["Rydberg constant times hc in J"][0]
    bohr = sc.physical_constants["Bohr radius"][0]
    return ry_j, bohr


def gpa_in_au() -> float:
    """1 GPa in Ry/bohr^3 = 1e9 / (R_inf h c / a0^3)."""
    ry_j, bohr = codata()
    return 1e9 / (ry_j / bohr ** 3)


# ----------------------------------------------------------------------------- drawing data sets
def _lattice_for_system(ds: synth.DataSet, system: Optional[str]):
    """make the axis lengths compatible with the crystal system (a=b=c cubic, a=b for the uniaxial ones)"""
    if ds.lattice is None or system is None:
        return
    if system == "cubic":
        ds.lattice[:, 1] = ds.lattice[:, 0]; ds.lattice[:, 2] = ds.lattice[:, 0]
    elif system in ("hexagonal", "trigonal6", "trigonal7", "tetragonal6", "tetragonal7"):
        ds.lattice[:, 1] = ds.lattice[:, 0]


def draw_case(rng: numpy.random.Generator, small: bool = True, force: Optional[dict] = None) -> Tuple[synth.DataSet, dict]:
    """A data set per the property's quantifier.  Returns (dataset, description)."""
    force = force or {}
    nv = int(force.get("nv", rng.integers(4, 13)))
    nq = int(force.get("nq", rng.integers(1, 9 if not small else 5)))
    na = int(force.get("na", rng.integers(1, 11 if not small else 5)))
    if "system" in force:
        system = force["system"]
    else:
        system = ([None] + SYSTEMS)[int(rng.integers(0, len(SYSTEMS) + 1))]
    lattice = bool(force.get("lattice", rng.random() < 0.5))
    if system is None:
        # no symmetry requested: the table must list every non-zero term itself (otherwise the 6x6 is singular)
        keyset = ["orthorhombic", "monoclinic", "triclinic"][int(rng.integers(0, 3))]
        keys = list(synth.SYSTEM_INDEPENDENT[keyset])
    else:
        keys = list(synth.SYSTEM_INDEPENDENT[system])
    keys = [keys[i] for i in rng.permutation(len(keys))]           # column order is free
    law = "power" if rng.random() < 0.7 else "quadratic"
    static_mesh = force.get("static_mesh", "same" if rng.random() < 0.6 else "shifted")
    ds = synth.make_dataset(rng, nv=nv, nq=nq, na=na, system=system, keys=keys, lattice=lattice, law=law, static_mesh=static_mesh)
    _lattice_for_system(ds, system)
    n_extra = 0
    noisy = False
    if system not in (None, "triclinic") and (rng.random() < 0.35 or force.get("redundant")):
        # "any subset of components that includes what the requested system needs": add one or two components that
        # the symmetry determines (values from the harness' own completion, so the table stays consistent)
        tab = {tuple(sorted((int(k[0]), int(k[1])))): ds.static_table[:, c] for c, k in enumerate(ds.static_keys)}
        full = symmetry_fill(system, tab)
        cand = [k for k in full if k not in tab]
        for k in [cand[i] for i in rng.permutation(len(cand))[:int(rng.integers(1, 3))]]:
            ds.static_keys.append("%d%d" % k)
            ds.static_table = numpy.concatenate([ds.static_table, full[k][:, None]], axis=1)
            n_extra += 1
        if n_extra and (rng.random() < 0.5 or force.get("redundant") == "noisy"):
            # redundant components taken "from separate static runs": they disagree with the relations by 0.02-0.12 GPa,
            # well inside the default residual tolerance; the filling (a least-squares compromise) must still be applied
            noisy = True
            nrow = ds.static_table.shape[0]
            ds.static_table[:, -n_extra:] += rng.uniform(0.02, 0.12, size=(nrow, n_extra)) * rng.choice([-1.0, 1.0], size=(nrow, n_extra))
    # ---- a symmetry-allowed component that is SMALL but not vanishing at every volume (0.02–0.09 GPa: below the default residual tolerance
    #      0.1, far above the drop tolerance 1e-8): it is data, it stays in the key set and in the tensor
    if force.get("small_component"):
        n_own = len(ds.static_keys) - n_extra
        cand = [c for c in range(n_own) if ds.static_keys[c][0] != ds.static_keys[c][1] and int(ds.static_keys[c][1]) >= 4]
        if cand:
            c_small = cand[int(rng.integers(0, len(cand)))]
            nrow = ds.static_table.shape[0]
            ds.static_table[:, c_small] = numpy.linspace(0.085, 0.021, nrow) * (1.0 if rng.random() < 0.5 else -1.0)
    # ---- order of the rows of the static table: the reader takes the rows as listed and nothing requires them to be sorted (only
    #      the PHONON file must list decreasing volumes); the lattice block, when present, is listed in the same order as the rows
    static_rows = force.get("static_rows", "listed")
    if static_rows != "listed":
        sv = numpy.array(ds.volumes if ds.static_volumes is None else ds.static_volumes, dtype=float)
        if static_rows == "increasing":
            p_rows = numpy.argsort(sv)
        else:
            p_rows = rng.permutation(len(sv))
            if (numpy.diff(sv[p_rows]) < 0).all() or (numpy.diff(sv[p_rows]) > 0).all():
                p_rows = numpy.roll(numpy.argsort(sv), 2)            # neither decreasing nor increasing
        ds.static_volumes = sv[p_rows]; ds.static_table = ds.static_table[p_rows]
        if ds.lattice is not None: ds.lattice = ds.lattice[p_rows]
    # ---- Γ acoustic branches: zero / slightly negative (synth default) or small POSITIVE and smooth in V, as written by DFPT
    #      codes without an exact acoustic sum rule; cij's phonon part skips these three slots either way, the QHA layer counts them
    acoustic = force.get("acoustic", "positive" if rng.random() < 0.25 else "nonpositive")
    if acoustic == "positive":
        a0 = rng.uniform(4.0, 25.0, size=3); g0 = rng.uniform(0.5, 2.0, size=3)
        ds.freqs[:, 0, :3] = numpy.round(a0[None] * (ds.volumes[:, None] / ds.volumes[0]) ** (-g0[None]), 6)
    # ---- grid settings
    nt = int(force.get("NT", rng.integers(1, 7)))
    dt = float(force.get("DT", [50.0, 100.0, 150.0, 250.0][int(rng.integers(0, 4))]))
    ntv = int(force.get("NTV", rng.integers(8, 25)))
    ratio = float(force.get("volume_ratio", round(float(rng.uniform(1.08, 1.3)), 3)))
    # static pressure at the smallest grid volume from the generating law (thermal pressure only adds to it)
    v_last = ds.volumes.min() / ratio
    v0 = ds.volumes[0] / 1.06
    # recover (b0, bp) is not possible from ds; estimate P(V_last) from the tabulated P(V) by a BM-like extrapolation
    # of the informational pressure column (own cubic in Eulerian strain)
    f = 0.5 * ((v0 / ds.volumes) ** (2.0 / 3.0) - 1.0)
    co = numpy.polyfit(f, ds.pressures * (1 + 2 * f) ** (-2.5), 2)
    fl = 0.5 * ((v0 / v_last) ** (2.0 / 3.0) - 1.0)
    p_last_gpa = float(numpy.polyval(co, fl) * (1 + 2 * fl) ** 2.5)
    frac = float(force.get("p_frac", rng.uniform(0.15, 0.7)))
    p_top = frac * p_last_gpa
    p_min = float(force.get("P_MIN", 0.0 if rng.random() < 0.6 else round(float(rng.uniform(0.0, 0.1 * p_top)), 3)))
    dp = float(force.get("DELTA_P", (p_top - p_min) / (ntv - 1)))
    qs = ds.settings["qha"]["settings"]
    qs.update({"T_MIN": 0, "NT": nt, "DT": dt, "DT_SAMPLE": dt, "NTV": ntv, "P_MIN": p_min, "DELTA_P": dp,
               "DELTA_P_SAMPLE": dp, "volume_ratio": ratio, "order": int(force.get("qha_order", 3)), "static_only": False})
    ds.settings["elast"]["settings"]["mode_gamma"] = {"interpolator": "lsq_poly",
                                                      "order": int(min(3, max(1, nv - 2)))}
    desc = {"nv": nv, "nq": nq, "na": na, "system": system, "lattice": lattice, "nkeys": len(ds.static_keys), "redundant_keys": n_extra, "redundant_noisy": noisy,
            "static_mesh": static_mesh, "static_rows": static_rows, "qha_order": int(force.get("qha_order", 3)), "small_component": bool(force.get("small_component")), "law": law, "acoustic": acoustic,
            "NT": nt, "DT": dt, "NTV": ntv, "volume_ratio": ratio, "P_MIN": p_min, "DELTA_P": dp,
            "p_last_est_gpa": p_last_gpa}
    return ds, desc


def case_files(ds: synth.DataSet) -> Dict[str, str]:
    d = tempfile.mkdtemp(prefix="cijcase_")
    try:
        synth.write_all(d, ds)
        out = {}
        for n in os.listdir(d):
            with open(os.path.join(d, n)) as fp:
                out[n] = fp.read()
        return out
    finally:
        shutil.rmtree(d, ignore_errors=True)


def with_settings(files: Dict[str, str], updates: dict) -> Dict[str, str]:
    """same data, different settings (deep update of settings.yaml)"""
    st = yaml.safe_load(files["settings.yaml"])
    synth._deep_update(st, updates)
    out = dict(files)
    out["settings.yaml"] = yaml.safe_dump(st)
    return out


# ----------------------------------------------------------------------------- running the real code
_WARM = {"done": False, "seconds": 0.0}


@contextlib.contextmanager
def quiet():
    lvl = logging.root.manager.disable
    logging.disable(logging.CRITICAL)
    with warnings.catch_warnings():
        warnings.simplefilter("ignore")
        with numpy.errstate(all="ignore"):
            try:
                yield
            finally:
                logging.disable(lvl)


def warm_up():
    """import cij + numba-compile everything once (shared by all cases of a run)"""
    import time
    if _WARM["done"]:
        return _WARM["seconds"]
    t = time.time()
    rng = numpy.random.Generator(numpy.random.PCG64(12345))
    ds, _ = draw_case(rng, force={"nv": 5, "nq": 1, "na": 1, "system": "cubic", "lattice": False, "NT": 1, "NTV": 8})
    r = Run(case_files(ds))
    if r.error is None:
        try:
            with quiet():
                _ = r.calc.pressure_base.bulk_modulus_voigt
        except Exception:      # a broken tree must fail in the checks (with a replay), not in the warm-up
            pass
    _WARM["done"] = True
    _WARM["seconds"] = time.time() - t
    return _WARM["seconds"]


class Run:
    """The real Calculator on the given files.  `.calc` or `.error` (the exception)."""

    def __init__(self, files: Dict[str, str], hook=None, workdir: Optional[str] = None, settings_name: str = "settings.yaml",
                 write_data: bool = True):
        """`workdir`: run inside this existing directory and leave it in place (several calculations on the SAME file paths in one
        process); `write_data=False`: the data files are already there and are not touched — only the settings text is written,
        under `settings_name`."""
        self.files = files
        self.calc = None
        self.error: Optional[BaseException] = None
        self.traceback_functions: List[str] = []
        d = workdir if workdir is not None else tempfile.mkdtemp(prefix="cijrun_")
        try:
            for n, text in files.items():
                if n == "settings.yaml":
                    with open(os.path.join(d, settings_name), "w") as fp:
                        fp.write(text)
                elif write_data:
                    with open(os.path.join(d, n), "w") as fp:
                        fp.write(text)
            with quiet():
                from cij.core.calculator import Calculator
                try:
                    if hook is not None:
                        with hook:
                            self.calc = Calculator(os.path.join(d, settings_name))
                    else:
                        self.calc = Calculator(os.path.join(d, settings_name))
                except Exception as e:  # the property speaks about ValueError; everything is recorded
                    self.error = e
                    tb = e.__traceback__
                    while tb is not None:
                        self.traceback_functions.append(tb.tb_frame.f_code.co_name)
                        tb = tb.tb_next
        finally:
            if workdir is None:
                shutil.rmtree(d, ignore_errors=True)


# ----------------------------------------------------------------------------- own parsers (oracle side)
def parse_settings(text: str) -> dict:
    st = yaml.safe_load(text)
    q = st["qha"]["settings"]
    sym = st.get("elast", {}).get("settings", {}).get("symmetry", {}) or {}
    return {"NT": int(q["NT"]), "DT": float(q["DT"]), "T_MIN": float(q.get("T_MIN", 0)), "NTV": int(q["NTV"]),
            "P_MIN": float(q["P_MIN"]), "DELTA_P": float(q["DELTA_P"]), "volume_ratio": float(q["volume_ratio"]),
            "system": sym.get("system", "triclinic"), "input": st["qha"]["input"], "elast": st["elast"]["input"],
            "mode_interpolator": (st["elast"]["settings"].get("mode_gamma", {}) or {}).get("interpolator", "lsq_poly"),
            "mode_order": int((st["elast"]["settings"].get("mode_gamma", {}) or {}).get("order", 3))}


def parse_input01(text: str) -> dict:
    lines = text.splitlines()
    i = 0
    while True:
        w = lines[i].split()
        i += 1
        if len(w) == 5 and all(x.lstrip("-").isdigit() for x in w):
            nv, nq, np_, nm, na = map(int, w)
            break
    vols, ens, freqs = [], [], []
    for _ in range(nv):
        while lines[i].strip() == "":
            i += 1
        w = lines[i].replace("=", "= ").split()
        i += 1
        vals = [float(x) for x in w if _isfloat(x)]
        vols.append(vals[1]); ens.append(vals[2])
        fq = []
        for _q in range(nq):
            i += 1                               # q-point coordinates
            fq.append([float(lines[i + m]) for m in range(np_)])
            i += np_
        freqs.append(fq)
    while "weight" not in lines[i]:
        i += 1
    i += 1
    weights = []
    for _q in range(nq):
        weights.append(float(lines[i].split()[3])); i += 1
    return {"nv": nv, "nq": nq, "np": np_, "nm": nm, "na": na, "volumes": numpy.array(vols),
            "energies": numpy.array(ens), "freqs": numpy.array(freqs), "weights": numpy.array(weights)}


def _isfloat(s):
    try:
        float(s); return True
    except ValueError:
        return False


def parse_elast(text: str) -> dict:
    lines = text.splitlines()
    w = lines[1].split()
    vref, nv, cellmass = float(w[0]), int(w[1]), float(w[2])
    names = lines[2].split()[1:]
    keys = []
    for n in names:
        digits = "".join(ch for ch in n if ch.isdigit())
        keys.append(tuple(sorted((int(digits[0]), int(digits[1])))))
    rows = [[float(x) for x in lines[3 + i].split()] for i in range(nv)]
    rows = numpy.array(rows)
    lat = None
    rest = lines[3 + nv:]
    if rest and rest[0].strip() != "":
        lat = numpy.array([[float(x) for x in rest[1 + i].split()] for i in range(nv)])
    return {"vref": vref, "nv": nv, "cellmass": cellmass, "keys": keys, "volumes": rows[:, 0],
            "table": {k: rows[:, 1 + c] for c, k in enumerate(keys)}, "lattice": lat}


# ----------------------------------------------------------------------------- own symmetry completion
def _rot(axis, angle):
    axis = numpy.asarray(axis, float); axis = axis / numpy.linalg.norm(axis)
    x, y, z = axis
    c, s = math.cos(angle), math.sin(angle)
    C = 1 - c
    return numpy.array([[c + x * x * C, x * y * C - z * s, x * z * C + y * s],
                        [y * x * C + z * s, c + y * y * C, y * z * C - x * s],
                        [z * x * C - y * s, z * y * C + x * s, c + z * z * C]])


_GENERATORS = {
    "triclinic": [],
    "monoclinic": [_rot([0, 1, 0], math.pi)],                                  # unique axis b
    "orthorhombic": [_rot([1, 0, 0], math.pi), _rot([0, 1, 0], math.pi)],
    "tetragonal7": [_rot([0, 0, 1], math.pi / 2)],
    "tetragonal6": [_rot([0, 0, 1], math.pi / 2), _rot([1, 0, 0], math.pi)],
    "trigonal7": [_rot([0, 0, 1], 2 * math.pi / 3)],
    "trigonal6": [_rot([0, 0, 1], 2 * math.pi / 3), _rot([1, 0, 0], math.pi)],
    "hexagonal": [_rot([0, 0, 1], math.pi / 3), _rot([1, 0, 0], math.pi)],
    "cubic": [_rot([0, 0, 1], math.pi / 2), _rot([1, 1, 1], 2 * math.pi / 3)],
}
_VOIGT = {1: (0, 0), 2: (1, 1), 3: (2, 2), 4: (1, 2), 5: (0, 2), 6: (0, 1)}
_PAIRS = [(i, j) for i in range(1, 7) for j in range(i, 7)]


def _group(gens):
    els = [numpy.eye(3)]
    changed = True
    while changed:
        changed = False
        for g in gens:
            for e in list(els):
                n = g @ e
                if not any(numpy.allclose(n, x, atol=1e-9) for x in els):
                    els.append(n); changed = True
        if len(els) > 60:
            raise RuntimeError("group closure failed")
    return els


def _tensor_of(vec21):
    c = numpy.zeros((3, 3, 3, 3))
    for n, (a, b) in enumerate(_PAIRS):
        i, j = _VOIGT[a]; k, l = _VOIGT[b]
        for (p, q) in ((i, j), (j, i)):
            for (r, s) in ((k, l), (l, k)):
                c[p, q, r, s] = vec21[n]; c[r, s, p, q] = vec21[n]
    return c


def _vec_of(c):
    return numpy.array([c[_VOIGT[a] + _VOIGT[b]] for a, b in _PAIRS])


_INV_CACHE: Dict[str, numpy.ndarray] = {}


def invariant_basis(system: str) -> numpy.ndarray:
    """orthonormal basis (21 x d) of the elastic tensors (Voigt, 21 components) invariant under the Laue group"""
    if system in _INV_CACHE:
        return _INV_CACHE[system]
    grp = _group(_GENERATORS[system])
    P = numpy.zeros((21, 21))
    for n in range(21):
        e = numpy.zeros(21); e[n] = 1.0
        c = _tensor_of(e)
        acc = numpy.zeros(21)
        for R in grp:
            acc += _vec_of(numpy.einsum("ia,jb,kc,ld,abcd->ijkl", R, R, R, R, c))
        P[:, n] = acc / len(grp)
    u, s, _ = numpy.linalg.svd(P)
    d = int((s > 0.5).sum())
    _INV_CACHE[system] = u[:, :d]
    return _INV_CACHE[system]


def symmetry_fill(system: Optional[str], table: Dict[Tuple[int, int], numpy.ndarray],
                  drop_atol: float = 1e-8) -> Dict[Tuple[int, int], numpy.ndarray]:
    """complete a static table {(i,j): column} to every non-zero component the crystal system implies.
    `None` / triclinic: unchanged (cij performs no filling there)."""
    if system is None or system == "triclinic":
        return dict(table)
    B = invariant_basis(system)
    idx = [_PAIRS.index(k) for k in table]
    cols = numpy.array([table[k] for k in table])                  # (nkeys, nv)
    coef, res, rank, _ = numpy.linalg.lstsq(B[idx, :], cols, rcond=None)
    if rank < B.shape[1]:
        raise ValueError("under-determined table for system " + system)
    full = B @ coef                                                  # (21, nv): exact invariant completion of a consistent table
    if numpy.max(numpy.abs(full[idx] - cols)) > 1e-9 * max(1.0, float(numpy.max(numpy.abs(cols)))):
        # the supplied values contradict the relations (within tolerance): what "the filling" means is then the
        # least-squares compromise of the supplied values and the relation rows AS WRITTEN in the relations file
        from harness import fillcommon
        rows = fillcommon.file_rows(system)
        sel = numpy.zeros((len(idx), 21)); sel[numpy.arange(len(idx)), idx] = 1.0
        R = numpy.array([[float(c) for c in co] for co, rhs in rows]); r0 = numpy.array([float(rhs) for co, rhs in rows])
        if _PAIRS != [(i, j) for i in range(1, 7) for j in range(i, 7)]:
            raise AssertionError("symbol order")
        A = numpy.vstack([sel, R]); b = numpy.vstack([cols, numpy.repeat(r0[:, None], cols.shape[1], axis=1)])
        full = numpy.linalg.lstsq(A, b, rcond=None)[0]
    out = {}
    for n, k in enumerate(_PAIRS):
        if not numpy.all(numpy.abs(full[n]) <= drop_atol):
            out[k] = full[n]
    return out


# ----------------------------------------------------------------------------- own fits
def eulerian_strain(v0, v):
    return 0.5 * ((v0 / numpy.asarray(v, float)) ** (2.0 / 3.0) - 1.0)


def lsq_poly(x, y, deg):
    """own least squares (QR on a centred/scaled abscissa, extended precision via longdouble) ->
    callable evaluating the fitted polynomial and its derivative wrt x"""
    x = numpy.asarray(x, numpy.longdouble); y = numpy.asarray(y, numpy.longdouble)
    mu, sc = x.mean(), (x.max() - x.min()) / 2 or 1.0
    z = (x - mu) / sc
    A = numpy.stack([z ** k for k in range(deg + 1)], axis=1)
    # normal equations in longdouble on the well-scaled basis (condition ~1e3): ample for 1e-12
    M = A.T @ A; b = A.T @ y
    c = _solve_ld(M, b)

    def f(xx):
        zz = (numpy.asarray(xx, numpy.longdouble) - mu) / sc
        return numpy.asarray(sum(c[k] * zz ** k for k in range(deg + 1)), float)

    def df(xx):
        zz = (numpy.asarray(xx, numpy.longdouble) - mu) / sc
        return numpy.asarray(sum(k * c[k] * zz ** (k - 1) for k in range(1, deg + 1)) / sc, float)

    def d2f(xx):
        zz = (numpy.asarray(xx, numpy.longdouble) - mu) / sc
        return numpy.asarray(sum(k * (k - 1) * c[k] * zz ** (k - 2) for k in range(2, deg + 1)) / sc ** 2, float)

    f.d2 = d2f
    return f, df


def _solve_ld(M, b):
    M = numpy.array(M, numpy.longdouble); b = numpy.array(b, numpy.longdouble)
    n = len(b)
    for c in range(n):
        p = c + int(numpy.argmax(numpy.abs(M[c:, c])))
        if p != c:
            M[[c, p]] = M[[p, c]]; b[[c, p]] = b[[p, c]]
        for r in range(c + 1, n):
            f = M[r, c] / M[c, c]
            M[r] -= f * M[c]; b[r] -= f * b[c]
    x = numpy.zeros(n, numpy.longdouble)
    for r in range(n - 1, -1, -1):
        x[r] = (b[r] - M[r, r + 1:] @ x[r + 1:]) / M[r, r]
    return x


def fine_grid(volumes, ntv, ratio):
    """own statement of the fine volume grid: NTV points equally spaced in Eulerian strain (reference: the
    largest input volume) between V_max*ratio and V_min/ratio"""
    vmax, vmin = float(numpy.max(volumes)), float(numpy.min(volumes))
    s_lo = eulerian_strain(vmax, vmax * ratio); s_hi = eulerian_strain(vmax, vmin / ratio)
    s = numpy.linspace(s_lo, s_hi, ntv)
    return vmax * (2 * s + 1) ** (-1.5)


# ----------------------------------------------------------------------------- the qha package run directly (oracle side)
# packaged defaults of cij's `qha.settings` block as documented (docs/usage/settings; cij/data/default/settings.yaml is what the
# translator pins for C16) — typed here so that the oracle does not go through cij's configuration code
CIJ_QHA_DEFAULTS = {"T_MIN": 0, "DT": 100, "DT_SAMPLE": 100, "NT": 16, "P_MIN": 0, "DELTA_P": 1, "DELTA_P_SAMPLE": 1, "order": 3,
                    "static_only": False, "volume_ratio": 1.2}


def qha_direct(files: Dict[str, str]) -> dict:
    """The third-party qha package on the phonon file itself — its own reader, its own Calculator, no cij adapter in between.
    Returns P(T,V), C_V(T,V), F(T,V) (atomic units), V(T,P) and the grids: what "the QHA layer" computes for the tabulated
    spectrum.  (qha is external and trusted; cij's adapter must hand over exactly these.)"""
    import qha.calculator
    from qha.settings import DEFAULT_SETTINGS
    st = yaml.safe_load(files["settings.yaml"])
    s = dict(DEFAULT_SETTINGS)
    s.update(CIJ_QHA_DEFAULTS)
    s.update((st.get("qha") or {}).get("settings") or {})
    name = (st.get("qha") or {}).get("input", "input01")
    d = tempfile.mkdtemp(prefix="qhadirect_")
    try:
        path = os.path.join(d, os.path.basename(name))
        with open(path, "w") as fp:
            fp.write(files[name])
        s["input"] = path
        with quiet():
            c = qha.calculator.Calculator(s)
            c.read_input()
            c.refine_grid()
            out = {"p_tv_au": numpy.array(c.p_tv_au), "cv_tv_au": numpy.array(c.cv_tv_au), "f_tv_ry": numpy.array(c.f_tv_ry),
                   "v_array": numpy.array(c.finer_volumes_bohr3), "t_array": numpy.array(c.temperature_array),
                   "v_tp_bohr3": numpy.array(c.v_tp_bohr3), "p_array_au": numpy.array(c.desired_pressures)}
        return out
    finally:
        shutil.rmtree(d, ignore_errors=True)
