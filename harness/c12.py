"""C12 — results are finite and real on the whole grid for every valid configuration.

Sweep of the REAL `Calculator` over interpolators x admissible orders x crystal systems x temperature grids
(T_MIN >= 0, DT from 0.5 K to 500 K) x component sets incl. mixed shear keys, on synthetic physical data.
Oracle = the property statement evaluated on the outputs:
  completes; isothermal finite+real everywhere; adiabatic finite+real where C_V > 0 or T = 0; averages and velocities
  finite where the stiffness is positive definite; thermal terms exactly 0 at T = 0; c(T) -> c(0) as T -> 0.
Correspondence = the IEEE special-value model (CijModel/IEEEStat.lean) against numpy on the Q1/Q2 expressions that
the translator extracts from nonshear.py (ops c12.*), see `ieee_correspondence`.
"""
from __future__ import annotations

import itertools
import math

import numpy

from harness import synth, e2e
from harness.common import Ctx, Result, Disagreement, OracleFailure, make_rng, jsonable

ASSUMPTIONS = [
    "synthetic data sets are physically well-formed: positive non-acoustic frequencies (30-1500 cm^-1 at the first volume, power law or "
    "quadratic in ln V), strictly decreasing volumes, Birch-Murnaghan static energies, requested pressures inside the computed range",
    "qha (grid refinement, P(T,V), C_V) and scipy interpolators are external: their failures are found by the sweep, not by a theorem",
]

ADMISSIBLE = {  # per the property's quantifier; each additionally below the number of sampled volumes
    "lsq_poly": [1, 2, 3, 4, 5],
    "spline": [2, 3, 4, 5],
    "lagrange": [2, 3, 4, 5, 6],
    "krogh": [2, 3, 4, 5, 6],
    "pchip": [2, 3, 4, 6],
    "akima": [2, 3, 4, 6],
    "hermite": [2, 3, 4, 6],
}
SYSTEMS = list(synth.SYSTEM_INDEPENDENT)
MIXED = ["11", "22", "33", "12", "13", "23", "44", "55", "66", "14", "15", "16", "24", "25", "26", "34", "35", "36", "45", "46", "56"]


def gen_cases(ctx: Ctx):
    """structured list of generation parameters (each a dict -> synth.make_dataset kwargs + settings)"""
    rng = ctx.rng
    cases = []
    def add(**kw):
        kw["idx"] = len(cases)
        cases.append(kw)
    tgrids_lowT = [(0, 0.5, 8), (0, 1, 8), (0, 2, 6), (0, 5, 6), (1.5, 1.5, 5)]
    tgrids = [(0, 20, 6), (0, 100, 6), (0, 500, 5), (50, 250, 4)]
    # 1. every interpolator at two admissible orders, triclinic-like mixed keys, ordinary T grid
    for interp, orders in ADMISSIBLE.items():
        pick = [orders[0], orders[-1]] if not ctx.thorough() else orders
        for o in pick:
            nv = int(max(o + 2, rng.integers(6, 10)))
            add(interp=interp, order=int(o), nv=nv, tgrid=tgrids[int(rng.integers(len(tgrids)))],
                system=None, keys=MIXED[:9] + list(rng.choice(MIXED[9:], size=3, replace=False)), law="power")
    # 1b. node-based methods with an order above the number of sampled volumes (the code then uses every volume once)
    for interp in ("lagrange", "krogh", "pchip", "akima"):
        nv = int(rng.integers(5, 7))
        add(interp=interp, order=int(nv + rng.integers(1, 5)), nv=nv, tgrid=tgrids[int(rng.integers(len(tgrids)))],
            system=None, keys=MIXED[:9] + list(rng.choice(MIXED[9:], size=2, replace=False)), law="power")
    # 2. every temperature regime with the default interpolator, all 21 keys
    for tg in tgrids_lowT + tgrids:
        add(interp="lsq_poly", order=2, nv=7, tgrid=tg, system=None, keys=list(MIXED), law="quadratic")
    # 3. every crystal system (filling applied), alternating interpolators
    its = ["lsq_poly", "spline", "lagrange", "krogh", "pchip"]
    for i, s in enumerate(SYSTEMS):
        add(interp=its[i % len(its)], order=3, nv=8, tgrid=(0, 100, 5) if i % 2 else (0, 2, 5), system=s, keys=None,
            law="power", lattice=bool(i % 2))
    # 3b. "every valid configuration": the two documented ignore flags switched on (alone and together) with the minimal table of
    #     each non-triclinic system — the run must complete with every component the symmetry generates
    flagsets = [{"ignore_residuals": True}, {"ignore_rank": True}, {"ignore_residuals": True, "ignore_rank": True}]
    for i, s in enumerate(SYSTEMS):
        if s == "triclinic": continue
        if not ctx.thorough() and (i + ctx.seed) % 3 != 0: continue
        add(interp="lsq_poly", order=3, nv=7, tgrid=(0, 100, 4), system=s, keys=None, law="power", lattice=bool(i % 2),
            sym_flags=flagsets[i % 3])
    # 3c. requested pressures reaching into the last DELTA_P below the highest pressure available at every temperature: still
    #     "inside the computed range", so the calculation completes (finite on the whole grid, last pressure column included)
    for k in range(3 if ctx.thorough() else 1):
        add(interp="lsq_poly", order=3, nv=7, tgrid=(0, 150, 4), system=None, keys=MIXED[:9], law="power", edge_of_range=True,
            ntv=int([21, 16, 33][(k + ctx.seed) % 3]))
    # 3d. "every valid configuration": the static table carries its OWN number of rows and volume column (static runs on fewer or
    #     more volumes than the phonon file, also listed in another order), and the phonon file may give a Γ acoustic frequency as
    #     exactly 0.0 (the physically exact value) — the calculation completes with finite results
    for k, sm in enumerate(["fewer", "more"] if ctx.thorough() else [["fewer", "more"][ctx.seed % 2]]):
        add(interp="lsq_poly", order=3, nv=8, tgrid=(0, 100, 4), system=None, keys=MIXED[:9] + [MIXED[9 + k]], law="power",
            static_mesh=sm, lattice=bool(k % 2))
    for k, it in enumerate(["lsq_poly", "spline", "pchip"] if ctx.thorough() else ["lsq_poly"]):
        add(interp=it, order=3, nv=7, tgrid=(0, 100, 4), system=None, keys=MIXED[:9], law="power", gamma_acoustic="zero")
    # 3e. "every valid configuration": settings files that leave out what the packaged defaults supply — the interpolation order, the
    #     whole mode_gamma block, the whole elast.settings block (schema-valid: only qha.input / elast.input are required)
    omits = ["order", "mode_gamma", "elast_settings"]
    for k, om in enumerate(omits if ctx.thorough() else [omits[ctx.seed % 3], omits[(ctx.seed + 1) % 3]]):
        add(interp=["spline", "krogh", "lsq_poly"][k % 3], order=3, nv=7, tgrid=(0, 100, 4), system=None, keys=MIXED[:9], law="power", omit=om)
    # 3f. "every valid configuration": (a) a redundant component that disagrees with the symmetry relations by LESS than the residual
    #     tolerance at every single volume (c22 listed 0.35 GPa above c11 in a cubic table of 8 volumes: misfit 0.06 per volume) — accepted,
    #     the calculation completes; (b) a coupling that passes through exactly 0 at ONE volume — it is a component like any other
    add(interp="lsq_poly", order=3, nv=8, tgrid=(0, 100, 4), system="cubic", keys=["11", "12", "44", "22"], law="power", redundant_offset=0.35)
    add(interp="lsq_poly", order=3, nv=7, tgrid=(0, 100, 4), system=["trigonal7", "monoclinic"][ctx.seed % 2], keys=None, law="power", zero_at_one_volume=True)
    # 4. random mixtures
    n_rand = 250 if ctx.thorough() else 6
    for _ in range(n_rand):
        interp = str(rng.choice(list(ADMISSIBLE)))
        nv = int(rng.integers(5, 12))
        orders = [o for o in ADMISSIBLE[interp] if o < nv]
        tg = (tgrids_lowT + tgrids)[int(rng.integers(len(tgrids_lowT) + len(tgrids)))]
        sysn = str(rng.choice(SYSTEMS)) if rng.random() < 0.5 else None
        add(interp=interp, order=int(rng.choice(orders)), nv=nv, tgrid=tg, system=sysn,
            keys=None if sysn else MIXED[:9] + list(rng.choice(MIXED[9:], size=int(rng.integers(0, 6)), replace=False)),
            law=str(rng.choice(["power", "quadratic"])), lattice=bool(rng.random() < 0.5),
            nq=int(rng.integers(1, 4)), na=int(rng.integers(1, 4)))
    return cases


def build(case, seed):
    rng = make_rng(seed, f"C12/{case['idx']}")
    tmin, dt, nt = case["tgrid"]
    settings = {"qha": {"settings": {"T_MIN": tmin, "DT": dt, "NT": nt, "DT_SAMPLE": dt, "NTV": 12, "DELTA_P": 1.0}},
                "elast": {"settings": {"mode_gamma": {"interpolator": case["interp"], "order": case["order"]}}}}
    if case.get("sym_flags"):
        settings["elast"]["settings"]["symmetry"] = dict(case["sym_flags"])
    ds = synth.make_dataset(rng, nv=case["nv"], nq=case.get("nq", 2), na=case.get("na", 2), system=case.get("system"),
                            keys=case.get("keys"), lattice=case.get("lattice", False), law=case.get("law", "power"),
                            settings=settings, static_mesh=case.get("static_mesh", "same"))
    om = case.get("omit")
    if om == "order":
        del ds.settings["elast"]["settings"]["mode_gamma"]["order"]
    elif om == "mode_gamma":
        del ds.settings["elast"]["settings"]["mode_gamma"]
    elif om == "elast_settings":
        del ds.settings["elast"]["settings"]
    if case.get("redundant_offset"):
        c11, c22 = ds.static_keys.index("11"), ds.static_keys.index("22")
        ds.static_table[:, c22] = ds.static_table[:, c11] + float(case["redundant_offset"])
    if case.get("zero_at_one_volume"):
        cand = [c for c, k_ in enumerate(ds.static_keys) if k_[0] != k_[1] and int(k_[1]) >= 4]
        if cand:
            c0 = cand[case["idx"] % len(cand)]; z = 1 + (case["idx"] % (ds.nv - 1))
            ds.static_table[:, c0] = ds.static_table[:, c0] - ds.static_table[z, c0]
    if case.get("gamma_acoustic") == "zero":
        ds.freqs[:, 0, :3] = 0.0
        ds.freqs[0, 0, 1] = -0.1234       # one small negative residue next to exact zeros, as DFPT output mixes them
    return ds


def classify_nonfinite(bad: numpy.ndarray, t_array, v_array, sampled_v):
    """where are the non-finite entries? -> short stable tag"""
    rows, cols = numpy.where(bad)
    if len(rows) == 0: return None
    outside = (v_array[cols] > sampled_v.max() * (1 + 1e-12)) | (v_array[cols] < sampled_v.min() * (1 - 1e-12))
    if outside.all() and len(set(rows)) >= max(1, len(t_array) - 5):
        return "outside-sampled-volumes"
    if (t_array[rows] < 20).all():
        return "low-T-rows"
    return "grid"


def evaluate(case, seed):
    """Run the real Calculator on the case and evaluate the property clauses. Returns list of (site, what, observed)."""
    ds = build(case, seed)
    fails = []
    interp = case["interp"]
    if case.get("edge_of_range"):
        n = int(case["ntv"])
        qs = ds.settings["qha"]["settings"]
        qs.update({"NTV": n, "P_MIN": 0.0, "DELTA_P": 0.01, "DELTA_P_SAMPLE": 0.01})
        st0, probe = e2e.run_calculator(ds)
        if st0 == "error":
            return [(f"completion:{interp}:{type(probe).__name__}", f"Calculator raised {type(probe).__name__} on the probe grid", str(probe)[:200])], None
        with e2e.quiet():
            p_limit = float(numpy.min(numpy.asarray(probe.qha_calculator.calculator.p_tv_gpa)[:, -1]))
        dp = p_limit / (n - 0.5)                      # last requested pressure = p_limit (n-1)/(n-0.5): half a step below the limit
        qs.update({"DELTA_P": dp, "DELTA_P_SAMPLE": dp})
    status, calc = e2e.run_calculator(ds)
    if status == "error":
        e = calc
        fails.append((f"completion:{interp}:{type(e).__name__}", f"Calculator raised {type(e).__name__} for a valid configuration "
                      f"(interpolator {interp}, order {case['order']})", str(e)[:200]))
        return fails, None
    with e2e.quiet():
        t = numpy.asarray(calc.t_array, dtype=float)
        v = numpy.asarray(calc.v_array, dtype=float)
        cv = numpy.asarray(calc.qha_calculator.volume_base.heat_capacity)
        t0 = (t == 0)
        info = {"nt": len(t), "ntv": len(v), "cv_nonpositive": int((cv <= 0).sum()), "keys": len(calc.modulus_keys)}
        # every component the table supplies with a non-zero value at SOME volume is a component of the result ("finite on the whole grid"
        # is a statement about all of them)
        supplied = [k_ for c, k_ in enumerate(ds.static_keys) if numpy.any(ds.static_table[:, c] != 0)]
        have = {"%d%d" % tuple(k_.v) for k_ in calc.modulus_keys}
        missing = [k_ for k_ in supplied if "".join(sorted(k_)) not in have and k_ not in have]
        if missing:
            fails.append(("components-missing", f"components {missing} of the static table are absent from the result (the calculation has no value for them)",
                          {"missing": missing, "have": sorted(have)}))
        # (b) isothermal
        for kind, store, mask in (("isothermal", calc.modulus_isothermal, numpy.ones((len(t), len(v)), bool)),
                                  ("adiabatic", calc.modulus_adiabatic, (cv > 0) | t0[:, None])):
            for key, val in store.items():
                val = numpy.asarray(val)
                if numpy.iscomplexobj(val):
                    fails.append((f"{kind}-complex:{interp}", f"{kind} modulus {key} has dtype {val.dtype}", str(val.dtype)))
                    break
                bad = ~numpy.isfinite(val) & mask
                tag = classify_nonfinite(bad, t, v, ds.volumes)
                if tag:
                    fails.append((f"{kind}-nonfinite:{tag}:{interp if tag != 'low-T-rows' else 'any'}",
                                  f"{kind} modulus {key} not finite at {int(bad.sum())} grid points ({tag})",
                                  {"first": [int(x) for x in numpy.argwhere(bad)[0]], "T": float(t[numpy.argwhere(bad)[0][0]])}))
                    break
        # (d) averages / velocities where SPD
        iso_ok = all(numpy.isfinite(numpy.asarray(x)).all() for x in calc.modulus_adiabatic.values())
        mats = e2e.stiffness_matrices(calc.modulus_adiabatic, (len(t), len(v)))
        spd = e2e.spd_mask(mats)
        info["spd_points"] = int(spd.sum())
        vb = calc.volume_base
        for name in ("bulk_modulus_voigt", "bulk_modulus_reuss", "bulk_modulus_voigt_reuss_hill", "shear_modulus_voigt",
                     "shear_modulus_reuss", "shear_modulus_voigt_reuss_hill", "primary_velocities", "secondary_velocities"):
            try:
                arr = numpy.asarray(getattr(vb, name))
            except Exception as e:
                fails.append((f"average-exception:{name}", f"{name} raised {type(e).__name__}", str(e)[:200])); continue
            if numpy.iscomplexobj(arr) or not numpy.isfinite(arr[spd]).all():
                fails.append((f"average-nonfinite:{name}", f"{name} not finite/real at a positive-definite grid point",
                              int((~numpy.isfinite(arr[spd])).sum())))
        # (e) thermal terms vanish at T = 0 exactly
        tl = calc._full_modulus._phonon_contribution_task_list
        if t0.any():
            for task in tl.data:
                c = task.calculator
                if hasattr(c, "thermal_contribution"):
                    th = numpy.asarray(c.thermal_contribution)[t0]
                    gap = numpy.asarray(c.isothermal_to_adiabatic)[t0]
                    if not (numpy.all(th == 0) and numpy.all(gap == 0)):
                        fails.append(("thermal-nonzero-at-T0", f"thermal term / adiabatic gap of task {task.key} not exactly 0 at T=0",
                                      [float(numpy.abs(th).max()), float(numpy.abs(gap).max())]))
                        break
        # (f) c(T) -> c(0): on grids whose first positive temperature is <= 2 K
        pos = numpy.where(t > 0)[0]
        if t0.any() and len(pos) and t[pos[0]] <= 2.0:
            i0, i1 = int(numpy.where(t0)[0][0]), int(pos[0])
            for key, val in calc.modulus_isothermal.items():
                val = numpy.asarray(val)
                if not (numpy.isfinite(val[i0]).all() and numpy.isfinite(val[i1]).all()): continue
                scale = float(numpy.abs(val[i0]).max())
                d = float(numpy.abs(val[i1] - val[i0]).max())
                if d > 1e-5 * scale:
                    fails.append(("low-T-discontinuity", f"c({t[i1]} K) differs from c(0 K) by {d / scale:.2e} of scale for {key}",
                                  d / scale)); break
    return fails, info


def ieee_correspondence(ctx: Ctx, res: Result):
    """IEEE special-value model vs numpy on the Q1/Q2 expressions of nonshear.py (added when the ops exist)."""
    try:
        from harness import c12_ieee
    except ImportError:
        res.notes.append("IEEE special-value correspondence not built yet")
        return
    c12_ieee.run(ctx, res)


def run(ctx: Ctx) -> Result:
    res = Result()
    res.rule = ("each case = (interpolator, order, crystal system/component set, T grid, data-set shape, frequency law); all distinct by "
                "construction; non-trivial = the Calculator ran to completion on it or raised (every case is one full calculation)")
    cases = gen_cases(ctx)
    dist = {"interpolators": {}, "tgrids": {}, "systems": {}, "completed": 0, "raised": 0, "cv_nonpositive_points": 0,
            "spd_points": 0}
    seen = set()
    for case in cases:
        if ctx.time_left() < 30: res.notes.append("time budget reached; remaining cases skipped"); break
        fails, info = evaluate(case, ctx.seed)
        res.evaluations += 1
        dist["interpolators"][case["interp"]] = dist["interpolators"].get(case["interp"], 0) + 1
        dist["tgrids"][str(case["tgrid"])] = dist["tgrids"].get(str(case["tgrid"]), 0) + 1
        dist["systems"][str(case.get("system"))] = dist["systems"].get(str(case.get("system")), 0) + 1
        if info:
            dist["completed"] += 1; dist["cv_nonpositive_points"] += info["cv_nonpositive"]; dist["spd_points"] += info["spd_points"]
        else:
            dist["raised"] += 1
        if len(res.samples) < 3:
            res.samples.append({"case": jsonable(case), "outcome": "completed" if info else "raised", "info": info})
        for site, what, obs in fails:
            if site in seen: continue
            seen.add(site)
            res.oracle_failures.append(OracleFailure(what=what, input={"case": jsonable(case), "seed": ctx.seed}, observed=obs,
                                                     expected="finite real results on the whole grid", site=site))
    res.distinct_nontrivial = res.evaluations
    res.traces_validated = dist["completed"]
    res.distribution = dist
    ieee_correspondence(ctx, res)
    return res


def search(ctx: Ctx, res: Result):
    out = []
    rng_cases = gen_cases(Ctx(pid=ctx.pid, tier="thorough", seed=ctx.seed + 1000, rng=make_rng(ctx.seed + 1000, "C12s"),
                              driver=ctx.driver, corpus_dir=ctx.corpus_dir, deadline=ctx.deadline))
    seen = set()
    for case in rng_cases:
        if ctx.time_left() < 20: break
        fails, _ = evaluate(case, ctx.seed + 1000)
        for site, what, obs in fails:
            if site not in seen:
                seen.add(site)
                out.append(OracleFailure(what=what, input={"case": jsonable(case), "seed": ctx.seed + 1000}, observed=obs,
                                         expected="finite real results", site=site))
    return out


def replay(ctx: Ctx, payload):
    case = payload["case"]
    case["tgrid"] = tuple(case["tgrid"])
    fails, _ = evaluate(case, payload["seed"])
    return [OracleFailure(what=w, input=payload, observed=o, site=s) for s, w, o in fails]
