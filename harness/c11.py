"""C11 — every interpolation method returns a consistent (omega, gamma, V dgamma/dV) triple.

Correspondence: the REAL `cij.core.mode_gamma.interpolate_modes` (and `lstsq_polyfit`, numpy `polyder/polyval` as used
there, `Calculator._interpolate_modes`, `ModePlotter.plot_modes`) against the Lean model `CijModel/Interp.lean`
(ops `c11.*`).  Polynomial methods (lsq_poly, lagrange, krogh): full values.  pchip / akima: full values as well — scipy's
PchipInterpolator / Akima1DInterpolator are modelled (`CijModel/PPoly.lean`: slope rules, Hermite pieces in PPoly's power basis, piece
location with extrapolation); the classes themselves are compared op by op (`c11.pchip`, `c11.akima`) on generated node sets, and the
real `interpolate_modes` output (after its thinning and flips) with the model's triple.  spline (FITPACK):
the model supplies the node vectors it hands to the library (flipped, logged); the harness builds the scipy
interpolant on exactly those nodes (the external call, a parameter of the model) and returns the samples (s, s', s'');
the model finishes (exp, signs, loop, Gamma skip); the result is compared with the real function's output.

Oracle (independent of the code under test and of the Lean model): the generating law is analytic, so gamma and
V dgamma/dV are known in closed form; finite differences in ln V (5-point stencils) of the first returned array against
the second and of the second against the third; exact zeros at Gamma-acoustic; (q,m) permutation equivariance (bitwise);
mpmath reference polynomial for the polynomial methods; recording axes object for the plot.

Streams added with the translator tie of the whole module (`tools/gens/modegamma_src.py`; what the tie showed was untested):
`grid-ascending` / `grid-shuffled` (direct calls with such `v_array`: every value must stay attached to ITS requested volume — pointwise
equal to the call on the descending grid, and equal to the generating law where exactness is promised), `curved` (strongly curved
ln w(ln V): the THIRD array against finite differences of the SECOND for every method — a wrong logarithm base scales it by ln 10),
`lsq-zero-acoustic` (a Gamma-acoustic frequency given as exactly 0.0 with lsq_poly on the full `interpolate_modes`: every other mode
finite and bit-identical to the run with positive junk there), `coincide-first-volume` (neighbouring modes equal at the first listed
volume only: each must come out as if it were alone in the file).
"""
from __future__ import annotations

import math
import warnings
from typing import Any, Dict, List, Optional, Tuple

import numpy

from harness.common import Ctx, Result, Disagreement, OracleFailure, enc, dec_arr, family_close, jsonable

ASSUMPTIONS = [
    "scipy UnivariateSpline (FITPACK) is a parameter of the model (samples s, s', s'' supplied as data on the model's own node vectors); "
    "the contract 's' and s'' are the derivatives of s' is measured on every spline case by 5-point finite differences inside the "
    "sampled range",
    "scipy PchipInterpolator / Akima1DInterpolator (scipy 1.18.1: _cubic.py, PPoly.__call__, _ppoly.evaluate / find_interval) are MODELLED, "
    "not assumed: `CijModel/PPoly.lean` is compared with the real classes on generated node sets (ops c11.pchip / c11.akima, values for "
    "nu = 0,1,2 inside, outside and at the nodes; bit-for-bit agreement is counted, 1e-12 of the family scale is demanded); the compiled "
    "_ppoly extension itself is outside the translator (no source installed) and tied by this run only",
    "scipy CubicHermiteSpline(x, y, dydx) has three required arguments (the model encodes the resulting TypeError of the 2-argument call)",
    "numpy.linalg.lstsq returns the least-squares solution for full-column-rank systems (compared with the exact rational solution), and "
    "the zero solution without raising for a system with no rows (no volume block; compared on the shape-malformed stream)",
    "malformed shapes (no volume block; a block with too few q-points / modes) are outside the property's quantifier: the real code's "
    "exception class (ValueError of `[::0]`, IndexError of the first missing read in loop order, scipy's IndexError for "
    "UnivariateSpline on empty arrays — that one supplied to the model as the library's outcome) is compared with the model's "
    "`interpolateModesF` on every run; no oracle is attached to them",
    "scipy.interpolate.lagrange builds monomial coefficients around ln V ~ 6 and is ill-conditioned for >= 5 nodes: its rounding "
    "error is bounded a priori (eps * sum_j |y_j| prod_k (|x|+|x_k|)/|x_j-x_k|) and added to the tolerance of lagrange cases only",
    "numpy.linalg.lstsq on the Vandermonde matrix about ln V ~ 6: rounding bounded a priori by 0.5*eps*cond2(vander)*max|ln w| (values) and "
    "Markov's inequality (derivatives); added to the tolerance of lsq_poly cases (matters for order 5 only: cond ~ 1e9..1e10)",
    "volume grids follow qha's VolumeExpander (Eulerian-strain-uniform between V_max*ratio and V_min/ratio), ratio in [1.0, 1.45]",
    "bohr->angstrom factor of the plot abscissa is checked against 0.529177210903^3 to 1e-6 (pint is not re-verified)",
]
TRUSTED_EXTRA = [
    "Float<->Rat conversion in lean/CijModel/Ops/C11.lean (exact in, nearest-double out) around the exact least-squares kernel",
    "mpmath (50 digits) reference polynomial in the oracle",
]

METHODS = ["spline", "lagrange", "krogh", "pchip", "akima", "hermite", "lsq_poly"]
LIB = ("spline", "pchip", "akima")     # methods whose kernel is a scipy object (tolerance class)
LIBPARAM = ("spline",)                  # ... of which still a PARAMETER of the model (samples supplied by the harness)
PPOLY = ("pchip", "akima")              # ... and modelled in CijModel/PPoly.lean
POLY = ("lsq_poly", "lagrange", "krogh")
NODE = ("lagrange", "krogh", "pchip", "akima", "hermite")
EPS = 2.220446049250313e-16

# known-defect sites (stable ids)
SITE_HERMITE = "interpolate_modes:hermite-TypeError"
SITE_PLOT = "plot_modes:n1-n2-swapped"


# ----------------------------------------------------------------------------- real code access
def _impl():
    from cij.core import mode_gamma
    return mode_gamma


def _models():
    from cij.io.traditional import models
    return models


def make_qha_input(case):
    m = _models()
    vols = case["volumes"]
    if case.get("ragged"):
        # shape-malformed stream: the blocks as they are (any number of q-points per volume, any number of modes per q-point); the
        # header fields nq / np are the case's, whatever the blocks hold
        blocks = case["freqs"]
        nq_h = case["nq"]
        coords = [(0.0, 0.0, 0.0)] + [(0.1 * q, 0.05 * q, 0.0) for q in range(1, max(nq_h, 1) + 4)]
        volumes = [m.VolumeData(0.0, float(vols[i]), -100.0 + 0.01 * i,
                                [m.QPointData(coords[q], [float(x) for x in row]) for q, row in enumerate(blocks[i])])
                   for i in range(len(vols))]
        weights = [m.QPointWeight(coords[q], 1.0) for q in range(nq_h)]
        return m.QHAInputData(len(vols), nq_h, case["np"], 1, case["np"] // 3, weights, volumes)
    fr = numpy.asarray(case["freqs"], dtype=float)
    nv, nq, np_ = fr.shape
    coords = [(0.0, 0.0, 0.0)] + [(0.1 * q, 0.05 * q, 0.0) for q in range(1, nq)]
    volumes = [m.VolumeData(0.0, float(vols[i]), -100.0 + 0.01 * i,
                            [m.QPointData(coords[q], [float(x) for x in fr[i, q]]) for q in range(nq)])
               for i in range(nv)]
    weights = [m.QPointWeight(coords[q], 1.0) for q in range(nq)]
    return m.QHAInputData(nv, case["nq"], case["np"], 1, case["np"] // 3, weights, volumes)


def call_real(case, v_array=None):
    """-> ("ok", F, G, D) or ("error:<Type>", msg)"""
    mg = _impl()
    v = numpy.asarray(case["v_array"] if v_array is None else v_array, dtype=float)
    try:
        with warnings.catch_warnings():
            warnings.simplefilter("ignore")
            with numpy.errstate(all="ignore"):
                f, g, d = mg.interpolate_modes(make_qha_input(case), v, method=case["method"], order=case["order"])
        return ("ok", numpy.asarray(f, float), numpy.asarray(g, float), numpy.asarray(d, float))
    except Exception as e:  # noqa
        return ("error:" + type(e).__name__, str(e)[:200])


# ----------------------------------------------------------------------------- generator
def admissible_orders(method: str, nv: int) -> List[int]:
    if method == "spline":
        return [k for k in range(2, 6) if k < nv]
    if method == "lsq_poly":
        return [k for k in range(1, 6) if k < nv]
    return [k for k in range(2, nv)]


def qha_grid(vols, ntv: int, ratio: float):
    """qha.grid_interpolation.VolumeExpander, restated: uniform in Eulerian strain w.r.t. V_max between V_max*ratio and V_min/ratio."""
    vmin, vmax = float(numpy.min(vols)), float(numpy.max(vols))
    s_lo = 0.5 * ((vmax / (vmax * ratio)) ** (2.0 / 3.0) - 1.0)
    s_hi = 0.5 * ((vmax / (vmin / ratio)) ** (2.0 / 3.0) - 1.0)
    s = numpy.linspace(s_lo, s_hi, ntv)
    return vmax * (2.0 * s + 1.0) ** (-1.5)


def law_eval(law: dict, lnv):
    """analytic ln(omega), gamma = -dln w/dln V, g = dgamma/dln V (= V dgamma/dV) of one mode at ln V values (numpy, broadcast)."""
    x = numpy.asarray(lnv, dtype=float) - law["lnv0"]
    b = law["b"]  # ln w = b0 + b1 x + b2 x^2 + ...
    lnw = sum(bi * x ** i for i, bi in enumerate(b))
    gam = -sum(i * bi * x ** (i - 1) for i, bi in enumerate(b) if i >= 1)
    g = -sum(i * (i - 1) * bi * x ** (i - 2) for i, bi in enumerate(b) if i >= 2) + 0.0 * x
    if law.get("kink"):
        # piecewise-linear ln w in ln V (flat pieces, equal adjacent secants, secant sign changes); gamma/g are the a.e. derivatives
        kx, ky = numpy.asarray(law["kink"]["x"], float), numpy.asarray(law["kink"]["y"], float)
        xa = numpy.asarray(lnv, dtype=float)
        lnw = numpy.interp(xa, kx, ky)
        sl = numpy.diff(ky) / numpy.diff(kx)
        idx = numpy.clip(numpy.searchsorted(kx, xa, side="right") - 1, 0, len(sl) - 1)
        return lnw, -sl[idx], 0.0 * xa
    if law.get("A"):
        A, kap, ph = law["A"], law["kappa"], law["phi"]
        lnw = lnw + A * numpy.sin(kap * x + ph)
        gam = gam - A * kap * numpy.cos(kap * x + ph)
        g = g + A * kap * kap * numpy.sin(kap * x + ph)
    return lnw, gam, g


def gen_case(rng, method: str, order: int, nv: int, lawkind: str, small: bool = False) -> dict:
    nq = int(rng.integers(1, 3 if small else 4))
    na = int(rng.integers(1, 3))
    np_ = 3 * na
    if nq == 1 and np_ == 3:
        np_ = 6
    v0 = float(rng.uniform(60.0, 900.0))
    grid = numpy.linspace(1.06, 0.86, nv)
    if rng.random() < 0.5:   # non-uniform spacing, still strictly decreasing
        step = (1.06 - 0.86) / (nv - 1)
        grid = grid + rng.uniform(-0.3, 0.3, size=nv) * step
    vols = v0 * grid
    ascending = bool(method in POLY and rng.random() < 0.15)
    if ascending:
        vols = vols[::-1].copy()
    lnv0 = float(numpy.log(vols[0]))
    laws = []
    for q in range(nq):
        row = []
        for m_ in range(np_):
            w0 = float(rng.uniform(30.0, 1500.0))
            gam0 = float(rng.uniform(0.2, 2.5)) * (1.0 if rng.random() < 0.9 else -0.4)
            b = [math.log(w0), -gam0]
            law = {"lnv0": lnv0, "b": b}
            if lawkind == "poly":
                deg = int(case_degree(method, order, nv, rng))
                mags = [0.0, 0.0, 1.0, 2.0, 4.0, 8.0]
                for i in range(2, deg + 1):
                    b.append(float(rng.uniform(-1.0, 1.0)) * mags[i])
                if deg >= 2 and abs(b[deg]) < 0.2 * mags[deg]:
                    b[deg] = 0.5 * mags[deg]        # keep the top degree really present
            elif lawkind == "smooth":
                law.update(A=float(rng.uniform(0.01, 0.06)), kappa=float(rng.uniform(3.0, 12.0)),
                           phi=float(rng.uniform(0.0, 6.28)))
            elif lawkind == "kinked":
                # ln w piecewise linear with breakpoints AT the sampled volumes: slopes from a small set, so that the thinned node
                # sets see zero secants (pchip: slope 0), equal adjacent secants (akima: vanishing weights -> fill value), sign changes
                kx = numpy.sort(numpy.log(vols))
                sl = rng.choice([-2.0, -1.0, -1.0, 0.0, 0.0, 0.5, 1.5], size=len(kx) - 1)
                if rng.random() < 0.4:
                    sl = numpy.sort(sl)[::-1] if rng.random() < 0.5 else -numpy.abs(sl)      # monotone data sets
                ky = math.log(w0) + numpy.concatenate([[0.0], numpy.cumsum(sl * numpy.diff(kx))])
                law["kink"] = {"x": [float(v) for v in kx], "y": [float(v) for v in ky]}
            row.append(law)
        laws.append(row)
    lnvols = numpy.log(vols)
    freqs = numpy.zeros((nv, nq, np_))
    for q in range(nq):
        for m_ in range(np_):
            freqs[:, q, m_] = numpy.exp(law_eval(laws[q][m_], lnvols)[0])
    # Gamma-acoustic input entries: exact zeros, small negative noise (as in shipped files), or positive junk (must be ignored)
    acoustic = str(rng.choice(["zero", "negative", "junk"], p=[0.4, 0.3, 0.3]))
    if acoustic == "zero":
        freqs[:, 0, :3] = 0.0
    elif acoustic == "negative":
        freqs[:, 0, :3] = -rng.uniform(0.0, 0.2, size=(nv, 3)).round(4)
    else:
        freqs[:, 0, :3] = rng.uniform(0.5, 40.0, size=(nv, 3))
    ratio = float(rng.choice([1.0, 1.1, 1.2, 1.2, 1.2, 1.3, 1.45]))
    ntv = int(rng.integers(8, 21))
    v_array = qha_grid(vols, ntv, ratio)
    return {"method": method, "order": int(order), "nq": nq, "np": np_, "volumes": [float(x) for x in vols],
            "freqs": freqs.tolist(), "v_array": [float(x) for x in v_array], "law": lawkind, "laws": laws,
            "ratio": ratio, "acoustic": acoustic, "ascending": ascending}


def n_nodes(nv: int, order: int) -> int:
    """documented thinning: every ceil(nv/order)-th volume starting with the first (at most `order` nodes)."""
    interval = -(-nv // order)
    return len(range(0, nv, interval))


def case_degree(method, order, nv, rng) -> int:
    """degree of a 'polynomial in ln V' law that the method must reproduce exactly"""
    if method == "lsq_poly":
        return int(rng.integers(max(1, order - 1), order + 1))       # order-1 or order (<= order)
    if method in ("lagrange", "krogh"):
        return max(1, min(4, n_nodes(nv, order) - 1))                 # degree < number of thinned nodes
    if method == "spline":
        return min(order, 3)
    return 1


def gen_cases(ctx: Ctx) -> List[dict]:
    rng = ctx.rng
    cases = []
    nvs = [4, 5, 6, 7, 9, 12] if not ctx.thorough() else [4, 5, 6, 7, 8, 9, 10, 11, 12, 14]
    reps = 1 if not ctx.thorough() else 4
    for method in METHODS:
        for nv in nvs:
            orders = admissible_orders(method, nv)
            if not ctx.thorough() and len(orders) > 5:
                orders = sorted(set(orders[:4] + [orders[-1]] + [int(rng.choice(orders))]))
            for order in orders:
                for lawkind in ("power", "poly", "smooth") + (("kinked",) if method in PPOLY else ()):
                    for _ in range(reps):
                        cases.append(gen_case(rng, method, order, nv, lawkind))
    return cases


def gen_malformed(ctx: Ctx) -> List[dict]:
    """outside the property's quantifier: order 0/1 for node methods, spline k >= nv or k=1 or k>5, unknown method,
    library methods with ascending volumes, lsq order >= nv.  Only the *kind of outcome* is compared."""
    rng = ctx.rng
    out = []
    spec = [("lagrange", 1), ("krogh", 1), ("pchip", 1), ("akima", 1), ("lagrange", 0), ("pchip", 0), ("hermite", 0),
            ("spline", 1), ("spline", 6), ("spline", 5), ("nosuchmethod", 3), ("lagrange", 40), ("krogh", 13)]
    for method, order in spec:
        nv = 5 if (method, order) == ("spline", 5) else int(rng.choice([4, 6, 9]))
        c = gen_case(rng, method if method != "nosuchmethod" else "lsq_poly", max(order, 1), nv, "power", small=True)
        c["method"], c["order"], c["malformed"] = method, order, True
        out.append(c)
    for method in ("spline", "pchip", "akima"):
        c = gen_case(rng, method, 3, 6, "power", small=True)
        c["volumes"] = c["volumes"][::-1]
        c["freqs"] = numpy.asarray(c["freqs"])[::-1].tolist()
        c["malformed"] = True
        out.append(c)
    # a zero / negative (imaginary) frequency of a non-acoustic mode at a volume the thinning keeps: ln w = -inf / nan reaches the constructor
    for method in PPOLY:
        for bad, tag in ((0.0, "zero-frequency"), (-7.5, "negative-frequency")):
            c = gen_case(rng, method, 3, 6, "power", small=True)
            fr = numpy.asarray(c["freqs"], float)
            fr[0, c["nq"] - 1, c["np"] - 1] = bad
            c["freqs"] = fr.tolist()
            c["malformed"] = True; c["malformed_tag"] = tag
            out.append(c)
    return out


SHAPE_KINDS = ("no-volume", "no-volume-order0", "short-qpoints", "short-modes", "short-gamma-acoustic-only")


def first_missing(case):
    """first (j, k, volume) in LOOP ORDER (j, then k, then file order of the volumes) at which `volume.q_points[j].modes[k]` does not
    exist, skipping the Gamma-acoustic cells, which the loop never reads; None if every read succeeds.  Independent of code and model."""
    for j in range(case["nq"]):
        for k in range(case["np"]):
            if j == 0 and k < 3:
                continue
            for i, block in enumerate(case["freqs"]):
                if j >= len(block) or k >= len(block[j]):
                    return (j, k, i)
    return None


def gen_shape_malformed(ctx: Ctx) -> List[dict]:
    """inputs the reader never produces but `interpolate_modes` accepts as arguments: NO volume block at all; a block with too few
    q-points; a q-point with too few modes (incl. one that lacks only Gamma-acoustic entries, which nobody reads).  Every method of the
    table and a method string outside it.  Only the outcome (exception class, or the arrays when there is none) is compared."""
    rng = ctx.rng
    out = []
    methods = METHODS + ["nosuchmethod"]
    reps = 1 if not ctx.thorough() else 3
    for _ in range(reps):
        for method in methods:
            base_m = method if method != "nosuchmethod" else "lsq_poly"
            order = 2 if method in ("lsq_poly", "nosuchmethod") else 3
            for kind in SHAPE_KINDS:
                c = gen_case(rng, base_m, order, int(rng.choice([5, 6, 7])), "power", small=True)
                c["method"] = method
                blocks = [[list(map(float, row)) for row in vol] for vol in c["freqs"]]
                nv, nq, np_ = len(blocks), c["nq"], c["np"]
                if kind in ("no-volume", "no-volume-order0"):
                    if kind == "no-volume-order0":
                        if method not in NODE:
                            continue
                        c["order"] = 0
                    c["volumes"], blocks = [], []
                    c["v_array"] = c["v_array"][:int(rng.integers(1, 6))]
                elif kind == "short-qpoints":
                    iv = int(rng.integers(0, nv))
                    blocks[iv] = blocks[iv][:int(rng.integers(0, nq))]
                elif kind == "short-modes":
                    iv, jq = int(rng.integers(0, nv)), int(rng.integers(0, nq))
                    if jq == 0 and np_ == 3:
                        jq = 1                          # (gen_case: nq >= 2 whenever np = 3)
                    lo = 3 if jq == 0 else 0            # at Gamma keep the acoustic entries: the first non-acoustic read fails
                    blocks[iv][jq] = blocks[iv][jq][:int(rng.integers(lo, np_))]
                else:
                    # only Gamma-ACOUSTIC entries are missing, and only in a header with np = 3 can a Gamma row be that short
                    # without a later read failing: shrink the header to np = 3 (nq >= 2 so that something is interpolated)
                    if nq < 2:
                        # (nq = 1 comes with np >= 6: the new q-point takes Gamma's first three NON-acoustic, power-law, series)
                        blocks = [vol + [[float(x) * 1.07 for x in vol[0][3:6]]] for vol in blocks]
                        nq = c["nq"] = 2
                    blocks = [[row[:3] for row in vol] for vol in blocks]
                    np_ = c["np"] = 3
                    iv = int(rng.integers(0, nv))
                    blocks[iv][0] = blocks[iv][0][:int(rng.integers(0, 3))]
                c["freqs"] = blocks
                c["ragged"], c["malformed"], c["stream"], c["shape_kind"] = True, True, "shape-malformed", kind
                for k_ in ("laws", "law"):
                    c.pop(k_, None)
                out.append(c)
    return out


def compare_shape(case, real, model) -> Optional[str]:
    """outcome kinds; when both return arrays: the arrays (1e-6 of the family scale — small well-conditioned cases)"""
    if real[0] != "ok" or model[0] != "ok":
        return None if real[0] == model[0] else f"outcome differs: impl={real[0]} model={model[0]}"
    for name, a, b in zip(("omega", "gamma", "VdgammadV"), real[1:], model[1:]):
        if a.shape != b.shape:
            return f"{name}: shape {a.shape} vs {b.shape}"
        if a.size == 0:
            continue
        sc = max(1.0, float(numpy.nanmax(numpy.abs(a))))
        ok, err, _ = family_close(a, b, rtol=1e-6, scale=sc)
        if not ok:
            return f"{name} differs {err:.3e} of scale {sc:.2f}"
    return None


# ----------------------------------------------------------------------------- model access
def wire_case(case) -> dict:
    return {"method": case["method"], "order": case["order"], "nq": case["nq"], "np": case["np"],
            "volumes": enc(case["volumes"]), "freqs": enc(case["freqs"]), "v_array": enc(case["v_array"])}


def lib_samples(method: str, order: int, xs, ys, lnv):
    """The external call the code makes, on the model's node vectors.  -> list of [s, s', s''] or 'error:<Type>'."""
    import scipy.interpolate as si
    try:
        with warnings.catch_warnings():
            warnings.simplefilter("ignore")
            if method == "spline":
                it = si.UnivariateSpline(xs, ys, k=order)
                s0, s1, s2 = it(lnv), it(lnv, nu=1), it(lnv, nu=2)
            else:
                cls = {"pchip": si.PchipInterpolator, "akima": si.Akima1DInterpolator}[method]
                it = cls(xs, ys)
                s0, s1, s2 = it(lnv, extrapolate=True), it(lnv, nu=1, extrapolate=True), it(lnv, nu=2, extrapolate=True)
        return numpy.stack([s0, s1, s2], axis=1)
    except Exception as e:  # noqa
        return "error:" + type(e).__name__


def ask_model(ctx: Ctx, cases: List[dict]) -> List[Any]:
    """-> per case ("ok", F, G, D) or ("error:<Type>",)"""
    libidx = [i for i, c in enumerate(cases) if c["method"] in LIBPARAM]
    nodes = ctx.driver.ask([dict(op="c11.nodes", **wire_case(cases[i])) for i in libidx])
    ops = []
    k = 0
    for i, c in enumerate(cases):
        op = dict(op="c11.interp", **wire_case(c))
        if c["method"] in LIBPARAM:
            nd = nodes[k]; k += 1
            lnv = dec_arr(nd["lnv"])
            table, seen = [], set()
            for row in nd["cells"]:
                for cell in row:
                    if cell is None or "error" in cell:
                        continue
                    key = tuple(cell["ys"])
                    if key in seen:
                        continue
                    seen.add(key)
                    r = lib_samples(c["method"], c["order"], dec_arr(cell["xs"]), dec_arr(cell["ys"]), lnv)
                    if isinstance(r, str):
                        table.append({"ys": cell["ys"], "error": r.split(":", 1)[1]})
                    else:
                        table.append({"ys": cell["ys"], "samples": enc(r)})
            op["lib"] = table
        ops.append(op)
    outs = ctx.driver.ask(ops)
    res = []
    for o in outs:
        if "ok" in o:
            res.append(("ok",) + tuple(dec_arr(a) for a in o["ok"]))
        else:
            res.append(("error:" + o["error"],))
    return res


# ----------------------------------------------------------------------------- tolerances
def lagrange_rounding_bound(case) -> Tuple[float, float, float]:
    """a-priori bound of the rounding error of scipy.interpolate.lagrange (monomial basis about 0) on (s, s', s'')"""
    nv = len(case["volumes"])
    interval = -(-nv // case["order"]) if case["order"] >= 1 else 1
    xs = numpy.log(numpy.asarray(case["volumes"])[::interval])
    n = len(xs)
    X = float(numpy.max(numpy.abs(numpy.log(case["v_array"]))))
    fr = numpy.asarray(case["freqs"], float)[::interval]
    ymax = float(numpy.max(numpy.abs(numpy.log(numpy.where(fr > 0, fr, 1.0)))))
    B = 0.0
    for j in range(n):
        p = 1.0
        for k in range(n):
            if k != j:
                p *= (X + abs(xs[k])) / abs(xs[j] - xs[k])
        B += ymax * p
    b0 = 8.0 * n * EPS * B
    return b0, b0 * n / X * 2.0, b0 * n * n / (X * X) * 2.0


def lsq_rounding_bound(case) -> Tuple[float, float, float]:
    """a-priori bound of numpy.linalg.lstsq's rounding on the fitted polynomial: 0.5*eps*cond2(vander)*max|y| on the values
    (calibrated: observed <= 3e-2*eps*cond*max|y|), and Markov's inequality for the derivatives of the error polynomial of
    degree k on the grid interval of half-width H: k^2/H and k^2(k^2-1)/(3H^2)."""
    xs = numpy.log(numpy.asarray(case["volumes"], float))
    k = int(case["order"])
    cond = float(numpy.linalg.cond(numpy.vander(xs, k + 1)))
    fr = numpy.asarray(case["freqs"], float)
    ymax = float(numpy.max(numpy.abs(numpy.log(numpy.where(fr > 0, fr, 1.0)))))
    lnv = numpy.log(numpy.asarray(case["v_array"], float))
    H = max(float(lnv.max() - lnv.min()) / 2.0, 1e-3)
    b0 = 0.5 * EPS * cond * ymax * (1.0 + cond * lsq_relres(xs, fr, k))
    return b0, b0 * k * k / H, b0 * k * k * (k * k - 1) / (3.0 * H * H)


def lsq_relres(xs, fr, k) -> float:
    """largest relative least-squares residual ||r||/||y|| over the modes, from a well-conditioned (centred, scaled) fit;
    enters the perturbation bound of the ill-conditioned fit as eps*cond^2*relres (Wedin)"""
    u = (xs - xs.mean()) / max(float(numpy.ptp(xs)) / 2.0, 1e-12)
    A = numpy.polynomial.chebyshev.chebvander(u, k)
    Y = numpy.log(numpy.where(fr > 0, fr, 1.0)).reshape(len(xs), -1)
    c, *_ = numpy.linalg.lstsq(A, Y, rcond=None)
    r = numpy.linalg.norm(A @ c - Y, axis=0)
    n = numpy.linalg.norm(Y, axis=0)
    return float(numpy.max(r / numpy.where(n > 0, n, 1.0)))


def krogh_rounding_bound(case) -> Tuple[float, float, float]:
    """conditioning of polynomial interpolation itself (both scipy's Krogh and the model's Newton form are subject to it):
    16*n*eps*max|y|*Lebesgue function of the thinned nodes on the grid; Markov's inequality for the derivatives"""
    nv = len(case["volumes"])
    interval = -(-nv // case["order"])
    xs = numpy.log(numpy.asarray(case["volumes"], float)[::interval])
    n = len(xs)
    lnv = numpy.log(numpy.asarray(case["v_array"], float))
    fr = numpy.asarray(case["freqs"], float)[::interval]
    ymax = float(numpy.max(numpy.abs(numpy.log(numpy.where(fr > 0, fr, 1.0)))))
    lam = numpy.zeros_like(lnv)
    for j in range(n):
        p = numpy.ones_like(lnv)
        for k in range(n):
            if k != j:
                p *= (lnv - xs[k]) / (xs[j] - xs[k])
        lam += numpy.abs(p)
    H = max(float(lnv.max() - lnv.min()) / 2.0, 1e-3)
    b0 = 16.0 * n * EPS * ymax * float(lam.max())
    d = n - 1
    return b0, b0 * d * d / H, b0 * d * d * max(d * d - 1, 0) / (3.0 * H * H)


def rounding_bound(case) -> Tuple[float, float, float]:
    if case["method"] == "krogh" and case["order"] >= 1:
        return krogh_rounding_bound(case)
    if case["method"] == "lagrange" and case["order"] >= 1:
        return lagrange_rounding_bound(case)
    if case["method"] == "lsq_poly":
        return lsq_rounding_bound(case)
    return (0.0, 0.0, 0.0)


def tolerances(case, F=None):
    """(rtolF, atolS', atolS'') for model-vs-code; scales: max|F| for F, max(1,|G|), max(1,|G|,|D|)"""
    if case["method"] in POLY:
        b0, b1, b2 = rounding_bound(case)
        return 1e-7 + 2.0 * b0, 1e-7 + b1, 1e-7 + b2
    if case["method"] in LIB:
        return 1e-8, 1e-8, 1e-7
    return 1e-7, 1e-7, 1e-7


def compare(case, real, model) -> Optional[str]:
    """None if equal after canonicalisation, else a short note"""
    if real[0] != "ok" or model[0] != "ok":
        if real[0] == model[0]:
            return None
        # model-only tag LinAlgError / exception classes raised inside a library are compared by kind
        return f"outcome differs: impl={real[0]} model={model[0]}"
    tF, t1, t2 = tolerances(case)
    if case.get("malformed") and tF > 1e-4:
        return None      # outside the quantifier and numerically meaningless (e.g. lagrange on 9 nodes): outcome kind only
    _, F, G, D = real
    _, Fm, Gm, Dm = model
    if F.shape != Fm.shape:
        return f"shape {F.shape} vs {Fm.shape}"
    ok, err, _ = family_close(F, Fm, rtol=tF)
    if not ok:
        return f"omega differs rel {err:.3e} (tol {tF:.1e})"
    sg = max(1.0, float(numpy.nanmax(numpy.abs(G))) if G.size else 1.0)
    ok, err, _ = family_close(G, Gm, rtol=t1, scale=sg)
    if not ok:
        return f"gamma differs {err:.3e} of scale {sg:.2f} (tol {t1:.1e})"
    sd = max(sg, float(numpy.nanmax(numpy.abs(D))) if D.size else 1.0)
    ok, err, _ = family_close(D, Dm, rtol=t2, scale=sd)
    if not ok:
        return f"VdgammadV differs {err:.3e} of scale {sd:.2f} (tol {t2:.1e})"
    return None


# ----------------------------------------------------------------------------- oracle
def acoustic_mask(nq, np_):
    m = numpy.zeros((nq, np_), dtype=bool)
    m[0, :3] = True
    return m


def exactness_expected(case) -> bool:
    """does the property promise exact reproduction of the generating law on the whole grid?"""
    if case.get("malformed"):
        return False
    if case["law"] == "power":
        return True
    if case["law"] == "poly":
        return case["method"] in ("lsq_poly", "lagrange", "krogh")
    return False


def oracle_case(case, real=None) -> List[Tuple[str, str, Any, Any]]:
    """Evaluate the property statement on the real code for one case.  -> list of (site, what, observed, expected)."""
    fails = []
    method = case["method"]
    if real is None:
        real = call_real(case)
    if real[0] != "ok":
        site = SITE_HERMITE if (method == "hermite" and real[0] == "error:TypeError") else f"interpolate_modes:{method}-raises"
        fails.append((site, f"documented method '{method}' with admissible order raises", real[0] + " " + str(real[1]),
                      "a (omega, gamma, V dgamma/dV) triple"))
        return fails
    _, F, G, D = real
    nq, np_ = case["nq"], case["np"]
    ntv = len(case["v_array"])
    if F.shape != (ntv, nq, np_) or G.shape != F.shape or D.shape != F.shape:
        fails.append((f"interpolate_modes:{method}-shape", "shape of the returned arrays", [F.shape, G.shape, D.shape], (ntv, nq, np_)))
        return fails
    ac = acoustic_mask(nq, np_)
    # (1) Gamma-acoustic modes are left at zero — exactly
    for name, A in (("omega", F), ("gamma", G), ("vdr_dv", D)):
        blk = A[:, ac]
        if not numpy.all(blk == 0.0):
            fails.append((f"interpolate_modes:gamma-acoustic-nonzero", f"Gamma-acoustic entries of {name} not exactly 0",
                          jsonable(blk[:2]), 0.0))
            break
    # (2) finite on the whole (extrapolated) grid
    for name, A in (("omega", F), ("gamma", G), ("vdr_dv", D)):
        if not numpy.all(numpy.isfinite(A)):
            fails.append((f"interpolate_modes:{method}-nonfinite-extrapolation", f"{name} not finite on the expanded volume grid",
                          int((~numpy.isfinite(A)).sum()), 0))
            break
    # (3) exactness against the analytic law on the whole grid
    if exactness_expected(case) and not fails:
        lnv = numpy.log(numpy.asarray(case["v_array"]))
        extra = rounding_bound(case)
        worst = None
        for q in range(nq):
            for m_ in range(np_):
                if ac[q, m_]:
                    continue
                lnw, gam, g = law_eval(case["laws"][q][m_], lnv)
                w = numpy.exp(lnw)
                e0 = float(numpy.max(numpy.abs(F[:, q, m_] - w) / w))
                e1 = float(numpy.max(numpy.abs(G[:, q, m_] - gam)))
                e2 = float(numpy.max(numpy.abs(D[:, q, m_] - g)))
                s1 = max(1.0, float(numpy.max(numpy.abs(gam))))
                s2 = max(s1, float(numpy.max(numpy.abs(g))))
                t0, t1, t2 = 1e-6 + 2 * extra[0], 1e-6 * s1 + extra[1], 1e-5 * s2 + extra[2]
                for nm, e, t in (("omega", e0, t0), ("gamma", e1, t1), ("vdr_dv", e2, t2)):
                    if not (e <= t):
                        if worst is None or e / t > worst[0]:
                            worst = (e / t, nm, q, m_, e, t)
        if worst:
            _, nm, q, m_, e, t = worst
            fails.append((f"interpolate_modes:{method}-inexact-{nm}",
                          f"{nm} of mode (q={q}, m={m_}) differs from the generating {case['law']} law on the expanded grid",
                          e, f"<= {t:.2e}"))
    # (4) the three arrays belong to one interpolant: 5-point finite differences in ln V inside the sampled range
    if not case.get("malformed") and not fails:
        r = consistency_check(case)
        if r:
            fails.append(r)
    return fails


def fd_points(case):
    """points strictly inside the intervals between consecutive sampled volumes (all of them: a superset of any knot set)"""
    xs = numpy.sort(numpy.log(numpy.asarray(case["volumes"], float)))
    pts, hs = [], []
    for a, b in zip(xs[:-1], xs[1:]):
        w = b - a
        h = 0.04 * w
        for frac in (0.25, 0.5, 0.75):
            pts.append(a + frac * w); hs.append(h)
    if case["method"] in PPOLY:
        # both extrapolated regions (first / last cubic continued), out to where the qha grid reaches (ratio 1.45 -> 0.37 in ln V)
        w0, w1 = xs[1] - xs[0], xs[-1] - xs[-2]
        for d in (0.05, 0.2, 0.37):
            pts.append(xs[0] - d); hs.append(0.04 * w0)
            pts.append(xs[-1] + d); hs.append(0.04 * w1)
    return numpy.asarray(pts), numpy.asarray(hs)


def consistency_check(case):
    pts, hs = fd_points(case)
    offs = (-2, -1, 0, 1, 2)
    grid = numpy.concatenate([pts + o * hs for o in offs])
    real = call_real(case, v_array=numpy.exp(grid))
    if real[0] != "ok":
        return (f"interpolate_modes:{case['method']}-raises", "raises on a grid inside the sampled range", real[0], "triple")
    _, F, G, D = real
    n = len(pts)
    ac = acoustic_mask(case["nq"], case["np"])
    sl = [slice(i * n, (i + 1) * n) for i in range(5)]

    def d5(A):
        return (A[sl[0]] - 8 * A[sl[1]] + 8 * A[sl[3]] - A[sl[4]]) / (12 * hs[:, None, None])
    with numpy.errstate(all="ignore"):
        lnF = numpy.log(numpy.where(F > 0, F, 1.0))
    if numpy.any((F <= 0)[:, ~ac]):
        return (f"interpolate_modes:{case['method']}-nonpositive-omega", "interpolated frequency not positive", float(F[:, ~ac].min()), "> 0")
    dlnF = d5(lnF)
    dG = d5(G)
    G0, D0 = G[sl[2]], D[sl[2]]
    sg = max(1.0, float(numpy.max(numpy.abs(G0))))
    sd = max(sg, float(numpy.max(numpy.abs(D0))))
    e1 = numpy.abs(-dlnF - G0)[:, ~ac]
    e2 = numpy.abs(dG - D0)[:, ~ac]
    t1, t2 = 2e-6 * sg, 2e-5 * sd
    if case["method"] == "lagrange":
        b = lagrange_rounding_bound(case)
        hmin = float(hs.min())
        t1 += 2 * b[0] / hmin + b[1]
        t2 += 2 * b[1] / hmin + b[2]
    if e1.size and float(e1.max()) > t1:
        return (f"interpolate_modes:{case['method']}-gamma-not-dlnw",
                "second array is not -dln(omega)/dln V of the first (5-point finite difference inside the sampled range)",
                float(e1.max()), f"<= {t1:.2e}")
    if e2.size and float(e2.max()) > t2:
        return (f"interpolate_modes:{case['method']}-vdr-not-dgamma",
                "third array is not dgamma/dln V of the second (5-point finite difference inside the sampled range)",
                float(e2.max()), f"<= {t2:.2e}")
    return None


def reference_poly(case):
    """mpmath (50 digits) evaluation of what the statement determines for the polynomial methods:
    lsq_poly: THE least-squares polynomial of degree `order` in (ln V, ln w) on all volumes;
    lagrange/krogh: THE polynomial of degree < #nodes through every ceil(nv/order)-th volume (starting with the first).
    -> (F, G, D) numpy arrays (Gamma-acoustic zero)."""
    import mpmath as mp
    mp.mp.dps = 50
    nv, nq, np_ = len(case["volumes"]), case["nq"], case["np"]
    lnv = [mp.log(mp.mpf(v)) for v in case["v_array"]]
    ntv = len(lnv)
    F = numpy.zeros((ntv, nq, np_)); G = numpy.zeros_like(F); D = numpy.zeros_like(F)
    fr = case["freqs"]
    for q in range(nq):
        for m_ in range(np_):
            if q == 0 and m_ < 3:
                continue
            if case["method"] == "lsq_poly":
                xs = [mp.log(mp.mpf(v)) for v in case["volumes"]]
                ys = [mp.log(mp.mpf(fr[i][q][m_])) for i in range(nv)]
                n = case["order"] + 1
                x0 = xs[0]
                A = mp.matrix(nv, n)
                for i in range(nv):
                    for j in range(n):
                        A[i, j] = (xs[i] - x0) ** j
                c = mp.lu_solve(A.T * A, A.T * mp.matrix(ys))      # coefficients in powers of (x - x0), ascending
                c = [c[j] for j in range(n)]
                for t in range(ntv):
                    u = lnv[t] - x0
                    s0 = sum(c[j] * u ** j for j in range(n))
                    s1 = sum(j * c[j] * u ** (j - 1) for j in range(1, n))
                    s2 = sum(j * (j - 1) * c[j] * u ** (j - 2) for j in range(2, n))
                    F[t, q, m_], G[t, q, m_], D[t, q, m_] = float(mp.exp(s0)), float(-s1), float(-s2)
            else:
                interval = -(-nv // case["order"])
                idx = list(range(0, nv, interval))
                xs = [mp.log(mp.mpf(case["volumes"][i])) for i in idx]
                ys = [mp.log(mp.mpf(fr[i][q][m_])) for i in idx]
                n = len(xs)
                # Lagrange basis and derivatives by direct differentiation of the product form
                for t in range(ntv):
                    x = lnv[t]
                    s0 = s1 = s2 = mp.mpf(0)
                    for j in range(n):
                        den = mp.mpf(1)
                        for k in range(n):
                            if k != j: den *= (xs[j] - xs[k])
                        others = [k for k in range(n) if k != j]
                        p0 = mp.mpf(1)
                        for k in others: p0 *= (x - xs[k])
                        p1 = mp.mpf(0)
                        for a in others:
                            t_ = mp.mpf(1)
                            for k in others:
                                if k != a: t_ *= (x - xs[k])
                            p1 += t_
                        p2 = mp.mpf(0)
                        for a in others:
                            for b_ in others:
                                if b_ == a: continue
                                t_ = mp.mpf(1)
                                for k in others:
                                    if k != a and k != b_: t_ *= (x - xs[k])
                                p2 += t_
                        s0 += ys[j] * p0 / den; s1 += ys[j] * p1 / den; s2 += ys[j] * p2 / den
                    F[t, q, m_], G[t, q, m_], D[t, q, m_] = float(mp.exp(s0)), float(-s1), float(-s2)
    return F, G, D


def oracle_reference(case, real=None):
    """polynomial methods: the output is determined by the statement; compare the real output with the mpmath reference"""
    if case["method"] not in POLY or case.get("malformed"):
        return []
    if real is None:
        real = call_real(case)
    if real[0] != "ok":
        return []
    ref = ("ok",) + reference_poly(case)
    note = compare(case, real, ref)
    if note:
        return [(f"interpolate_modes:{case['method']}-reference",
                 f"{case['method']} order {case['order']}: output is not the polynomial the method is documented to return "
                 f"({'least squares of that degree on all volumes' if case['method'] == 'lsq_poly' else 'through every ceil(nv/order)-th volume'})",
                 note, "equal to the 50-digit reference")]
    return []


def oracle_piecewise(case):
    """pchip/akima: between consecutive documented nodes ln(omega) is ONE cubic (4th difference of 5 equispaced interior points = 0)"""
    if case["method"] not in ("pchip", "akima") or case.get("malformed"):
        return []
    nv = len(case["volumes"])
    interval = -(-nv // case["order"])
    xs = numpy.sort(numpy.log(numpy.asarray(case["volumes"], float)[::interval]))
    pts = []
    for a, b in zip(xs[:-1], xs[1:]):
        pts.extend(a + (b - a) * f for f in (0.1, 0.3, 0.5, 0.7, 0.9))
    real = call_real(case, v_array=numpy.exp(numpy.asarray(pts)))
    if real[0] != "ok":
        return []
    F = real[1]
    ac = acoustic_mask(case["nq"], case["np"])
    with numpy.errstate(all="ignore"):
        lnF = numpy.log(numpy.where(F > 0, F, 1.0)).reshape(len(xs) - 1, 5, case["nq"], case["np"])
    d4 = lnF[:, 0] - 4 * lnF[:, 1] + 6 * lnF[:, 2] - 4 * lnF[:, 3] + lnF[:, 4]
    e = float(numpy.max(numpy.abs(d4[:, ~ac]))) if d4[:, ~ac].size else 0.0
    tol = 2e-11 * float(numpy.max(numpy.abs(lnF)))
    if e > tol:
        return [(f"interpolate_modes:{case['method']}-not-cubic-between-nodes",
                 f"{case['method']} order {case['order']}: ln(omega) is not a single cubic between consecutive thinned nodes "
                 f"(every ceil(nv/order)-th volume)", e, f"<= {tol:.1e}")]
    return []


def permuted(case, rng):
    """permute the non-Gamma-acoustic (q,m) cells of the input; returns (case', perm) with freqs'[:, cell_i] = freqs[:, perm[cell_i]]"""
    nq, np_ = case["nq"], case["np"]
    cells = [(q, m_) for q in range(nq) for m_ in range(np_) if not (q == 0 and m_ < 3)]
    order = list(rng.permutation(len(cells)))
    fr = numpy.asarray(case["freqs"], float)
    fr2 = fr.copy()
    mapping = {}
    for i, c in enumerate(cells):
        src = cells[int(order[i])]
        fr2[:, c[0], c[1]] = fr[:, src[0], src[1]]
        mapping[c] = src
    c2 = dict(case); c2["freqs"] = fr2.tolist()
    return c2, mapping


def oracle_equivariance(case, perm_seed: int):
    """q-points and modes are not mixed: permuting the input cells permutes the output cells (bitwise), and changing one cell's
    series changes only that cell's output"""
    rng = numpy.random.Generator(numpy.random.PCG64([perm_seed, 11]))
    real = call_real(case)
    if real[0] != "ok":
        return []
    c2, mapping = permuted(case, rng)
    r2 = call_real(c2)
    if r2[0] != "ok":
        return [(f"interpolate_modes:{case['method']}-raises", "raises on a (q,m)-permuted copy of an accepted input", r2[0], "ok")]
    for a, b, nm in ((real[1], r2[1], "omega"), (real[2], r2[2], "gamma"), (real[3], r2[3], "vdr_dv")):
        for dst, src in mapping.items():
            x, y = b[:, dst[0], dst[1]], a[:, src[0], src[1]]
            if not numpy.array_equal(x, y, equal_nan=True):
                return [("interpolate_modes:modes-mixed",
                         f"{nm}: output at (q,m)={dst} of the permuted input differs from output at {src} of the original",
                         float(numpy.nanmax(numpy.abs(x - y))), 0.0)]
    # locality: perturb one cell
    cells = list(mapping.keys())
    tgt = cells[int(rng.integers(len(cells)))]
    fr = numpy.asarray(case["freqs"], float).copy()
    fr[:, tgt[0], tgt[1]] *= numpy.linspace(1.01, 1.07, fr.shape[0])
    c3 = dict(case); c3["freqs"] = fr.tolist()
    r3 = call_real(c3)
    if r3[0] == "ok":
        for a, b, nm in ((real[1], r3[1], "omega"), (real[2], r3[2], "gamma"), (real[3], r3[3], "vdr_dv")):
            diff = ~numpy.all((a == b) | (numpy.isnan(a) & numpy.isnan(b)), axis=0)
            diff[tgt[0], tgt[1]] = False
            if diff.any():
                bad = [tuple(map(int, x)) for x in numpy.argwhere(diff)][:3]
                return [("interpolate_modes:modes-mixed", f"{nm}: changing the series of (q,m)={tgt} changed the output at {bad}",
                         bad, "only " + str(tgt))]
    return []



# ----------------------------------------------------------------------------- streams that the translator tie showed were untested
SPECIAL_STREAMS = ("grid-ascending", "grid-shuffled", "curved", "lsq-zero-acoustic", "coincide-first-volume")
SPECIAL_METHODS = ("spline", "lagrange", "krogh", "pchip", "akima", "lsq_poly")          # hermite: known finding, main stream only


def gen_special(ctx: Ctx) -> List[dict]:
    rng = ctx.rng
    out = []
    reps = 2 if not ctx.thorough() else 5
    for method in SPECIAL_METHODS:
        for _ in range(reps):
            # (a) evaluation grids that are not descending
            for stream in ("grid-ascending", "grid-shuffled"):
                nv = int(rng.choice([5, 6, 7, 9]))
                order = int(rng.choice(admissible_orders(method, nv)))
                c = gen_case(rng, method, order, nv, str(rng.choice(["power", "poly", "smooth"])), small=True)
                v = numpy.asarray(c["v_array"], float)
                perm = numpy.arange(len(v))[::-1] if stream == "grid-ascending" else rng.permutation(len(v))
                if stream == "grid-shuffled" and (numpy.all(numpy.diff(perm) > 0) or numpy.all(numpy.diff(perm) < 0)):
                    perm = numpy.roll(perm, 1)
                c["v_array_base"] = [float(x) for x in v]
                c["grid_perm"] = [int(i) for i in perm]
                c["v_array"] = [float(x) for x in v[perm]]
                c["stream"] = stream
                out.append(c)
            # (b) strongly curved ln w(ln V): third array vs finite differences of the second
            nv = int(rng.choice([6, 7, 9, 12]))
            orders = admissible_orders(method, nv)
            order = int(orders[-1] if method in ("lagrange", "krogh") and len(orders) > 3 else rng.choice(orders))
            if method == "lagrange":
                order = min(order, 5)                      # the a-priori rounding bound of scipy.interpolate.lagrange explodes beyond
            c = gen_case(rng, method, order, nv, "smooth", small=True)
            lnvols = numpy.log(numpy.asarray(c["volumes"], float))
            fr = numpy.asarray(c["freqs"], float)
            for q_ in range(c["nq"]):
                for m_ in range(c["np"]):
                    law = c["laws"][q_][m_]
                    law["b"] = law["b"][:2] + [float(rng.uniform(1.0, 3.0)) * float(rng.choice([-1.0, 1.0])), float(rng.uniform(-4.0, 4.0))]
                    law["A"] = 0.0
                    if not (q_ == 0 and m_ < 3):
                        fr[:, q_, m_] = numpy.exp(law_eval(law, lnvols)[0])
            c["freqs"] = fr.tolist()
            c["stream"] = "curved"
            out.append(c)
            # (d) neighbouring modes that coincide at the first listed volume only
            nv = int(rng.choice([5, 6, 7, 9]))
            order = int(rng.choice(admissible_orders(method, nv)))
            c = gen_case(rng, method, order, nv, "power", small=True)
            c = force_coincidence(c, rng)
            c["stream"] = "coincide-first-volume"
            out.append(c)
    # (c) a Gamma-acoustic frequency given as exactly 0.0, least squares on the whole data set
    for order in ([1, 2, 3, 4, 5] if ctx.thorough() else [1, 2, 4]):
        nv = int(rng.choice([o for o in (6, 7, 9, 12) if o > order]))
        c = gen_case(rng, "lsq_poly", order, nv, str(rng.choice(["power", "poly"])), small=False)
        fr = numpy.asarray(c["freqs"], float)
        kind = str(rng.choice(["all-zero", "one-zero"]))
        if kind == "all-zero":
            fr[:, 0, :3] = 0.0
        else:
            fr[:, 0, :3] = rng.uniform(0.5, 40.0, size=(nv, 3))
            fr[int(rng.integers(nv)), 0, int(rng.integers(3))] = 0.0
        c["freqs"] = fr.tolist()
        c["acoustic"] = "zero"; c["zero_kind"] = kind
        c["stream"] = "lsq-zero-acoustic"
        out.append(c)
    return out


def force_coincidence(case, rng):
    """make mode (q, m+1) start from the frequency of mode (q, m) at the first listed volume, with another Grueneisen parameter"""
    c = dict(case)
    nq, np_ = c["nq"], c["np"]
    cells = [(q, m) for q in range(nq) for m in range(np_ - 1) if not (q == 0 and m < 3)]
    q, m = cells[int(rng.integers(len(cells)))]
    laws = [[dict(l) for l in row] for row in c["laws"]]
    a, b = laws[q][m], laws[q][m + 1]
    b["b"] = [a["b"][0], a["b"][1] + float(rng.choice([-1.0, 1.0])) * float(rng.uniform(0.4, 1.2))] + list(b["b"][2:])
    lnvols = numpy.log(numpy.asarray(c["volumes"], float))
    fr = numpy.asarray(c["freqs"], float)
    fr[:, q, m + 1] = numpy.exp(law_eval(b, lnvols)[0])
    fr[0, q, m + 1] = fr[0, q, m]                    # bit-identical at the first volume (both laws pass through exp(b0) there)
    c["freqs"] = fr.tolist(); c["laws"] = laws; c["pair"] = [q, m]
    return c


def oracle_special(case, real=None):
    """the stream-specific part of the statement, on the real code.  -> list of (site, what, observed, expected)"""
    stream, method = case.get("stream"), case["method"]
    if real is None:
        real = call_real(case)
    if real[0] != "ok":
        return []                                   # reported by oracle_case
    ac = acoustic_mask(case["nq"], case["np"])
    names = ("omega", "gamma", "vdr_dv")
    if stream in ("grid-ascending", "grid-shuffled"):
        base = call_real(case, v_array=case["v_array_base"])
        if base[0] != "ok":
            return [(f"interpolate_modes:{method}-raises", "raises on the descending grid but not on a re-ordered one", base[0], "ok")]
        perm = numpy.asarray(case["grid_perm"], int)
        for nm, A, B in zip(names, real[1:], base[1:]):
            want = B[perm]
            scale = max(1.0, float(numpy.nanmax(numpy.abs(want[:, ~ac]))) if want[:, ~ac].size else 1.0)
            if nm == "omega":
                scale = float(numpy.nanmax(numpy.abs(want[:, ~ac]))) if want[:, ~ac].size else 1.0
            err = float(numpy.nanmax(numpy.abs(A - want)[:, ~ac])) if want[:, ~ac].size else 0.0
            if not (err <= 1e-10 * scale) or numpy.any(numpy.isnan(A) != numpy.isnan(want)):
                t = int(numpy.argmax(numpy.max(numpy.abs(A - want).reshape(len(perm), -1), axis=1)))
                return [(f"interpolate_modes:{method}-grid-order",
                         f"{nm} at requested volume #{t} (V={case['v_array'][t]:.6g}) of a {stream[5:]} grid is not the value the same call "
                         f"returns for that volume on the descending grid: values are not attached to the requested volumes",
                         err / scale, "<= 1e-10 of scale")]
    elif stream == "lsq-zero-acoustic":
        c2 = dict(case)
        fr = numpy.asarray(case["freqs"], float).copy()
        fr[:, 0, :3] = 7.0 + numpy.arange(3)[None, :] + 0.25 * numpy.arange(fr.shape[0])[:, None]
        c2["freqs"] = fr.tolist()
        other = call_real(c2)
        for nm, A in zip(names, real[1:]):
            if not numpy.all(numpy.isfinite(A[:, ~ac])):
                return [("interpolate_modes:lsq_poly-zero-acoustic-poisons",
                         f"{nm}: a Gamma-acoustic input frequency of exactly 0.0 makes {int((~numpy.isfinite(A[:, ~ac])).sum())} entries of "
                         f"OTHER modes non-finite (lsq_poly order {case['order']})", int((~numpy.isfinite(A[:, ~ac])).sum()), 0)]
        if other[0] == "ok":
            for nm, A, B in zip(names, real[1:], other[1:]):
                if not numpy.array_equal(A[:, ~ac], B[:, ~ac]):
                    return [("interpolate_modes:modes-mixed",
                             f"{nm}: the Gamma-acoustic input entries (exact zeros vs positive numbers) change the output of other modes",
                             float(numpy.nanmax(numpy.abs(A - B)[:, ~ac])), 0.0)]
    elif stream == "coincide-first-volume":
        q, m = case["pair"]
        fr = numpy.asarray(case["freqs"], float)
        for mm in (m, m + 1):
            solo = dict(case)
            f1 = numpy.zeros((fr.shape[0], 1, 4)); f1[:, 0, 3] = fr[:, q, mm]; f1[:, 0, :3] = fr[:, 0, :3]
            solo.update(nq=1, np=4, freqs=f1.tolist())
            alone = call_real(solo)
            if alone[0] != "ok":
                continue
            for nm, A, B in zip(names, real[1:], alone[1:]):
                if not numpy.array_equal(A[:, q, mm], B[:, 0, 3], equal_nan=True):
                    return [("interpolate_modes:modes-mixed",
                             f"{nm} of mode (q={q}, m={mm}) — equal to its neighbour (m={m if mm != m else m + 1}) at the first listed volume "
                             f"only — differs from what the same series gives when it is alone in the file",
                             float(numpy.nanmax(numpy.abs(A[:, q, mm] - B[:, 0, 3]))), 0.0)]
    elif stream == "curved":
        r = consistency_check(case)
        if r:
            return [r]
    return []


# ----------------------------------------------------------------------------- plot
class RecordingAxes:
    """stands in for matplotlib.axes.Axes: records plot/scatter calls, draws nothing"""
    def __init__(self):
        self.plots, self.scatters = [], []

    def plot(self, x, y, *a, **k):
        self.plots.append((numpy.array(x, float), numpy.array(y, float)))

    def scatter(self, x, y, *a, **k):
        self.scatters.append((numpy.array(x, float), numpy.array(y, float)))


class _NS:
    def __init__(self, **k):
        self.__dict__.update(k)


def plot_real(case, n: int, iq: int):
    """Calculator._interpolate_modes (the real wiring line) on a stub, then the real ModePlotter.plot_modes on recording axes."""
    import matplotlib
    matplotlib.use("Agg")
    from cij.core.calculator import Calculator
    from cij.plot.modes import ModePlotter
    v = numpy.asarray(case["v_array"], float)
    stub = _NS(qha_input=make_qha_input(case), qha_calculator=_NS(v_array=v), v_array=v, np=case["np"],
               config={"elast": {"settings": {"mode_gamma": {"interpolator": case["method"], "order": case["order"]}}}})
    ax = RecordingAxes()
    try:
        with warnings.catch_warnings():
            warnings.simplefilter("ignore")
            Calculator._interpolate_modes(stub)
    except Exception as e:  # noqa
        return ("error:" + type(e).__name__ + " in Calculator._interpolate_modes", stub, ax)
    try:
        ModePlotter(stub).plot_modes(ax, n=n, iq=iq)
    except Exception as e:  # noqa
        return ("error:" + type(e).__name__, stub, ax)
    return ("ok", stub, ax)


BOHR3_TO_ANG3 = 0.529177210903 ** 3


def oracle_plot(case, n: int, iq: int):
    """n = 0,1,2 must draw omega, gamma, V dgamma/dV of every non-acoustic mode of q-point iq over the volume grid"""
    st, stub, ax = plot_real(case, n, iq)
    if st != "ok":
        return [(f"plot_modes:raises", f"plot_modes(n={n}, iq={iq}) raises", st, "three quantities drawn")]
    lnv = numpy.log(numpy.asarray(case["v_array"]))
    ks = [k for k in range(case["np"]) if not (iq == 0 and k < 3)]
    if len(ax.plots) != len(ks):
        return [("plot_modes:curve-count", f"number of curves for n={n}, iq={iq}", len(ax.plots), len(ks))]
    names = {0: "omega", 1: "gamma", 2: "V dgamma/dV"}
    for (x, y), k in zip(ax.plots, ks):
        if not numpy.allclose(x, numpy.asarray(case["v_array"]) * BOHR3_TO_ANG3, rtol=1e-6):
            return [("plot_modes:abscissa", "abscissa is not the volume grid in A^3", jsonable(x[:3]), "v_array * 0.148185")]
        lnw, gam, g = law_eval(case["laws"][iq][k], lnv)
        exp = [numpy.exp(lnw), gam, g][n]
        scale = [float(numpy.max(numpy.exp(lnw))), max(1.0, float(numpy.max(numpy.abs(gam)))),
                 max(1.0, float(numpy.max(numpy.abs(gam))), float(numpy.max(numpy.abs(g))))][n]
        err = float(numpy.max(numpy.abs(y - exp))) / scale
        if not err <= 1e-5:
            other = {1: g, 2: gam}.get(n)
            swapped = other is not None and float(numpy.max(numpy.abs(y - other))) <= 1e-5 * scale
            site = SITE_PLOT if swapped else f"plot_modes:n{n}-wrong-quantity"
            return [(site, f"plot_modes(n={n}) does not draw {names[n]} (mode k={k}, q={iq})"
                     + (f": it draws {names[3 - n]}" if swapped else ""), err, "<= 1e-5 of scale")]
    if n == 0:
        if len(ax.scatters) != len(ks):
            return [("plot_modes:scatter-count", "number of scatter calls for n=0", len(ax.scatters), len(ks))]
        fr = numpy.asarray(case["freqs"], float)
        for (x, y), k in zip(ax.scatters, ks):
            if not (numpy.allclose(x, numpy.asarray(case["volumes"]) * BOHR3_TO_ANG3, rtol=1e-6) and numpy.array_equal(y, fr[:, iq, k])):
                return [("plot_modes:scatter-data", "scatter does not show the input frequencies at the input volumes", jsonable(y[:3]), jsonable(fr[:3, iq, k]))]
    elif ax.scatters:
        return [("plot_modes:scatter-data", f"scatter drawn for n={n}", len(ax.scatters), 0)]
    return []


def plot_correspondence(ctx: Ctx, case, res: Result):
    """real plot_modes vs model plotModes on the wiring of the real interpolate_modes output"""
    real = call_real(case)
    if real[0] != "ok":
        return
    _, F, G, D = real
    ops, metas = [], []
    for n in (0, 1, 2, 3, -1):
        for iq in range(case["nq"]):
            ops.append({"op": "c11.plot", "n": n, "iq": iq, "np": case["np"], "f": enc(F), "g": enc(G), "d": enc(D)})
            metas.append((n, iq))
    outs = ctx.driver.ask(ops)
    for (n, iq), o in zip(metas, outs):
        st, stub, ax = plot_real(case, n, iq)
        res.evaluations += 1
        res.distribution["plot_calls"] = res.distribution.get("plot_calls", 0) + 1
        if "error" in o or st != "ok":
            same = ("error" in o) and st == "error:" + o.get("error", "")
            if not same:
                res.disagreements.append(Disagreement("c11.plot", {"n": n, "iq": iq}, st, o.get("error", "ok")))
            else:
                res.traces_validated += 1
            continue
        model = dec_arr(o["ok"]) if o["ok"] else numpy.zeros((0, len(case["v_array"])))
        impl = numpy.array([y for _, y in ax.plots]) if ax.plots else numpy.zeros((0, len(case["v_array"])))
        if model.shape != impl.shape or not numpy.array_equal(model, impl):
            res.disagreements.append(Disagreement("c11.plot", {"n": n, "iq": iq, "case": strip(case)}, jsonable(impl[:1]), jsonable(model[:1]),
                                                  f"select={o.get('select')}"))
        else:
            res.traces_validated += 1



# ----------------------------------------------------------------------------- the scipy classes themselves
PPOLY_KINDS = ("random", "integer", "equal_secants", "zigzag", "monotone", "affine", "near_threshold", "two_nodes")


def gen_nodes(rng, kind: str):
    """one node set (x strictly increasing, y) of 2..14 nodes"""
    n = 2 if kind == "two_nodes" else int(rng.integers(3, 15))
    sp = str(rng.choice(["uniform", "uneven", "very_uneven", "dyadic"]))
    if kind in ("equal_secants", "near_threshold"):
        sp = "dyadic"
    if sp == "uniform":
        x = 5.0 + 0.02 * numpy.arange(n)
    elif sp == "uneven":
        x = 5.0 + numpy.cumsum(rng.uniform(0.005, 0.05, size=n))
    elif sp == "very_uneven":
        x = 5.0 + numpy.cumsum(10.0 ** rng.uniform(-3.5, -0.5, size=n))
    else:
        x = 4.0 + numpy.cumsum(rng.choice([0.25, 0.5, 0.5, 1.0], size=n))        # exact in binary: secants of integer data are exact
    if kind == "random" or kind == "two_nodes":
        y = rng.normal(size=n) * 10.0 ** rng.uniform(-2, 2)
    elif kind == "integer":
        y = numpy.round(rng.normal(size=n) * 2.0)                                    # flat pieces, repeated values
    elif kind == "equal_secants":
        sl = rng.choice([-2.0, -1.0, 0.0, 0.0, 1.0, 1.0, 3.0], size=n - 1)
        for i in range(n - 2):                                                       # runs of equal secants (Akima: both weights vanish)
            if rng.random() < 0.55: sl[i + 1] = sl[i]
        y = numpy.concatenate([[1.0], 1.0 + numpy.cumsum(sl * numpy.diff(x))])
    elif kind == "zigzag":
        y = numpy.cumsum(rng.uniform(0.1, 1.0, size=n) * numpy.where(numpy.arange(n) % 2 == 0, 1.0, -1.0))
        if rng.random() < 0.5: y[int(rng.integers(n - 1)) + 1:] += 0.0               # keep
        if rng.random() < 0.5:
            k = int(rng.integers(n - 1)); y[k + 1] = y[k]                            # one flat piece between sign changes
    elif kind == "monotone":
        inc = rng.uniform(0.0, 1.0, size=n - 1) * (rng.random(n - 1) < 0.8)          # some zero increments
        y = numpy.concatenate([[0.0], numpy.cumsum(inc)]) * (1.0 if rng.random() < 0.5 else -1.0)
    elif kind == "affine":
        y = float(rng.uniform(-3, 3)) * x + float(rng.uniform(-5, 5))
    else:  # near_threshold: weights |dm| around break_mult * max
        sl = rng.choice([0.0, 1.0, 2.0], size=n - 1).astype(float)
        sl = sl + rng.choice([0.0, 1e-9, 2e-9, 5e-10, 1e-8], size=n - 1) * rng.choice([-1.0, 1.0], size=n - 1)
        y = numpy.concatenate([[1.0], 1.0 + numpy.cumsum(sl * numpy.diff(x))])
    return numpy.asarray(x, float), numpy.asarray(y, float)


def gen_queries(rng, x):
    """inside every piece, at every node (exact bits) and next to it, far and near outside on both sides"""
    span = x[-1] - x[0]
    q = [x.copy(), numpy.nextafter(x, numpy.inf), numpy.nextafter(x, -numpy.inf), 0.5 * (x[:-1] + x[1:]),
         x[:-1] + rng.uniform(0.0, 1.0, size=len(x) - 1) * numpy.diff(x),
         x[0] - span * numpy.array([1e-9, 0.01, 0.5, 3.0]), x[-1] + span * numpy.array([1e-9, 0.01, 0.5, 3.0]),
         rng.uniform(x[0] - 0.4, x[-1] + 0.4, size=6)]
    return numpy.concatenate(q)


def scipy_ppoly(name: str, x, y, q):
    """the real class, called as interpolate_mode_ppoly calls it -> array (3, len(q)) or 'error:<Type>'"""
    import scipy.interpolate as si
    cls = {"pchip": si.PchipInterpolator, "akima": si.Akima1DInterpolator}[name]
    try:
        with warnings.catch_warnings():
            warnings.simplefilter("ignore")
            with numpy.errstate(all="ignore"):
                it = cls(x, y)
                return numpy.stack([it(q, extrapolate=True), it(q, nu=1, extrapolate=True), it(q, nu=2, extrapolate=True)])
    except Exception as e:  # noqa
        return "error:" + type(e).__name__


def akima_fallback_nodes(x, y) -> int:
    """how many nodes take Akima's fill value (restated from the class docstring: weights below 1e-9 of the largest), for the distribution"""
    if len(x) < 3:
        return 0
    d = numpy.diff(y) / numpy.diff(x)
    m = numpy.concatenate([[3 * d[0] - 2 * d[1], 2 * d[0] - d[1]], d, [2 * d[-1] - d[-2], 3 * d[-1] - 2 * d[-2]]])
    dm = numpy.abs(numpy.diff(m))
    f12 = dm[2:] + dm[:-2]
    return int(numpy.sum(~(f12 > 1e-9 * numpy.max(f12))))


def ppoly_ops(ctx: Ctx, res: Result):
    """c11.pchip / c11.akima against the real scipy classes"""
    rng = ctx.rng
    reps = 14 if not ctx.thorough() else 120
    ops, metas = [], []
    dist = {"by_kind": {}, "by_n": {}, "malformed": {}, "queries": 0, "akima_fallback_nodes": 0, "pchip_zero_interior_slopes": 0,
            "pchip_end_corrections": 0, "bitwise_equal": 0, "compared": 0}
    for kind in PPOLY_KINDS:
        for _ in range(reps):
            x, y = gen_nodes(rng, kind)
            q = gen_queries(rng, x)
            for name in PPOLY:
                ops.append({"op": "c11." + name, "xs": enc(x), "ys": enc(y), "q": enc(q)})
                metas.append((name, kind, x, y, q))
    # constructor refusals: not increasing, repeated abscissa, one node, lengths differ, non-finite value / abscissa
    x5 = numpy.array([1.0, 2.0, 3.0, 4.0, 5.0]); y5 = numpy.array([0.0, 1.0, 0.5, 2.0, 3.0])
    bad = [("decreasing", x5[::-1].copy(), y5), ("repeated", numpy.array([1.0, 2.0, 2.0, 3.0]), y5[:4]), ("one_node", x5[:1], y5[:1]),
           ("lengths", x5, y5[:4]), ("inf_value", x5, numpy.array([0.0, 1.0, -numpy.inf, 2.0, 3.0])),
           ("nan_value", x5, numpy.array([0.0, numpy.nan, 0.5, 2.0, 3.0])), ("inf_abscissa", numpy.array([1.0, 2.0, 3.0, numpy.inf]), y5[:4])]
    for tag, x, y in bad:
        for name in PPOLY:
            ops.append({"op": "c11." + name, "xs": enc(x), "ys": enc(y), "q": enc(numpy.array([1.5, 9.0]))})
            metas.append((name, "malformed:" + tag, x, y, numpy.array([1.5, 9.0])))
    outs = ctx.driver.ask(ops)
    for o, (name, kind, x, y, q) in zip(outs, metas):
        res.evaluations += 1
        real = scipy_ppoly(name, x, y, q)
        payload = {"class": name, "kind": kind, "xs": x.tolist(), "ys": y.tolist(), "q": q.tolist()}
        if isinstance(real, str) or "ok" not in o:
            same = isinstance(real, str) and "error" in o and real == "error:" + o["error"]
            if kind.startswith("malformed:"):
                dist["malformed"][kind[10:] + "/" + name] = real if isinstance(real, str) else "ok"
            if not same:
                res.disagreements.append(Disagreement("c11." + name, payload, real if isinstance(real, str) else "arrays", jsonable(o)))
            else:
                res.traces_validated += 1
            continue
        if kind.startswith("malformed:"):
            dist["malformed"][kind[10:] + "/" + name] = "ok"
        m = dec_arr(o["ok"])
        dist["by_kind"][kind] = dist["by_kind"].get(kind, 0) + 1
        dist["by_n"][len(x)] = dist["by_n"].get(len(x), 0) + 1
        dist["queries"] += int(q.size)
        dist["compared"] += int(m.size)
        dist["bitwise_equal"] += int(numpy.sum((m == real) | (numpy.isnan(m) & numpy.isnan(real)))) if m.shape == real.shape else 0
        ds = dec_arr(o["slopes"])
        if name == "akima":
            dist["akima_fallback_nodes"] += akima_fallback_nodes(x, y)
        elif len(x) > 2:
            dist["pchip_zero_interior_slopes"] += int(numpy.sum(ds[1:-1] == 0.0))
            sec = numpy.diff(y) / numpy.diff(x)
            dist["pchip_end_corrections"] += int((ds[0] == 0.0 and sec[0] != 0.0) or (ds[0] == 3.0 * sec[0] and sec[0] != 0.0)) \
                + int((ds[-1] == 0.0 and sec[-1] != 0.0) or (ds[-1] == 3.0 * sec[-1] and sec[-1] != 0.0))
        note = None
        if m.shape != real.shape:
            note = f"shape {real.shape} vs {m.shape}"
        else:
            for nu in (0, 1, 2):
                ok, err, _ = family_close(real[nu], m[nu], rtol=1e-12)
                if not ok:
                    note = f"nu={nu} differs {err:.3e} of the family scale (tol 1e-12)"; break
        # the node slopes scipy stored: c[2] of every piece and the nu=1 value at the last node
        if note is None:
            sl_real = real[1][:len(x)]            # the first len(x) queries are the nodes themselves
            ok, err, _ = family_close(sl_real, ds, rtol=1e-12)
            if not ok:
                note = f"node slopes differ {err:.3e}"
        if note:
            res.disagreements.append(Disagreement("c11." + name, payload, jsonable(real[:, :4]), jsonable(m[:, :4]), note))
        else:
            res.traces_validated += 1
            res.distinct_nontrivial += 1
    res.distribution["ppoly_classes"] = dist

# ----------------------------------------------------------------------------- small direct ops
def small_ops(ctx: Ctx, res: Result):
    """lstsq_polyfit, polyder/polyval and the thinning slice directly"""
    mg = _impl()
    rng = ctx.rng
    ops, expect = [], []
    for _ in range(30 if not ctx.thorough() else 200):
        nv = int(rng.integers(3, 13)); order = int(rng.integers(1, min(6, nv)))
        xs = numpy.sort(rng.uniform(5.0, 7.0, size=nv))[::-1] if rng.random() < 0.5 else numpy.log(500 * numpy.linspace(1.06, .86, nv))
        ys = rng.uniform(3.0, 7.5) + rng.uniform(-2.5, 2.5) * (xs - xs[0]) + rng.uniform(-1, 1, size=nv) * 0.01
        new = numpy.linspace(xs.min() - 0.2, xs.max() + 0.2, 7)
        with warnings.catch_warnings():
            warnings.simplefilter("ignore")
            a, newy = mg.lstsq_polyfit(xs, ys, new, order=order)
        ops.append({"op": "c11.lstsq", "xs": enc(xs), "ys": enc(ys), "order": order})
        expect.append(("lstsq", xs, ys, order, new, a, newy))
    for _ in range(20 if not ctx.thorough() else 100):
        n = int(rng.integers(1, 8))
        p = rng.uniform(-3, 3, size=n)
        xs = rng.uniform(-2, 2, size=5)
        pp = numpy.poly1d(p)
        e = (numpy.polyval(pp, xs), numpy.polyval(numpy.polyder(pp, 1), xs), numpy.polyval(numpy.polyder(pp, 2), xs))
        ops.append({"op": "c11.poly", "p": enc(p), "xs": enc(xs)})
        expect.append(("poly", p, xs, e))
    for nv in range(1, 16):
        for order in range(1, 16):
            ops.append({"op": "c11.thin", "n": nv, "order": order})
            expect.append(("thin", nv, order))
    outs = ctx.driver.ask(ops)
    for o, e in zip(outs, expect):
        res.evaluations += 1
        if e[0] == "lstsq":
            _, xs, ys, order, new, a, newy = e
            if "ok" not in o:
                res.disagreements.append(Disagreement("c11.lstsq", {"xs": xs.tolist(), "ys": ys.tolist(), "order": order}, a.tolist(), o)); continue
            am = dec_arr(o["ok"])
            # compare the fitted polynomial on the evaluation points (coefficients themselves are ill-conditioned)
            cond = float(numpy.linalg.cond(numpy.vander(xs, order + 1)))
            rr = lsq_relres(xs, numpy.exp(ys)[:, None, None], order)
            tol = 1e-9 + 0.5 * EPS * cond * (1.0 + cond * rr) * 8.0     # 8: evaluation points reach 0.2 beyond the nodes
            ok, err, _ = family_close(numpy.polyval(am, new), newy, rtol=tol)
            ok2, err2, _ = family_close(numpy.polyval(am, xs), numpy.polyval(a, xs), rtol=tol)
            if not (ok and ok2 and len(am) == order + 1):
                res.disagreements.append(Disagreement("c11.lstsq", {"xs": xs.tolist(), "ys": ys.tolist(), "order": order}, a.tolist(), am.tolist(), f"{err:.2e} {err2:.2e}"))
            else:
                res.traces_validated += 1
        elif e[0] == "poly":
            _, p, xs, (v0, v1, v2) = e
            ok = all(family_close(dec_arr(o[k]), v, rtol=1e-12, atol=1e-13)[0] for k, v in (("val", v0), ("val1", v1), ("val2", v2)))
            d1 = numpy.polyder(numpy.poly1d(p), 1).coeffs if len(p) > 1 else numpy.array([])
            dm = dec_arr(o["der1"])
            ok = ok and (len(dm) == len(d1) or (len(p) >= 1 and len(dm) == 0 and not numpy.any(d1))) and (len(dm) != len(d1) or numpy.allclose(dm, d1, rtol=1e-14, atol=0))
            if not ok:
                res.disagreements.append(Disagreement("c11.poly", {"p": p.tolist()}, [v0.tolist(), v1.tolist(), v2.tolist()], jsonable(o)))
            else:
                res.traces_validated += 1
        else:
            _, nv, order = e
            interval = int(numpy.ceil(nv / order))
            impl = list(numpy.arange(nv)[::interval])
            if [int(x) for x in o] != [int(x) for x in impl]:
                res.disagreements.append(Disagreement("c11.thin", {"n": nv, "order": order}, impl, o))
            else:
                res.traces_validated += 1
    res.distribution["direct_ops"] = len(ops)


# ----------------------------------------------------------------------------- driver of the check
def strip(case) -> dict:
    """replay payload of a case (everything needed to re-run it; floats survive JSON exactly)"""
    keys = ("method", "order", "nq", "np", "volumes", "freqs", "v_array", "law", "laws", "ratio", "acoustic", "ascending", "malformed",
            "stream", "v_array_base", "grid_perm", "pair", "zero_kind", "ragged", "shape_kind")
    return {k: jsonable(case[k]) for k in keys if k in case}


def add_fail(res: Result, check: str, case, f, extra=None):
    site, what, obs, exp = f
    payload = {"check": check, "case": strip(case)}
    if extra:
        payload.update(extra)
    res.oracle_failures.append(OracleFailure(what=what, input=payload, observed=obs, expected=exp, site=site))


def run(ctx: Ctx) -> Result:
    res = Result()
    res.rule = ("a case = (method, order, nv, law kind, drawn laws/volumes/grid); non-trivial = admissible case with at least one "
                "non-Gamma-acoustic mode whose real call was compared value-by-value with the model (distinct by construction: "
                "all continuous parameters are drawn independently); plus every (node set, class) pair of the c11.pchip / c11.akima stream "
                "whose three evaluation arrays agreed with the real scipy class")
    dist: Dict[str, Any] = {"by_method": {}, "by_law": {}, "by_nv": {}, "by_order": {}, "outcome": {}, "acoustic_input": {},
                            "ratio": {}, "ascending_volumes": 0, "malformed": {}}
    res.distribution = dist

    # corpus first
    for item in ctx.corpus():
        for f in replay(ctx, item.get("input", item)):
            res.oracle_failures.append(f)

    small_ops(ctx, res)
    ppoly_ops(ctx, res)

    cases = gen_cases(ctx)
    mal = gen_malformed(ctx)
    allc = cases + mal
    models = ask_model(ctx, allc)
    t_sites = set()
    worst = {"omega": 0.0}
    n_ref = n_eq = n_pw = 0
    for idx, (case, model) in enumerate(zip(allc, models)):
        if ctx.time_left() < 60:
            res.notes.append(f"time budget reached after {idx} cases"); break
        real = call_real(case)
        res.evaluations += 1
        m = case["method"]
        if case.get("malformed"):
            key = f"{m}/order={case['order']}" + ("/" + case.get("malformed_tag", "ascending") if m in LIB and case["order"] == 3 else "")
            dist["malformed"][key] = real[0] if real[0] != "ok" else "ok"
        else:
            dist["by_method"][m] = dist["by_method"].get(m, 0) + 1
            dist["by_law"][case["law"]] = dist["by_law"].get(case["law"], 0) + 1
            nv = len(case["volumes"])
            dist["by_nv"][nv] = dist["by_nv"].get(nv, 0) + 1
            dist["by_order"][case["order"]] = dist["by_order"].get(case["order"], 0) + 1
            dist["acoustic_input"][case["acoustic"]] = dist["acoustic_input"].get(case["acoustic"], 0) + 1
            dist["ratio"][str(case["ratio"])] = dist["ratio"].get(str(case["ratio"]), 0) + 1
            dist["ascending_volumes"] += int(case["ascending"])
        dist["outcome"][real[0]] = dist["outcome"].get(real[0], 0) + 1
        note = compare(case, real, model)
        if note:
            res.disagreements.append(Disagreement("c11.interp", strip(case), real[0] if real[0] != "ok" else "arrays", model[0], note))
        else:
            res.traces_validated += 1
            if not case.get("malformed") and real[0] == "ok":
                res.distinct_nontrivial += 1
        if case.get("malformed"):
            continue
        # the property statement on the real code
        for f in oracle_case(case, real):
            if f[0] not in t_sites:
                t_sites.add(f[0]); add_fail(res, "case", case, f)
        sample_extra = ctx.thorough() or (idx % 4 == 0)
        if m in POLY and (sample_extra or note):
            n_ref += 1
            for f in oracle_reference(case, real):
                if f[0] not in t_sites:
                    t_sites.add(f[0]); add_fail(res, "reference", case, f)
        if m in ("pchip", "akima") and (sample_extra or note):
            n_pw += 1
            for f in oracle_piecewise(case):
                if f[0] not in t_sites:
                    t_sites.add(f[0]); add_fail(res, "piecewise", case, f)
        if real[0] == "ok" and (ctx.thorough() or idx % 3 == 0):
            n_eq += 1
            ps = int(ctx.rng.integers(1 << 30))
            for f in oracle_equivariance(case, ps):
                if f[0] not in t_sites:
                    t_sites.add(f[0]); add_fail(res, "equivariance", case, f, {"perm_seed": ps})
        if len(res.samples) < 5 and real[0] == "ok" and idx % 37 == 5:
            q, k = case["nq"] - 1, case["np"] - 1
            res.samples.append({"method": m, "order": case["order"], "nv": len(case["volumes"]), "law": case["law"],
                                "mode": [q, k], "V": case["v_array"][:3], "omega": real[1][:3, q, k].tolist(),
                                "gamma": real[2][:3, q, k].tolist(), "VdgammadV": real[3][:3, q, k].tolist(),
                                "model_omega": model[1][:3, q, k].tolist() if model[0] == "ok" else model[0]})
    # the streams added with the translator tie of the whole module
    special = gen_special(ctx)
    sdist: Dict[str, Any] = {k: {} for k in SPECIAL_STREAMS}
    sdist["fd_third_vs_second_cases"] = {}
    sdist["zero_acoustic_kinds"] = {}
    smodels = ask_model(ctx, special) if ctx.time_left() > 45 else []
    for case, model in zip(special, smodels):
        if ctx.time_left() < 30:
            res.notes.append("time budget reached inside the special streams"); break
        real = call_real(case)
        res.evaluations += 1
        st, m = case["stream"], case["method"]
        sdist[st][m] = sdist[st].get(m, 0) + 1
        if st == "lsq-zero-acoustic":
            sdist["zero_acoustic_kinds"][case["zero_kind"]] = sdist["zero_acoustic_kinds"].get(case["zero_kind"], 0) + 1
        dist["outcome"][real[0]] = dist["outcome"].get(real[0], 0) + 1
        note = compare(case, real, model)
        if note:
            res.disagreements.append(Disagreement("c11.interp", strip(case), real[0] if real[0] != "ok" else "arrays", model[0], note))
        else:
            res.traces_validated += 1
            if real[0] == "ok":
                res.distinct_nontrivial += 1
        fs = oracle_case(case, real)
        if not fs or st != "curved":
            fs = fs + oracle_special(case, real)
        if st == "curved" or (not fs and not case.get("malformed")):
            sdist["fd_third_vs_second_cases"][m] = sdist["fd_third_vs_second_cases"].get(m, 0) + 1
        for f in fs:
            if f[0] not in t_sites:
                t_sites.add(f[0]); add_fail(res, "special", case, f)
    dist["special_streams"] = sdist

    # shape-malformed inputs (no volume; blocks with too few q-points / modes): the exception classes of the real code against the
    # model's (`interpolateModesF`), and against the independent prediction of where the first missing read is
    shp = gen_shape_malformed(ctx) if ctx.time_left() > 40 else []
    shdist: Dict[str, Any] = {}
    shmodels = ask_model(ctx, shp) if shp else []
    for case, model in zip(shp, shmodels):
        real = call_real(case)
        res.evaluations += 1
        key = f"{case['shape_kind']}/{case['method']}"
        shdist.setdefault(key, {})
        shdist[key][real[0]] = shdist[key].get(real[0], 0) + 1
        dist["outcome"][real[0]] = dist["outcome"].get(real[0], 0) + 1
        note = compare_shape(case, real, model)
        fm = first_missing(case) if case["volumes"] else None
        if note is None and fm is None and real[0] == "error:IndexError" and case["method"] != "spline" and case["volumes"]:
            note = "IndexError although every non-acoustic (volume, q, mode) read exists"
        if note is None and fm is not None and real[0] == "ok":
            note = f"arrays returned although the read (j, k, volume) = {fm} does not exist"
        if note:
            res.disagreements.append(Disagreement("c11.interp", strip(case), real[0] if real[0] != "ok" else "arrays", model[0], note))
        else:
            res.traces_validated += 1
    dist["shape_malformed"] = shdist

    # plot: correspondence + oracle on a few power-law and polynomial cases (gamma != V dgamma/dV there)
    pl = [c for c in cases if c["method"] in ("lsq_poly", "krogh", "spline") and c["law"] in ("power", "poly")]
    npl = 3 if not ctx.thorough() else 12
    sel = [pl[int(i)] for i in ctx.rng.choice(len(pl), size=min(npl, len(pl)), replace=False)] if pl else []
    for case in sel:
        plot_correspondence(ctx, case, res)
        for n in (0, 1, 2):
            for iq in range(case["nq"]):
                res.evaluations += 1
                for f in oracle_plot(case, n, iq):
                    if f[0] not in t_sites:
                        t_sites.add(f[0]); add_fail(res, "plot", case, f, {"n": n, "iq": iq})
    dist["oracle"] = {"reference_mpmath_cases": n_ref, "piecewise_cubic_cases": n_pw, "equivariance_cases": n_eq,
                      "plot_cases": len(sel)}
    res.notes.append("scipy.interpolate.lagrange loses accuracy with the number of nodes (monomial basis about ln V ~ 6): "
                     "observed up to 1e-4 relative for 6 nodes; tolerated through the a-priori rounding bound, not a violation "
                     "(the code comment limits it to <= 6 nodes for this reason)")
    res.extra = {"tolerances": {"model_vs_code": "omega rel 1e-7 of max|omega| (library methods 1e-8); gamma, V dgamma/dV 1e-7 of "
                                                 "max(1,|gamma|,|.|); lagrange: + a-priori rounding bound",
                                "model_vs_scipy_classes": "1e-12 of the family scale per derivative order (bit-for-bit agreement counted in "
                                                          "input_distribution.ppoly_classes)",
                                "oracle_exactness": "omega rel 1e-6, gamma 1e-6, V dgamma/dV 1e-5 of scale",
                                "oracle_finite_difference": "2e-6 / 2e-5 of scale (5-point stencil, h = 4% of the node spacing)"}}
    return res


def search(ctx: Ctx, res: Result):
    """tie broken and no oracle failure so far: evaluate every oracle on the disagreeing cases, then on a fresh seeded stream."""
    out: List[OracleFailure] = []
    tmp = Result()

    def all_oracles(case):
        real = call_real(case)
        fs = [("case", f, None) for f in oracle_case(case, real)]
        fs += [("reference", f, None) for f in oracle_reference(case, real)]
        fs += [("piecewise", f, None) for f in oracle_piecewise(case)]
        if real[0] == "ok":
            fs += [("equivariance", f, {"perm_seed": 7}) for f in oracle_equivariance(case, 7)]
        return fs
    seen = set()
    for d in res.disagreements[:40]:
        case = d.input if isinstance(d.input, dict) and "method" in d.input else (d.input or {}).get("case") if isinstance(d.input, dict) else None
        if not case or "laws" not in case or case.get("malformed"):
            continue
        for chk, f, extra in all_oracles(case):
            if f[0] not in seen:
                seen.add(f[0]); add_fail(tmp, chk, case, f, extra)
    if not tmp.oracle_failures:
        # the special streams, with fresh draws (several repetitions)
        for rep in range(6 if ctx.thorough() else 3):
            if ctx.time_left() < 40 or tmp.oracle_failures:
                break
            sub = Ctx(pid=ctx.pid, tier=ctx.tier, seed=ctx.seed, rng=numpy.random.Generator(numpy.random.PCG64([ctx.seed, 9100 + rep])),
                      driver=ctx.driver, corpus_dir=ctx.corpus_dir, proof_ok=ctx.proof_ok, deadline=ctx.deadline)
            for case in gen_special(sub):
                if ctx.time_left() < 40:
                    break
                real = call_real(case)
                for f in oracle_case(case, real) + oracle_special(case, real):
                    if f[0] not in seen:
                        seen.add(f[0]); add_fail(tmp, "special", case, f)
    if not tmp.oracle_failures:
        rng = numpy.random.Generator(numpy.random.PCG64([ctx.seed, 4242]))
        budget = 400 if ctx.thorough() else 150
        for i in range(budget):
            if ctx.time_left() < 30 or tmp.oracle_failures:
                break
            method = METHODS[i % len(METHODS)]
            nv = int(rng.choice([4, 5, 6, 7, 9, 12]))
            orders = admissible_orders(method, nv)
            case = gen_case(rng, method, int(rng.choice(orders)), nv, ["power", "poly", "smooth"][i % 3])
            for chk, f, extra in all_oracles(case):
                if f[0] not in seen:
                    seen.add(f[0]); add_fail(tmp, chk, case, f, extra)
    return tmp.oracle_failures


def replay(ctx: Ctx, payload) -> List[OracleFailure]:
    check, case = payload["check"], payload["case"]
    if check == "case":
        fs = oracle_case(case)
    elif check == "reference":
        fs = oracle_reference(case)
    elif check == "piecewise":
        fs = oracle_piecewise(case)
    elif check == "equivariance":
        fs = oracle_equivariance(case, int(payload.get("perm_seed", 7)))
    elif check == "special":
        fs = oracle_case(case)
        fs = fs + oracle_special(case)
    elif check == "plot":
        fs = oracle_plot(case, int(payload["n"]), int(payload["iq"]))
    else:
        raise ValueError(check)
    return [OracleFailure(what=w, input=payload, observed=o, expected=e, site=s) for s, w, o, e in fs]
