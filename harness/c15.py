"""C15 — output files carry the in-memory results on the requested grids, units and names.

Three evaluations of every case (a base object, one `output` request, a scratch directory):
  impl    the REAL ResultsWriter / write_table / qha writers produce files; the files are re-read
          (pandas.read_table sep=r"\\s+" index_col=0, float() of the labels);
  model   lean/CijModel/Writer.lean run at Float on the same in-memory arrays (file content, not layout);
  oracle  the property STATEMENT, independent of both: requested grids T_MIN+k*DT / P_MIN+j*DELTA_P, in-memory
          arrays times CODATA factors typed in below, names from the documented patterns typed in below.
The base object is a stub carrying random arrays — an instance of a SUBCLASS of the real CijVolumeBaseInterface /
CijPressureBaseInterface, so write_table / write_variables / _base_name and every piece of class-level state are the real ones — and
(a few cases) the bases of real Calculators on synthetic data.

Streams: every keyword and alias x both bases (str form, dict form, unit / fname overrides, ignored keys), malformed requests,
user rule lists, `write_output` lists with repeated rules, real Calculators; `alternate`: TWO bases (stubs of one class, or two real
Calculators) writing alternately in one process, the same base written twice with different lists — every step must carry the
data, grids and labels of the base it was called on; pressure grids whose labels need three or more decimals (DELTA_P 0.125,
P_MIN 0.375, DELTA_P_SAMPLE / DT_SAMPLE multiples of the step on the real Calculator), the header line of the file parsed by this
harness (not by pandas) against the independently computed grid; every in-memory array reachable from the base is compared bit for
bit before and after writing (no conversion in place).
"""
from __future__ import annotations

import copy
import logging
import os
import shutil
import tempfile

import numpy

from harness.common import Ctx, Result, Disagreement, OracleFailure, enc, dec, f2b, jsonable

ASSUMPTIONS = [
    "pandas text layout and printf rounding are outside the model: values are compared at rel 1e-14 ('%.15e' prints 16 digits), "
    "row/column labels at the precision pandas prints them (6 decimals / 7 significant digits: |label-expected| <= 5.1e-7*max(1,|expected|))",
    "pint's conversion is x*k(unit_from, unit_to); k is measured on pint's registry on every run (model input) and must agree with the "
    "CODATA 2022 constants typed into this harness to rel 1e-8 (oracle); qha's GPa<->Ry/bohr^3 constant and pint's differ by 6.6e-13 relative "
    "(measured, reported as contract value, invisible at the printed label precision)",
    "every Python exception of the writer counts as the single outcome 'error' (files written before the exception are not compared)",
    "NT >= 1 and NTV >= 1 (an empty DataFrame is printed by pandas as a message, not a table)",
]
TRUSTED_EXTRA = [
    "C15: harness-typed CODATA 2022 constants (Ry = 2.1798723611030e-18 J, a0 = 5.29177210544e-11 m) and the documented keyword/pattern/unit table in harness/c15.py are the oracle's specification",
]

# ----------------------------------------------------------------------------- the oracle's own specification
RY_J = 2.1798723611030e-18          # CODATA 2022 Rydberg energy
BOHR_M = 5.29177210544e-11          # CODATA 2022 Bohr radius
RY_BOHR3_IN_GPA = RY_J / BOHR_M ** 3 / 1e9
BOHR3_IN_ANG3 = (BOHR_M * 1e10) ** 3
UNIT_RTOL = 1e-8                    # CODATA 2018 vs 2022 differ by 2e-9
VALUE_RTOL = 1e-14
LABEL_TOL = 5.1e-7

# (keywords, stem of the file name, unit tag in the name, property read, kind, physical quantity) — README / docs/usage/output.rst
DOC = [
    (["cij_s", "cij", "adiabatic_elastic_moduli"], "c{ij}s", "gpa", "modulus_adiabatic", "ij", "pressure"),
    (["cij_t", "isothermal_elastic_moduli"], "c{ij}t", "gpa", "modulus_isothermal", "ij", "pressure"),
    (["B_V", "Bm_V", "bm_V", "bulk_modulus_voigt"], "bm_V", "gpa", "bulk_modulus_voigt", "value", "pressure"),
    (["B_R", "Bm_R", "bm_R", "bulk_modulus_reuss"], "bm_R", "gpa", "bulk_modulus_reuss", "value", "pressure"),
    (["B_VRH", "Bm_VRH", "bm_VRH", "bulk_modulus_voigt_reuss_hill"], "bm_VRH", "gpa", "bulk_modulus_voigt_reuss_hill", "value", "pressure"),
    (["G_V", "shear_modulus_voigt"], "G_V", "gpa", "shear_modulus_voigt", "value", "pressure"),
    (["G_R", "shear_modulus_reuss"], "G_R", "gpa", "shear_modulus_reuss", "value", "pressure"),
    (["G_VRH", "shear_modulus_voigt_reuss_hill"], "G_VRH", "gpa", "shear_modulus_voigt_reuss_hill", "value", "pressure"),
    (["v_p", "vp", "primary_velocities"], "v_p", "km_s", "primary_velocities", "value", "velocity"),
    (["v_s", "vs", "secondary_velocities"], "v_s", "km_s", "secondary_velocities", "value", "velocity"),
    (["v", "V", "volumes"], "v", "ang3", "volumes", "value", "volume"),
    (["p", "P", "pressures"], "p", "gpa", "pressures", "value", "pressure"),
]
DOC_BY_KW = {k: d for d in DOC for k in d[0]}
ALL_KEYWORDS = [k for d in DOC for k in d[0]]
# factor from the in-memory (atomic / km/s) unit to a unit a user may request
UNIT_FACTORS = {
    "pressure": {"GPa": RY_BOHR3_IN_GPA, "kbar": RY_BOHR3_IN_GPA * 10.0, "Pa": RY_BOHR3_IN_GPA * 1e9, "MPa": RY_BOHR3_IN_GPA * 1e3},
    "velocity": {"km/s": 1.0, "m/s": 1e3},
    "volume": {"angstrom^3": BOHR3_IN_ANG3, "nm^3": BOHR3_IN_ANG3 * 1e-3, "bohr^3": 1.0},
}
DOC_UNIT = {"pressure": "GPa", "velocity": "km/s", "volume": "angstrom^3"}
SCALE = {"pressure": 0.02, "velocity": 8.0, "volume": 600.0}   # typical in-memory magnitudes (Ry/bohr^3, km/s, bohr^3)
KEYS21 = [f"{a}{b}" for a in range(1, 7) for b in range(a, 7)]
VALUE_PROPS = [d[3] for d in DOC if d[4] == "value"]
IJ_PROPS = [d[3] for d in DOC if d[4] == "ij"]
KNOWN_SITE_FNAME_IJ = "ResultsWriterRule.write_ij_variable:fname-override-one-file-for-all-components"


# ----------------------------------------------------------------------------- scenario = base object + arrays
class _Items:
    """dict-like as CijPressureBaseModulusInterface: only `.items()`"""
    def __init__(self, pairs): self._pairs = pairs
    def items(self):
        for k, v in self._pairs: yield k, v


def grid_arrays(grid):
    import qha.tools
    t = qha.tools.arange(grid["T_MIN"], grid["NT"] + 4, grid["DT"])
    p_gpa = qha.tools.arange(grid["P_MIN"], grid["NTV"], grid["DELTA_P"])
    return t, p_gpa


def make_arrays(case):
    """in-memory content, reproducible from the payload alone"""
    g = case["grid"]
    rng = numpy.random.Generator(numpy.random.PCG64(int(case["data_seed"])))
    shape = (g["NT"] + 4, g["NTV"])
    arrays = {}
    for d in DOC:
        prop, kind, q = d[3], d[4], d[5]
        if kind == "value":
            a = rng.normal(SCALE[q], 0.3 * SCALE[q], size=shape)
            if q == "pressure": a[rng.random(shape) < 0.1] *= -1.0     # negative pressures / moduli do occur
            if rng.random() < 0.3: a[rng.integers(0, shape[0]), rng.integers(0, shape[1])] = 0.0
            arrays[prop] = a
        else:
            arrays[prop] = {ij: rng.normal(SCALE[q], 0.5 * SCALE[q], size=shape) for ij in KEYS21}
    v_array = numpy.sort(rng.uniform(60.0, 2500.0, size=g["NTV"]))[::-1].copy()
    return arrays, v_array


class _Slot:
    """non-data descriptor that shadows a property of the real interface class: an instance attribute of that name wins,
    without one the attribute is missing (AttributeError -> the real class's __getattr__ -> AttributeError)"""
    def __init__(self, name): self.name = name
    def __get__(self, obj, typ=None):
        if obj is None: return self
        raise AttributeError(self.name)


class _NoCalculator:
    """what `self.calculator` is on a stub: nothing behind it"""
    def __getattr__(self, name): raise AttributeError(name)


def stub_class(cls, cache=None):
    """a subclass of the REAL interface class whose data properties are plain slots.  A fresh subclass per case keeps single-case
    replays self-contained; the `alternate` stream passes a cache so that its two bases are instances of ONE class (state kept on
    the class — a writer built once per class, a shared table cache — is then visible)."""
    if cache is not None and cls in cache: return cache[cls]
    ns = {n: _Slot(n) for n in VALUE_PROPS + IJ_PROPS + ["t_array", "p_array", "v_array", "mass"]}
    ns["__init__"] = lambda self: None
    sub = type("Stub" + cls.__name__, (cls,), ns)
    if cache is not None: cache[cls] = sub
    return sub


def make_stub(case, cls_cache=None):
    """stub base: instance of a subclass of the real interface class (REAL write_table / write_variables / _base_name)"""
    import qha.unit_conversion
    from cij.core.calculator import CijVolumeBaseInterface, CijPressureBaseInterface
    from cij.util import c_
    arrays, v_array = make_arrays(case)
    t, p_gpa = grid_arrays(case["grid"])
    cls = CijPressureBaseInterface if case["base"] == "tp" else CijVolumeBaseInterface
    s = stub_class(cls, cls_cache)()
    s.calculator = _NoCalculator()
    s.t_array = t
    if case["base"] == "tp":
        s.p_array = qha.unit_conversion.gpa_to_ry_b3(numpy.asarray(p_gpa, dtype=float))
        axis = s.p_array
    else:
        s.v_array = v_array
        axis = v_array
    missing = set(case.get("missing", []))
    comps = case["components"]
    props = {}
    for prop in VALUE_PROPS:
        if prop in missing: continue
        setattr(s, prop, arrays[prop]); props[prop] = arrays[prop].copy()        # the expectation never shares memory with the base
    for prop in IJ_PROPS:
        if prop in missing: continue
        pairs = [(c_(ij), arrays[prop][ij]) for ij in comps]
        setattr(s, prop, _Items(pairs) if case["base"] == "tp" else dict(pairs))
        props[prop] = [(ij, arrays[prop][ij].copy()) for ij in comps]
    return s, {"name_expected": case["base"], "t": numpy.array(t, dtype=float), "axis": numpy.array(axis, dtype=float),
               "props": props, "base_name": s._base_name}


_REAL_CACHE = {}


def make_real(case):
    """bases of a real Calculator on a synthetic data set (harness/synth.py)"""
    from harness import synth
    key = (case["synth_seed"], tuple(sorted(case["grid"].items())))
    if key not in _REAL_CACHE:
        g = case["grid"]
        rng = numpy.random.Generator(numpy.random.PCG64(int(case["synth_seed"])))
        ds = synth.make_dataset(rng, nv=6, nq=2, na=2, system="cubic", settings={"qha": {"settings": {
            "NT": g["NT"], "DT": g["DT"], "T_MIN": g["T_MIN"], "NTV": g["NTV"], "DELTA_P": g["DELTA_P"], "P_MIN": g["P_MIN"],
            "DT_SAMPLE": g["DT"] * g.get("DT_SAMPLE_MULT", 1), "DELTA_P_SAMPLE": g["DELTA_P"] * g.get("DP_SAMPLE_MULT", 1)}}})
        d = tempfile.mkdtemp(prefix="c15real_")
        cwd = os.getcwd()
        try:
            p = synth.write_all(d, ds)
            os.chdir(d)
            logging.disable(logging.CRITICAL)
            from cij.core.calculator import Calculator
            with numpy.errstate(all="ignore"):
                calc = Calculator(p)
                # force every lazily computed array now, while the input files exist
                for b in (calc.pressure_base, calc.volume_base):
                    for prop in VALUE_PROPS:
                        try: getattr(b, prop)
                        except Exception: pass
                    for prop in IJ_PROPS:
                        list(getattr(b, prop).items())
        finally:
            logging.disable(logging.NOTSET)
            os.chdir(cwd)
            shutil.rmtree(d, ignore_errors=True)
        _REAL_CACHE[key] = calc
    calc = _REAL_CACHE[key]
    base = calc.pressure_base if case["base"] == "tp" else calc.volume_base
    props = {}
    with numpy.errstate(all="ignore"):
        for prop in VALUE_PROPS:
            try: props[prop] = numpy.array(getattr(base, prop), dtype=float)
            except Exception: pass
        for prop in IJ_PROPS:
            props[prop] = [("%d%d" % tuple(k.v), numpy.array(v, dtype=float)) for k, v in getattr(base, prop).items()]
        if case["base"] == "tp":
            # independent expectation for the pressure base: the calculator's own volume-base tensors converted here with
            # qha.v2p (not what the pressure-base views hand out), so a view that serves the wrong tensor is visible
            from qha.v2p import v2p
            p_tv = numpy.asarray(calc.qha_calculator.volume_base.pressures, dtype=float)
            for prop in IJ_PROPS:
                src = getattr(calc, prop)
                props[prop] = [("%d%d" % tuple(k.v), numpy.array(v2p(numpy.asarray(src[k], dtype=float), p_tv, numpy.asarray(base.p_array, dtype=float)), dtype=float))
                               for k, _ in getattr(base, prop).items()]
        else:
            # ... and for the volume base: the CALCULATOR's tensors of that name (not what the volume-base views hand out)
            for prop in IJ_PROPS:
                src = getattr(calc, prop)
                props[prop] = [("%d%d" % tuple(k.v), numpy.array(src[k], dtype=float)) for k in src.keys()]
    axis = base.p_array if case["base"] == "tp" else base.v_array
    return base, {"name_expected": case["base"], "t": numpy.array(base.t_array, dtype=float),
                  "axis": numpy.array(axis, dtype=float), "props": props, "base_name": base._base_name, "calc": calc}


def make_base(case):
    return make_real(case) if case.get("real") else make_stub(case)


# ----------------------------------------------------------------------------- the real code
def parse_header(raw):
    """corner and column labels from the first line of the file, parsed here (pandas renames repeated labels)"""
    first = raw.decode("utf-8", "replace").splitlines()[0].split()
    return first[0], [float(x) for x in first[1:]]


def read_dir(d):
    import pandas
    out = {}
    for name in sorted(os.listdir(d)):
        path = os.path.join(d, name)
        with open(path, "rb") as fp: raw = fp.read()
        try:
            df = pandas.read_table(path, sep=r"\s+", index_col=0)
            corner, cols = parse_header(raw)
            if len(cols) != df.shape[1]: raise ValueError("header and body disagree")
            out[name] = {"corner": corner, "rows": [float(x) for x in df.index], "cols": cols,
                         "vals": df.to_numpy(dtype=float), "raw": raw}
        except Exception as e:      # a file that cannot be re-read as a table: content "nothing" (differs from any expected table)
            out[name] = {"corner": f"unreadable: {type(e).__name__}", "rows": [], "cols": [], "vals": numpy.zeros((0, 0)), "raw": raw}
    return out


def snapshot(base, info):
    """bytes of every in-memory array the writer can reach through the base (taken before and after writing)"""
    snap = {}
    def put(name, get):
        try: snap[name] = numpy.array(get(), dtype=float).tobytes()
        except Exception: pass
    for n in ("t_array", "p_array", "v_array"): put(n, lambda n=n: getattr(base, n))
    calc = info.get("calc") if isinstance(info, dict) else None
    if calc is not None:
        # a real Calculator: the cached arrays everything else is computed from
        for prop in IJ_PROPS:
            try:
                for k, v in getattr(calc, prop).items(): put(f"calculator.{prop}[{'%d%d' % tuple(k.v)}]", lambda v=v: v)
            except Exception: pass
        put("qha.volume_base.pressures", lambda: calc.qha_calculator.volume_base.pressures)
        put("qha.pressure_base.volumes", lambda: calc.qha_calculator.pressure_base.volumes)
        put("qha.volume_base.v_array", lambda: calc.qha_calculator.volume_base.v_array)
        return snap
    for prop in VALUE_PROPS: put(prop, lambda prop=prop: base.__dict__[prop])
    for prop in IJ_PROPS:
        try:
            for k, v in base.__dict__[prop].items(): put(f"{prop}[{'%d%d' % tuple(k.v)}]", lambda v=v: v)
        except Exception: pass
    return snap


def changed_arrays(before, after):
    return sorted(k for k in before if k in after and before[k] != after[k])


def run_impl(case, base):
    """returns {file name: content} or 'error'"""
    d = tempfile.mkdtemp(prefix="c15_")
    cwd = os.getcwd()
    try:
        os.chdir(d)
        try:
            if case.get("check") == "write_output":
                from cij.core.calculator import Calculator
                class Calc: pass
                c = Calc()
                out = {}
                if case["pcfg"] is not None: out["pressure_base"] = copy.deepcopy(case["pcfg"])
                if case["vcfg"] is not None: out["volume_base"] = copy.deepcopy(case["vcfg"])
                c.config = {"output": out}
                c.pressure_base, c.volume_base = base
                Calculator.write_output(c)
            elif case.get("check") == "write_variables":
                base.write_variables(copy.deepcopy(case["cfgs"]))
            elif case.get("check") == "calculator_write_output":
                calc = case["calc"]
                saved = calc.config.get("output")
                calc.config["output"] = {("pressure_base" if case["base"] == "tp" else "volume_base"): copy.deepcopy(case["cfgs"])}
                try: calc.write_output()
                finally:
                    if saved is None: calc.config.pop("output", None)
                    else: calc.config["output"] = saved
            elif case.get("rules") is not None:
                from cij.io.output.results_writer import ResultsWriter
                ResultsWriter(base, copy.deepcopy(case["rules"])).write(copy.deepcopy(case["cfg"]))
            else:
                base.write_variables([copy.deepcopy(case["cfg"])])
        except Exception as e:
            return "error", type(e).__name__
        return read_dir(d), None
    finally:
        os.chdir(cwd)
        shutil.rmtree(d, ignore_errors=True)


# ----------------------------------------------------------------------------- the model
def pint_factor(a, b):
    from cij.util.units import units
    try:
        return float(units.Quantity(1.0, a).to(b).magnitude)
    except Exception:
        return None


_UNITS_CACHE = {}


def units_json(pairs):
    from cij.util.units import units
    if "gpa" not in _UNITS_CACHE:
        _UNITS_CACHE["gpa"] = float(units.Quantity(1.0, units.rydberg / units.bohr ** 3).to(units.GPa).magnitude)
        _UNITS_CACHE["ang3"] = float(units.Quantity(1.0, units.bohr ** 3).to(units.angstrom ** 3).magnitude)
    conv = []
    for a, b in sorted(set(pairs)):
        if (a, b) not in _UNITS_CACHE: _UNITS_CACHE[(a, b)] = pint_factor(a, b)
        k = _UNITS_CACHE[(a, b)]
        if k is not None: conv.append([a, b, f2b(k)])
    return {"to_gpa": f2b(_UNITS_CACHE["gpa"]), "to_ang3": f2b(_UNITS_CACHE["ang3"]), "conv": conv}


def base_json(info, pressure):
    props = []
    for name, v in info["props"].items():
        if isinstance(v, list):
            props.append({"name": name, "kind": "items",
                          "items": [{"key": [int(ij[0]), int(ij[1])], "m": enc(m)} for ij, m in v]})
        else:
            props.append({"name": name, "kind": "value", "m": enc(v)})
    return {"name": info["base_name"], "pressure": bool(pressure), "t": enc(info["t"]), "axis": enc(info["axis"]), "props": props}


def rules_in_force(case):
    if case.get("rules") is not None: return case["rules"]
    from cij.io.output.results_writer import DEFAULT_WRITER_RULES
    return DEFAULT_WRITER_RULES


def unit_pairs(case, cfgs):
    pairs = []
    for r in rules_in_force(case):
        for cfg in cfgs:
            c = cfg if isinstance(cfg, dict) else {}
            pairs.append((str(c.get("unit_internal", r["unit_internal"])), str(c.get("unit", r["unit"]))))
    return pairs


def cfg_json(cfg):
    if isinstance(cfg, str): return cfg
    return {k: cfg[k] for k in ("keyword", "fname", "unit", "unit_internal") if k in cfg}


def model_op(case, info):
    if case.get("check") == "write_output":
        cfgs = (case["pcfg"] or []) + (case["vcfg"] or [])
        op = {"op": "c15.write_output", "pbase": base_json(info[0], True), "vbase": base_json(info[1], False),
              "units": units_json(unit_pairs(case, cfgs))}
        if case["pcfg"] is not None: op["pcfg"] = [cfg_json(c) for c in case["pcfg"]]
        if case["vcfg"] is not None: op["vcfg"] = [cfg_json(c) for c in case["vcfg"]]
        return op
    op = {"op": "c15.write", "base": base_json(info, case["base"] == "tp"), "cfg": cfg_json(case["cfg"]),
          "units": units_json(unit_pairs(case, [case["cfg"]]))}
    if case.get("rules") is not None: op["rules"] = case["rules"]
    return op


def decode_model(ans):
    if ans == "error": return "error"
    return {t["fname"]: {"corner": t["corner"], "rows": dec(t["rows"]), "cols": dec(t["cols"]),
                         "vals": numpy.array(dec(t["vals"]), dtype=float).reshape(len(t["rows"]), len(t["cols"]))}
            for t in ans["files"]}


# ----------------------------------------------------------------------------- comparison
def labels_close(got, want):
    if len(got) != len(want): return False
    return all(abs(a - b) <= LABEL_TOL * max(1.0, abs(b)) for a, b in zip(got, want))


def values_close(got, want, rtol):
    got, want = numpy.asarray(got, dtype=float), numpy.asarray(want, dtype=float)
    if got.shape != want.shape: return False
    if not numpy.array_equal(numpy.isfinite(got), numpy.isfinite(want)): return False
    m = numpy.isfinite(got)
    return bool(numpy.all(numpy.abs(got[m] - want[m]) <= rtol * numpy.maximum(numpy.abs(got[m]), numpy.abs(want[m]))))


def diff_files(got, want, rtol, check_corner=True):
    """first difference between two {name: content} (or 'error'), else None"""
    if isinstance(got, str) or isinstance(want, str):
        return None if got == want else ("outcome", got if isinstance(got, str) else sorted(got), want if isinstance(want, str) else sorted(want))
    if sorted(got) != sorted(want): return ("names", sorted(got), sorted(want))
    for n in sorted(got):
        g, w = got[n], want[n]
        if check_corner and "corner" in w and g["corner"] != w["corner"]: return (f"corner:{n}", g["corner"], w["corner"])
        if not labels_close(g["rows"], w["rows"]): return (f"rows:{n}", list(g["rows"]), list(w["rows"]))
        if not labels_close(g["cols"], w["cols"]): return (f"cols:{n}", list(g["cols"]), list(w["cols"]))
        if not values_close(g["vals"], w["vals"], rtol):
            gv, wv = numpy.asarray(g["vals"], dtype=float), numpy.asarray(w["vals"], dtype=float)
            if gv.shape == wv.shape and gv.size:
                i = int(numpy.nanargmax(numpy.abs(gv - wv) / numpy.maximum(numpy.abs(wv), 1e-300)))
                return (f"values:{n}", {"index": i, "got": float(gv.flat[i]), "ratio": float(gv.flat[i] / wv.flat[i]) if wv.flat[i] else None},
                        {"want": float(wv.flat[i])})
            return (f"values:{n}", list(gv.shape), list(wv.shape))
    return None


# ----------------------------------------------------------------------------- the oracle (property statement)
def last_rule_with(rules, kw):
    hit = None
    for r in rules:
        if kw in r["keywords"]: hit = r
    return hit


def expected_request(case, info, cfg, pressure):
    """files one request must leave behind according to the STATEMENT: {name: content} (later writes not considered)"""
    g = case["grid"]
    kw = cfg if isinstance(cfg, str) else cfg["keyword"]
    c = cfg if isinstance(cfg, dict) else {}
    if case.get("rules") is not None:
        r = last_rule_with(case["rules"], kw)           # a redefinition later in the list replaces the earlier one
        stem_pat, prop, kind = r["fname_pattern"], r["prop"], ("ij" if r["var_type"] == "ij_value" else "value")
        q = r["_quantity"]
        name_of = lambda ij: stem_pat.replace("{base}", case["base"]).replace("{ij}", ij or "")
        unit = c.get("unit", r["unit"])
    else:
        _, stem, tag, prop, kind, q = DOC_BY_KW[kw]
        name_of = lambda ij: f"{stem.replace('{ij}', ij or '')}_{case['base']}_{tag}.txt"
        unit = c.get("unit", DOC_UNIT[q])
    factor = UNIT_FACTORS[q][unit]
    rows = [g["T_MIN"] + k * g["DT"] for k in range(g["NT"])]
    if pressure:
        cols = [g["P_MIN"] + j * g["DELTA_P"] for j in range(g["NTV"])]
    else:
        cols = [float(v) * BOHR3_IN_ANG3 for v in info["axis"]]
    nt = g["NT"]
    out = {}
    if kind == "value":
        name = c["fname"] if "fname" in c else name_of(None)
        out[name] = {"rows": rows, "cols": cols, "vals": numpy.asarray(info["props"][prop])[:nt] * factor}
    else:
        for ij, m in info["props"][prop]:
            name = c["fname"] if "fname" in c else name_of(ij)
            if name in out:
                # "one file per available component" AND "the given name is honoured" cannot both be met: the statement fails
                out[("__lost__", ij)] = {"rows": rows, "cols": cols, "vals": numpy.asarray(m)[:nt] * factor}
            else:
                out[name] = {"rows": rows, "cols": cols, "vals": numpy.asarray(m)[:nt] * factor}
    return out


def oracle_case(case, impl, info):
    """None if the statement holds on the real code's files, else (what, observed, expected, site)"""
    if case.get("expect_error"):
        return None                                    # malformed stream: only correspondence is checked
    if case.get("check") == "write_output":
        want = {}
        for cfgs, inf, pressure, bname in ((case["pcfg"], info[0], True, "tp"), (case["vcfg"], info[1], False, "tv")):
            for cfg in (cfgs or []):
                sub = dict(case, base=bname)
                want.update(expected_request(sub, inf, cfg, pressure))
    else:
        want = expected_request(case, info, case["cfg"], case["base"] == "tp")
    if isinstance(impl, str):
        return ("valid request raised", impl, sorted(map(str, want)), "write:raises")
    lost = [k for k in want if isinstance(k, tuple)]
    if lost:
        kw = case["cfg"]["keyword"]
        return ("fname override on a tensor keyword: all components written to one file, only the last survives",
                {"files": sorted(impl), "components": [ij for ij, _ in info["props"][DOC_BY_KW[kw][3]]]},
                {"files_expected": len(want), "lost_components": [k[1] for k in lost]}, KNOWN_SITE_FNAME_IJ)
    d = diff_files(impl, want, UNIT_RTOL, check_corner=False)
    if d is None: return None
    kw = case["cfg"] if isinstance(case.get("cfg"), str) else (case.get("cfg") or {}).get("keyword", "write_output")
    aspect = d[0].split(":")[0]
    return (f"{aspect} of the written file differ from the statement ({d[0]})", d[1], d[2],
            f"write:{'real' if case.get('real') else 'stub'}:{case.get('base', 'both')}:{kw}:{aspect}")


# ----------------------------------------------------------------------------- generators
NICE_DT = [1, 10, 50, 100, 0.5, 2.5, 37.5]
NICE_DP = [0.1, 0.5, 1.0, 2.0, 2.5, 10.0, 0.25]


FINE_DP = [0.125, 0.025, 0.375, 0.005, 0.0625, 1.125]        # steps / starts whose multiples need three or more decimals
FINE_PMIN = [0.375, 0.125, 0.005, -0.625, 1.875, 0.0]


def needs_fine_labels(grid):
    """some pressure label of the grid is not a multiple of 0.01 GPa"""
    return any(abs(round(p * 100.0) - p * 100.0) > 1e-6 for p in (grid["P_MIN"] + j * grid["DELTA_P"] for j in range(grid["NTV"])))


def gen_grid(rng):
    r = rng.random()
    if r < 0.45:
        return {"NT": int(rng.integers(1, 9)), "DT": NICE_DT[rng.integers(len(NICE_DT))], "T_MIN": [0, 0, 300, 10, 273.15][rng.integers(5)],
                "NTV": int(rng.integers(1, 8)), "DELTA_P": float(NICE_DP[rng.integers(len(NICE_DP))]),
                "P_MIN": [0.0, 0.0, -5.0, 10.0, 1.5][rng.integers(5)]}
    if r < 0.7:
        return {"NT": int(rng.integers(1, 9)), "DT": NICE_DT[rng.integers(len(NICE_DT))], "T_MIN": [0, 0, 300, 10, 273.15][rng.integers(5)],
                "NTV": int(rng.integers(2, 10)), "DELTA_P": float(FINE_DP[rng.integers(len(FINE_DP))]),
                "P_MIN": float(FINE_PMIN[rng.integers(len(FINE_PMIN))])}
    return {"NT": int(rng.integers(1, 12)), "DT": float(numpy.round(rng.uniform(0.5, 150.0), 3)), "T_MIN": float(numpy.round(rng.uniform(0.0, 500.0), 2)),
            "NTV": int(rng.integers(1, 10)), "DELTA_P": float(numpy.round(rng.uniform(0.05, 12.0), 3)),
            "P_MIN": float(numpy.round(rng.uniform(-20.0, 100.0), 2))}


def gen_components(rng):
    r = rng.random()
    if r < 0.1: return []
    if r < 0.25: return list(KEYS21) if rng.random() < 0.5 else [KEYS21[i] for i in rng.permutation(21)]
    n = int(rng.integers(1, 10))
    return [KEYS21[i] for i in rng.permutation(21)[:n]]


def gen_scenario(rng):
    return {"check": "write", "base": "tp" if rng.random() < 0.5 else "tv", "grid": gen_grid(rng),
            "data_seed": int(rng.integers(0, 2 ** 31)), "components": gen_components(rng)}


def available(base, kw):
    """'volumes' exists only on the pressure base, 'pressures' only on the volume base (as documented)"""
    prop = DOC_BY_KW[kw][3]
    return not ((prop == "volumes" and base == "tv") or (prop == "pressures" and base == "tp"))


def scenario_cases(rng, sc):
    """every keyword and alias as plain string, plus overrides, for one scenario"""
    cases = []
    missing = ["volumes"] if sc["base"] == "tv" else ["pressures"]
    for kw in ALL_KEYWORDS:
        c = dict(sc, cfg=kw, missing=missing)
        if not available(sc["base"], kw): c["expect_error"] = True
        cases.append(c)
    # dict form, unit / fname overrides, irrelevant keys
    for _ in range(10):
        kw = ALL_KEYWORDS[rng.integers(len(ALL_KEYWORDS))]
        if not available(sc["base"], kw): continue
        _, _, _, _, kind, q = DOC_BY_KW[kw]
        cfg = {"keyword": kw}
        r = rng.random()
        if r < 0.35:
            units_ = list(UNIT_FACTORS[q]); cfg["unit"] = units_[rng.integers(len(units_))]
        elif r < 0.7:
            cfg["fname"] = f"my_{rng.integers(1000)}.dat"
        elif r < 0.8:
            units_ = list(UNIT_FACTORS[q]); cfg["unit"] = units_[rng.integers(len(units_))]; cfg["fname"] = "both.txt"
        if rng.random() < 0.3:
            cfg["prop"] = "volumes"; cfg["fname_pattern"] = "zzz_{base}.txt"; cfg["description"] = "ignored keys"
        cases.append(dict(sc, cfg=cfg, missing=missing))
    return cases


def malformed_cases(rng, sc):
    out = []
    for cfg in ["nonsense", "", "CIJ", {"keyword": "B_V", "unit": "km/s"}, {"keyword": "vp", "unit": "GPa"},
                {"keyword": "v", "unit": "not_a_unit"}, {"keyword": "cij", "unit": "bohr^3"}, {"keyword": "zzz", "fname": "a.txt"}]:
        out.append(dict(sc, cfg=cfg, expect_error=True, missing=[]))
    out.append(dict(sc, cfg="B_R", missing=["bulk_modulus_reuss"], expect_error=True))
    out.append(dict(sc, cfg="cij_t", missing=["modulus_isothermal"], expect_error=True))
    return out


QUANTITY_OF_UNIT = {"GPa": "pressure", "km/s": "velocity", "angstrom^3": "volume"}


def custom_rule_cases(rng, sc):
    """user-supplied rule lists with redefined keywords: the LATER definition must be in force"""
    out = []
    for _ in range(4):
        base_rules = []
        n = int(rng.integers(2, 5))
        picks = [DOC[i] for i in rng.permutation(len(DOC))[:n]]
        shared = f"k{rng.integers(100)}"
        for i, d in enumerate(picks):
            q = d[5]
            if (d[3] == "volumes" and sc["base"] == "tv") or (d[3] == "pressures" and sc["base"] == "tp"): continue
            kws = [f"own{i}", shared] + ([picks[0][0][0]] if i > 0 and rng.random() < 0.5 else [])
            base_rules.append({"keywords": kws, "fname_pattern": (f"r{i}_" + ("{ij}_" if d[4] == "ij" else "") + "{base}.out"),
                               "prop": d[3], "unit": DOC_UNIT[q], "_quantity": q,
                               "unit_internal": {"pressure": "rydberg / bohr ** 3", "velocity": "km/s", "volume": "bohr ** 3"}[q],
                               "var_type": "ij_value" if d[4] == "ij" else "value", "description": "custom"})
        if len(base_rules) < 2: continue
        for kw in {shared, base_rules[-1]["keywords"][0], base_rules[0]["keywords"][0]}:
            out.append(dict(sc, cfg=kw, rules=base_rules, missing=[]))
    return out


def write_output_cases(rng, n):
    out = []
    for _ in range(n):
        grid = gen_grid(rng)
        seed = int(rng.integers(0, 2 ** 31))
        comps = gen_components(rng)
        def pick(base):
            ks = [k for k in ALL_KEYWORDS if available(base, k)]
            lst = [ks[i] if rng.random() < 0.7 else {"keyword": ks[i]} for i in rng.permutation(len(ks))[:int(rng.integers(0, 6))]]
            # the same quantity requested again under another alias with its own unit and/or file name (value keywords only:
            # an fname on a tensor keyword is the recorded finding); every entry of the list is a request of its own
            for _ in range(int(rng.integers(0, 3))):
                vals = [k for k in ks if DOC_BY_KW[k][4] == "value"]
                if lst and rng.random() < 0.7:
                    prev = [e if isinstance(e, str) else e["keyword"] for e in lst]
                    same = [k for k in vals if any(DOC_BY_KW[k][3] == DOC_BY_KW[p_][3] for p_ in prev)]
                    vals = same or vals
                kw = vals[int(rng.integers(len(vals)))]
                q = DOC_BY_KW[kw][5]
                e = {"keyword": kw}
                r2 = rng.random()
                units_ = list(UNIT_FACTORS[q])
                if r2 < 0.4: e["unit"] = units_[rng.integers(len(units_))]; e["fname"] = f"again_{base}_{len(lst)}.txt"
                elif r2 < 0.7: e["fname"] = f"again_{base}_{len(lst)}.txt"
                else: e["unit"] = units_[rng.integers(len(units_))]
                lst.insert(int(rng.integers(0, len(lst) + 1)), e)
            return lst
        r = rng.random()
        out.append({"check": "write_output", "grid": grid, "data_seed": seed, "components": comps,
                    "pcfg": None if r < 0.2 else pick("tp"), "vcfg": None if 0.2 <= r < 0.4 else pick("tv")})
    return out


def real_grid(rng, fine):
    if fine:
        # labels with a third decimal; the SAMPLE steps are multiples of the steps (the tables must still carry every grid point)
        return {"NT": int(rng.integers(3, 8)), "DT": [50, 100, 25.0][rng.integers(3)], "T_MIN": [0, 100, 300][rng.integers(3)],
                "NTV": int(rng.integers(5, 10)), "DELTA_P": [0.125, 0.375, 0.625][rng.integers(3)], "P_MIN": [0.375, 0.125, 1.875][rng.integers(3)],
                "DT_SAMPLE_MULT": int(rng.integers(1, 4)), "DP_SAMPLE_MULT": int(rng.integers(1, 4))}
    return {"NT": int(rng.integers(3, 8)), "DT": [50, 100, 25.0][rng.integers(3)], "T_MIN": [0, 100, 300][rng.integers(3)],
            "NTV": int(rng.integers(4, 9)), "DELTA_P": [0.5, 1.0, 2.0][rng.integers(3)], "P_MIN": [0.0, 1.0, 5.0][rng.integers(3)]}


def real_cases(rng, n):
    out = []
    for i in range(n):
        grid = real_grid(rng, fine=(i % 2 == 1))
        seed = int(rng.integers(0, 2 ** 31))
        for base in ("tp", "tv"):
            for kw in ALL_KEYWORDS:
                if available(base, kw):
                    out.append({"check": "write", "real": True, "synth_seed": seed, "grid": grid, "base": base, "cfg": kw})
    return out


def request_list(rng, base, n):
    """a list for `write_variables`: keywords / aliases as str or dict, value keywords also with their own unit and/or file name"""
    ks = [k for k in ALL_KEYWORDS if available(base, k)]
    out = []
    for _ in range(n):
        kw = ks[int(rng.integers(len(ks)))]
        kind, q = DOC_BY_KW[kw][4], DOC_BY_KW[kw][5]
        r = rng.random()
        if r < 0.45: out.append(kw)
        elif r < 0.6: out.append({"keyword": kw})
        else:
            e = {"keyword": kw}
            units_ = list(UNIT_FACTORS[q])
            if rng.random() < 0.6: e["unit"] = units_[int(rng.integers(len(units_)))]
            if kind == "value" and rng.random() < 0.5: e["fname"] = f"own_{base}_{int(rng.integers(1000))}.txt"
            out.append(e)
    return out


def alternate_cases(rng, n):
    """two stub bases (mostly of ONE interface class) written alternately, and the same base twice in a row with different lists"""
    out = []
    for _ in range(n):
        kind = "tp" if rng.random() < 0.5 else "tv"
        a, b = gen_scenario(rng), gen_scenario(rng)
        a["base"] = kind
        b["base"] = kind if rng.random() < 0.8 else ("tv" if kind == "tp" else "tp")
        for sc in (a, b):
            if not sc["components"]: sc["components"] = [KEYS21[i] for i in rng.permutation(21)[:3]]
        steps, who = [], "a"
        for i in range(int(rng.integers(3, 7))):
            if i > 0 and rng.random() < 0.75: who = "b" if who == "a" else "a"          # else: the same base again, another list
            steps.append([who, request_list(rng, (a if who == "a" else b)["base"], int(rng.integers(1, 4)))])
        out.append({"check": "alternate", "a": a, "b": b, "steps": steps})
    return out


def alternate_real_cases(rng, first):
    """two REAL Calculators in one process: `write_output` of one, of the other, of the first again.  `first` = (synth_seed, grid)
    of a Calculator that exists already (cached); the second one gets a pressure grid with a third decimal."""
    seed_a, grid_a = first
    seed_b, grid_b = int(rng.integers(0, 2 ** 31)), real_grid(rng, fine=True)
    out = []
    for kind in ("tp", "tv"):
        a = {"real": True, "synth_seed": seed_a, "grid": grid_a, "base": kind}
        b = {"real": True, "synth_seed": seed_b, "grid": grid_b, "base": kind}
        steps = [["a", request_list(rng, kind, 2)], ["b", request_list(rng, kind, 3)], ["a", request_list(rng, kind, 2)],
                 ["b", request_list(rng, kind, 2)], ["b", request_list(rng, kind, 2)]]
        out.append({"check": "alternate", "real": True, "a": a, "b": b, "steps": steps})
    return out


# ----------------------------------------------------------------------------- running cases
def build(case):
    if case.get("check") == "write_output":
        pb, pi = make_stub(dict(case, base="tp", missing=["pressures"]))
        vb, vi = make_stub(dict(case, base="tv", missing=["volumes"]))
        return (pb, vb), (pi, vi)
    return make_base(case)


def light(case):
    """replay payload: everything needed to rebuild the case (arrays come from data_seed / synth_seed)"""
    return jsonable({k: v for k, v in case.items()})


def add_failure(res: Result, what, case, observed, expected, site, limit_fail=12):
    if len(res.oracle_failures) < limit_fail and site not in {f.site for f in res.oracle_failures}:
        res.oracle_failures.append(OracleFailure(what=what, input=light(case), observed=observed, expected=expected, site=site))


def count(res: Result, key, sub=None, n=1):
    if sub is None:
        res.distribution[key] = res.distribution.get(key, 0) + n
    else:
        d = res.distribution.setdefault(key, {}); d[sub] = d.get(sub, 0) + n


def inplace_check(res: Result, case, before, after, where):
    """arrays read before and after writing are bit-identical"""
    count(res, "inplace_arrays_compared", n=len(before))
    ch = changed_arrays(before, after)
    if ch:
        add_failure(res, "writing changed in-memory results (arrays differ bit-wise before / after the write)", case,
                    {"changed": ch[:8]}, {"changed": []}, f"write:in-place:{where}")


def evaluate(ctx: Ctx, cases, res: Result, with_model=True, limit_fail=12):
    """runs impl + oracle (+ model) on the cases; returns list of (case, impl) for alias checks"""
    done = []
    ops, keep = [], []
    for case in cases:
        if case.get("check") == "alternate":
            evaluate_alternate(ctx, [case], res, with_model=with_model)
            continue
        try:
            base, info = build(case)
        except Exception as e:     # a real Calculator that cannot be built is not this property's business
            res.contract_failures.append(f"scenario could not be built: {type(e).__name__}: {e}")
            continue
        pairs = list(zip(base, info)) if isinstance(base, tuple) else [(base, info)]
        before = [snapshot(b, i) for b, i in pairs]
        impl, exc = run_impl(case, base)
        after = [snapshot(b, i) for b, i in pairs]
        res.evaluations += 1
        kind = "write_output" if case.get("check") == "write_output" else ("real" if case.get("real") else ("custom_rules" if case.get("rules") is not None else "stub"))
        res.distribution.setdefault("kind", {}).setdefault(kind, 0); res.distribution["kind"][kind] += 1
        if isinstance(impl, str):
            res.distribution.setdefault("errors", {}).setdefault(exc, 0); res.distribution["errors"][exc] += 1
        else:
            res.distribution.setdefault("files_written", 0); res.distribution["files_written"] += len(impl)
            if case.get("grid") and needs_fine_labels(case["grid"]) and case.get("base", "tp") == "tp" and impl:
                count(res, "pressure_grids_needing_3_or_more_decimals", kind)
        for bf, af in zip(before, after):
            inplace_check(res, case, bf, af, kind)
        r = oracle_case(case, impl, info)
        if r is not None and len(res.oracle_failures) < limit_fail and r[3] not in {f.site for f in res.oracle_failures}:
            res.oracle_failures.append(OracleFailure(what=r[0], input=light(case), observed=r[1], expected=r[2], site=r[3]))
        if with_model:
            ops.append(model_op(case, info)); keep.append((case, impl))
        done.append((case, impl, info))
    if with_model and ops:
        answers = ctx.driver.ask(ops)
        for (case, impl), ans in zip(keep, answers):
            model = decode_model(ans)
            d = diff_files(impl, model, VALUE_RTOL)
            if d is None:
                res.traces_validated += 1
            else:
                res.disagreements.append(Disagreement("c15.write", light(case), jsonable(d[1]), jsonable(d[2]), note=d[0]))
    return done


def evaluate_alternate(ctx: Ctx, cases, res: Result, with_model=True):
    """`alternate` stream: the bases `a` and `b` of a case write in turn (each step into an empty directory); every step must
    leave the files of ITS base — data, grids, labels, names — whatever was written before, by whom"""
    ops, keep = [], []
    for case in cases:
        cls_cache = {}
        bases = {}
        try:
            for who in ("a", "b"):
                sc = case[who]
                if sc.get("real"): bases[who] = make_real(sc)
                else: bases[who] = make_stub(dict(sc, missing=["volumes"] if sc["base"] == "tv" else ["pressures"]), cls_cache)
        except Exception as e:
            res.contract_failures.append(f"scenario could not be built: {type(e).__name__}: {e}")
            continue
        tag = "real" if case.get("real") else "stub"
        count(res, "alternate", "cases:" + tag)
        if case["a"]["base"] == case["b"]["base"]: count(res, "alternate", "both_bases_of_one_class")
        before = {w: snapshot(*bases[w]) for w in bases}
        seen, prev = set(), None
        for i, (who, lst) in enumerate(case["steps"]):
            base, info = bases[who]
            sc = case[who]
            pressure = sc["base"] == "tp"
            if sc.get("real"): sub = {"check": "calculator_write_output", "calc": info["calc"], "base": sc["base"], "cfgs": lst}
            else: sub = {"check": "write_variables", "cfgs": lst}
            impl, exc = run_impl(sub, base)
            res.evaluations += 1
            count(res, "alternate", "steps")
            if prev == who: count(res, "alternate", "same_base_again_with_another_list")
            elif prev is not None: count(res, "alternate", "base_switched")
            count(res, "alternate", "list_length_%d" % len(lst))
            if pressure and needs_fine_labels(sc["grid"]): count(res, "pressure_grids_needing_3_or_more_decimals", "alternate:" + tag)
            want = {}
            for cfg in lst: want.update(expected_request(sc, info, cfg, pressure))
            position = "first-write-of-this-base" if who not in seen else "later-write-of-this-base"
            if who not in seen and seen: position = "first-write-after-another-base"
            if isinstance(impl, str):
                count(res, "errors", exc)
                add_failure(res, f"step {i} (base {who}): valid list raised", case, f"{impl}: {exc}", sorted(map(str, want)),
                            f"alternate:{tag}:{position}:raises")
            else:
                count(res, "files_written", n=len(impl))
                d = diff_files(impl, want, UNIT_RTOL, check_corner=False)
                if d is not None:
                    aspect = d[0].split(":")[0]
                    add_failure(res, f"step {i}: base {who!r} ({sc['base']}) did not write ITS data / grids ({d[0]})", case, d[1], d[2],
                                f"alternate:{tag}:{position}:{aspect}")
            if with_model:
                ops.append({"op": "c15.write_variables", "base": base_json(info, pressure), "cfgs": [cfg_json(c) for c in lst],
                            "units": units_json(unit_pairs(sc, lst))})
                keep.append((case, i, impl))
            seen.add(who); prev = who
        after = {w: snapshot(*bases[w]) for w in bases}
        for w in bases: inplace_check(res, case, before[w], after[w], "alternate:" + tag)
    if with_model and ops:
        for (case, i, impl), ans in zip(keep, ctx.driver.ask(ops)):
            d = diff_files(impl, decode_model(ans), VALUE_RTOL)
            if d is None: res.traces_validated += 1
            else: res.disagreements.append(Disagreement("c15.write_variables", dict(light(case), step=i), jsonable(d[1]), jsonable(d[2]), note=d[0]))


def alias_check(done, res: Result):
    """aliases of one keyword produce byte-identical files (same scenario)"""
    groups = {}
    for case, impl, info in done:
        if isinstance(case.get("cfg"), str) and case.get("rules") is None and not case.get("expect_error"):
            key = (case.get("real", False), case.get("synth_seed"), case.get("data_seed"), case["base"], tuple(sorted(case["grid"].items())),
                   tuple(case.get("components", [])), tuple(DOC_BY_KW[case["cfg"]][0]))
            groups.setdefault(key, []).append((case, impl))
    n = 0
    for key, lst in groups.items():
        ref_case, ref = lst[0]
        for case, impl in lst[1:]:
            n += 1
            same = (not isinstance(ref, str)) and (not isinstance(impl, str)) and sorted(ref) == sorted(impl) and \
                all(ref[k]["raw"] == impl[k]["raw"] for k in ref)
            if not same:
                res.oracle_failures.append(OracleFailure(
                    what=f"aliases {ref_case['cfg']!r} and {case['cfg']!r} give different files", input=dict(light(case), alias_of=ref_case["cfg"]),
                    observed=sorted(impl) if not isinstance(impl, str) else impl, expected=sorted(ref) if not isinstance(ref, str) else ref,
                    site=f"alias:{ref_case['cfg']}:{case['cfg']}"))
    return n


def grid_ops(ctx: Ctx, rng, res: Result, n):
    """qha.tools.arange == model arange bit for bit; dropping four rows of NT+4 leaves NT"""
    import qha.tools
    ops, want = [], []
    for _ in range(n):
        g = gen_grid(rng)
        ops.append({"op": "c15.arange", "start": f2b(g["T_MIN"]), "num": g["NT"] + 4, "step": f2b(g["DT"])})
        want.append([float(x) for x in qha.tools.arange(g["T_MIN"], g["NT"] + 4, g["DT"])])
        ops.append({"op": "c15.arange", "start": f2b(g["P_MIN"]), "num": g["NTV"], "step": f2b(g["DELTA_P"])})
        want.append([float(x) for x in qha.tools.arange(g["P_MIN"], g["NTV"], g["DELTA_P"])])
    for op, ans, w in zip(ops, ctx.driver.ask(ops), want):
        res.evaluations += 1
        if dec(ans) == w: res.traces_validated += 1
        else: res.disagreements.append(Disagreement("c15.arange", op, w, dec(ans)))


def registry_ops(ctx: Ctx, res: Result):
    """the registry of the real ResultsWriter against the model's, keyword by keyword (+ unknown ones)"""
    from cij.io.output.results_writer import ResultsWriter
    reg = ResultsWriter(None).registry
    kws = sorted(set(ALL_KEYWORDS) | set(reg) | {"nonsense", "", "Cij", "cij ", "B_v"})
    for kw, ans in zip(kws, ctx.driver.ask([{"op": "c15.resolve", "kw": k} for k in kws])):
        res.evaluations += 1
        if kw in reg:
            r = reg[kw]
            impl = {"keywords": list(r.keywords), "fname_pattern": r.fname_pattern, "prop": r.prop, "unit": str(r.unit),
                    "unit_internal": str(r.unit_internal), "var_type": r.var_type}
        else:
            impl = "error"
        if impl == ans: res.traces_validated += 1
        else: res.disagreements.append(Disagreement("c15.resolve", kw, impl, ans))
        # oracle: documented keyword <-> accepted keyword
        if (kw in DOC_BY_KW) != (kw in reg):
            res.oracle_failures.append(OracleFailure(what="documented keywords and accepted keywords differ", input={"check": "keyword", "kw": kw},
                                                     observed=kw in reg, expected=kw in DOC_BY_KW, site=f"keyword:{kw}"))


def unit_contract(res: Result):
    u = units_json([])
    from harness.common import b2f
    gpa, ang3 = b2f(u["to_gpa"]), b2f(u["to_ang3"])
    import qha.unit_conversion
    qha_gpa = float(qha.unit_conversion.ry_b3_to_gpa(1.0))
    res.extra["unit_factors"] = {"pint_ry_bohr3_to_gpa": gpa, "codata2022": RY_BOHR3_IN_GPA, "qha": qha_gpa,
                                 "pint_bohr3_to_ang3": ang3, "codata2022_ang3": BOHR3_IN_ANG3,
                                 "pint_times_qha_inverse_minus_1": gpa / qha_gpa - 1.0}
    if abs(gpa / RY_BOHR3_IN_GPA - 1) > UNIT_RTOL or abs(ang3 / BOHR3_IN_ANG3 - 1) > UNIT_RTOL:
        res.contract_failures.append(f"pint factors deviate from CODATA 2022 by more than {UNIT_RTOL}: {gpa}, {ang3}")
    if abs(gpa / qha_gpa - 1) > 1e-9:
        res.contract_failures.append(f"qha and pint GPa factors differ by {gpa / qha_gpa - 1:.3e}")


# ----------------------------------------------------------------------------- entry points
def run(ctx: Ctx) -> Result:
    res = Result()
    rng = ctx.rng
    res.rule = ("a case = (base kind stub/real, base tv/tp, grid (NT,DT,T_MIN,NTV,DELTA_P,P_MIN), in-memory arrays, component list and order, "
                "one output request: keyword or alias as str or dict with optional unit/fname override, optional custom rule list); "
                "an `alternate` case = two such bases and a sequence of (base, request list) steps, each step counted; "
                "distinct = distinct (scenario, request) pairs; non-trivial = the request is valid and writes at least one file")
    for payload in ctx.corpus():
        evaluate(ctx, [payload.get("input", payload)], res)
    unit_contract(res)
    registry_ops(ctx, res)
    grid_ops(ctx, rng, res, 40 if not ctx.thorough() else 400)
    n_sc = 12 if not ctx.thorough() else 80
    n_alias = 0
    nontrivial = 0
    for i in range(n_sc):
        if ctx.time_left() < 60: break
        sc = gen_scenario(rng)
        if i == 0: sc["components"] = list(KEYS21)                    # all 21 components at least once per base
        if i == 1: sc["components"] = list(KEYS21); sc["base"] = "tv" if n_sc and sc["base"] == "tp" else "tp"
        cases = scenario_cases(rng, sc) + malformed_cases(rng, sc) + custom_rule_cases(rng, sc)
        done = evaluate(ctx, cases, res)
        n_alias += alias_check(done, res)
        nontrivial += sum(1 for c, impl, _ in done if not isinstance(impl, str) and len(impl) > 0)
        if i < 3:
            c, impl, info = done[0]
            res.samples.append({"case": {k: c[k] for k in ("base", "grid", "cfg", "components")},
                                "files": sorted(impl) if not isinstance(impl, str) else impl,
                                "first_row": (impl[sorted(impl)[0]]["vals"][0][:3].tolist() if not isinstance(impl, str) and impl else None)})
    done = evaluate(ctx, write_output_cases(rng, 8 if not ctx.thorough() else 60), res)
    nontrivial += sum(1 for c, impl, _ in done if not isinstance(impl, str) and len(impl) > 0)
    evaluate_alternate(ctx, alternate_cases(rng, 10 if not ctx.thorough() else 80), res)
    rc = real_cases(rng, 1 if not ctx.thorough() else 4)
    done = evaluate(ctx, rc, res)
    n_alias += alias_check(done, res)
    nontrivial += sum(1 for c, impl, _ in done if not isinstance(impl, str) and len(impl) > 0)
    if rc and ctx.time_left() > 120:
        evaluate_alternate(ctx, alternate_real_cases(rng, (rc[0]["synth_seed"], rc[0]["grid"])), res)
    nontrivial += res.distribution.get("alternate", {}).get("steps", 0)
    res.distinct_nontrivial = nontrivial
    res.distribution["alias_pairs_compared_bytewise"] = n_alias
    res.distribution["scenarios"] = n_sc
    res.notes.append("label precision: pandas prints row/column labels with 6 decimals; labels are compared at that precision")
    return res


def search(ctx: Ctx, res: Result):
    """tie broken (theorem or model disagreement) and no failing input yet: more scenarios, oracle only"""
    extra = Result()
    rng = numpy.random.Generator(numpy.random.PCG64([ctx.seed, 1515]))
    for d in res.disagreements[:5]:
        if isinstance(d.input, dict) and d.input.get("check"):
            evaluate(ctx, [{k: v for k, v in d.input.items() if k != "step"}], extra, with_model=False)
    evaluate_alternate(ctx, alternate_cases(rng, 20), extra, with_model=False)
    for i in range(40):
        if extra.oracle_failures or ctx.time_left() < 30: break
        sc = gen_scenario(rng)
        done = evaluate(ctx, scenario_cases(rng, sc) + custom_rule_cases(rng, sc), extra, with_model=False)
        alias_check(done, extra)
    return extra.oracle_failures


def replay(ctx: Ctx, payload):
    if payload.get("check") == "keyword":
        from cij.io.output.results_writer import ResultsWriter
        reg = ResultsWriter(None).registry
        kw = payload["kw"]
        if (kw in DOC_BY_KW) != (kw in reg):
            return [OracleFailure(what="documented keywords and accepted keywords differ", input=payload, observed=kw in reg, expected=kw in DOC_BY_KW)]
        return []
    res = Result()
    cases = [payload]
    if payload.get("alias_of"):
        cases.append(dict({k: v for k, v in payload.items() if k != "alias_of"}, cfg=payload["alias_of"]))
    done = evaluate(ctx, cases, res, with_model=False)
    alias_check(done, res)
    return res.oracle_failures
