"""C04 — phonon tensor assembly: complete, request-independent, dependency order, isotropic limit, axis permutation.

A duck-typed stub calculator (random but well-conditioned spectra, no qha) drives the REAL
`PhononContributionTaskList.resolve / calculate / get_*_results` and, through it, the real non-shear and shear
contribution classes.

CORRESPONDENCE (model = lean/CijModel/Tasks.lean at Float): task list (key, calc type, parameter arrays), edge set,
validity of networkx's order, both result dictionaries and both whole stores.  numpy's eigh output per shear key, the
order networkx produced and the values of the real non-shear classes are fed to the model (they are parameters of it).

ORACLES on the real code (independent of tasks.py / shear.py and of the model):
  assembly      every requested key gets a finite value in both dictionaries; `_graph` is a DAG (own DFS), `data`
                respects every edge; every dependency of every task is a task with an edge; every value equals an own
                recursive evaluation of the definition (non-shear: the real non-shear class called directly on own
                parameters; shear: own tensor-algebra formula with numpy.linalg.eigh), adiabatic shear = isothermal shear
  independence  value of a key under request list A (one order) and B (another order, other keys, duplicates) identical
  isotropic     equal axial strains: c11=c22=c33, c12=c13=c23, c44=c55=c66=(c11-c12)/2, other 12 zero
  permutation   the six relabellings of the axes permute the assembled tensor
  orders        ONE key set presented in several orders (as given, reversed, rotated, shuffled): every assembled value identical

Streams added with the translator tie of tasks.py (tools/gens/tasks_src.py): what the tie showed was exercised only by chance —
  hash-collide  non-cubic strain fractions: c11/c22/c33 and the rotated-frame c_i'i' tasks of the shear keys are DISTINCT tasks whose
                `__hash__` values all coincide (e_i ^ e_i cancels); assembly / orders oracles on requests made of exactly these
  same-label    a shear key requested together with the crystal-frame keys that carry the SAME LABELS as its rotated-frame
                dependencies (c44 with c22, c33, c23 …): two tasks per label, different strains; assembly / independence / orders
  params        the real `__eq__` / `__hash__` on pairs of parameters (identical, equal fractions from scaled strains, below the
                tolerance, 1e-9 … 1e-3 apart, other key, other frame) against the model relation (hand-written AND read off the
                translated decision list); hash observations (collisions among unequal, equal-but-different-hash) are counted
  store         histories of `store[(strain, key)] = v` / `store[(strain, key)]` / `store[params]` on two real
                `PhononContributionTaskResults` against the model's stores (first equal entry, per instance, StopIteration)
and the translated work-list program (`c04.resolve_src`) is run next to the hand-written model on every resolve trace.
"""
from __future__ import annotations

import itertools
import types

import numpy

from harness.common import Ctx, Result, Disagreement, OracleFailure, enc, dec_arr, family_close, f2b

ASSUMPTIONS = [
    "PhononContributionTaskParams.__eq__ (numpy.allclose with the tolerances measured on the code on every run: rtol=1e-12, atol=0 "
    "since /repo 45cba45) is treated as an equivalence in the theorems; allclose is neither transitive nor symmetric in general. "
    "The generator contains strain fractions 1e-6…1e-9 apart (distinct tasks that a loose tolerance would merge; the strict "
    "oracles then see a value off by ~1e-6) as well as exactly equal and far-apart ones; strains closer than the measured rtol "
    "are outside what is explored",
    "networkx.topological_sort is a parameter of the model; its output is checked to be a valid order on every case",
    "numpy.linalg.eigh per shear key is a parameter (T, lam) fed to the model. Hypotheses the theorems put on it, all MEASURED on "
    "every run (coverage.measured_contracts, failures in coverage.contract_failures): Contract (TtT=1, TteT=diag lam); "
    "EigEquivariant for the 12 simple-spectrum shear keys under the 6 axis permutations (frame of the relabelled key = relabelled "
    "frame up to the sign of each eigenvector, eigenvalues ascending); DegFrames for c14, c25, c36 and their pure-shear partners "
    "(LAPACK's basis of the double eigenspace contains the coordinate axis). For an arbitrary basis inside that eigenspace the "
    "value of c14/c25/c36 depends on the basis: not covered by a theorem, only by the permutation oracle on the real code",
    "the non-shear values (C01/C02) are parameters `baseIso/baseAdi` of the model: the real classes' outputs are fed in; the "
    "permutation clause needs them symmetric under exchange of the two strain components (measured by the permutation oracle)",
]
TRUSTED_EXTRA = ["the duck-typed stub calculator of harness/c04.py (stands for cij.core.calculator.Calculator: attributes "
                 "nv,np,nq,na,v_array,t_array,freq_array,mode_gamma,qha_input.weights,qha_calculator.volume_base.*,static_p_array)"]

STD = {1: (1, 1), 2: (2, 2), 3: (3, 3), 4: (2, 3), 5: (1, 3), 6: (1, 2)}
VOIGT = {}
for _v, (_i, _j) in STD.items():
    VOIGT[(_i, _j)] = _v
    VOIGT[(_j, _i)] = _v
KEYS21 = [(a, b) for a in range(1, 7) for b in range(a, 7)]
SHEAR15 = [k for k in KEYS21 if k[1] >= 4]
CORR_TOL = 1e-11
ORACLE_TOL = 1e-9
STATS = {"max_corr_err_rel": 0.0, "max_spec_err_rel": 0.0, "max_independence_err_rel": 0.0, "max_isotropy_err_rel": 0.0,
         "max_permutation_err_rel": 0.0, "max_param_err": 0.0}


def canon(i, j, k, l):
    a, b = VOIGT[(i, j)], VOIGT[(k, l)]
    return (a, b) if a <= b else (b, a)


def permute_key(key, perm):
    """perm: axis label i (1..3) -> perm[i-1] (1..3)"""
    (i, j), (k, l) = STD[key[0]], STD[key[1]]
    return canon(perm[i - 1], perm[j - 1], perm[k - 1], perm[l - 1])


# ----------------------------------------------------------------------------- stub calculator
def make_stub(stub):
    """stub = {"seed": int, "nt": .., "ntv": .., "nq": .., "na": ..} -> duck-typed Calculator"""
    rng = numpy.random.Generator(numpy.random.PCG64([int(stub["seed"]), 4004]))
    nt, ntv, nq, na = stub["nt"], stub["ntv"], stub["nq"], stub["na"]
    np_ = 3 * na
    c = types.SimpleNamespace()
    c.nv, c.np, c.nq, c.na = ntv, np_, nq, na
    c.v_array = numpy.linspace(500.0, 420.0, ntv) * float(rng.uniform(0.8, 1.2))
    c.t_array = numpy.linspace(300.0, 300.0 + 400.0 * (nt - 1), nt)
    c.freq_array = rng.uniform(80.0, 1200.0, size=(ntv, nq, np_))
    c.freq_array[:, 0, :3] = 0.0
    g = rng.uniform(0.3, 2.2, size=(ntv, nq, np_))
    c.mode_gamma = (rng.uniform(-1.0, 1.0, size=(ntv, nq, np_)), g, g ** 2)
    w = rng.integers(1, 7, size=nq).astype(float)
    c.qha_input = types.SimpleNamespace(weights=[((0.0, 0.0, 0.1 * n), float(w[n])) for n in range(nq)])
    vb = types.SimpleNamespace(pressures=rng.uniform(-2e-4, 8e-4, size=(nt, ntv)),
                               heat_capacity=rng.uniform(1e-5, 9e-5, size=(nt, ntv)))
    c.qha_calculator = types.SimpleNamespace(volume_base=vb)
    c.static_p_array = rng.uniform(-2e-4, 8e-4, size=ntv)
    return c


def _cij():
    from cij.core.tasks import PhononContributionTaskList
    from cij.util import c_
    return PhononContributionTaskList, c_


def vkey(k):
    return (int(k.v[0]), int(k.v[1]))


# ----------------------------------------------------------------------------- running the real code
def run_real(strain, keys, stub):
    """resolve + calculate on the real classes; returns observations or {"raised": ...}"""
    TL, c_ = _cij()
    calc = make_stub(stub)
    tl = TL(calc)
    strain = numpy.array(strain, dtype=float)
    ks = [c_(*k) for k in keys]
    obs = {"calc": calc, "strain": strain, "keys": [tuple(k) for k in keys]}
    try:
        with numpy.errstate(all="ignore"):
            tl.resolve(strain, ks)
            obs["tl"] = tl
            tasks = list(tl._tasks)
            obs["tasks"] = tasks
            obs["edges"] = sorted((int(a), int(b)) for a, b in tl._graph.edges)
            obs["nodes"] = sorted(int(n) for n in tl._graph.nodes)
            ids = {id(t): n for n, t in enumerate(tasks)}
            obs["order"] = [ids[id(t)] for t in tl.data]
            tl.calculate()
            iso = tl.get_isothermal_results()
            adi = tl.get_adiabatic_results()
        obs["iso"] = {vkey(k): numpy.array(v, dtype=float) for k, v in iso.items()}
        obs["adi"] = {vkey(k): numpy.array(v, dtype=float) for k, v in adi.items()}
        obs["store_iso"] = [numpy.array(v, dtype=float) for v in tl.modulus_isothermal_values.data.values()]
        obs["store_adi"] = [numpy.array(v, dtype=float) for v in tl.modulus_adiabatic_values.data.values()]
        obs["store_keys"] = list(tl.modulus_isothermal_values.data.keys())
    except Exception as ex:
        obs["raised"] = f"{type(ex).__name__}: {ex}"
    return obs


_TOL = {}


def measured_tol():
    """the tolerances the real `PhononContributionTaskParams.__eq__` passes to numpy.allclose RIGHT NOW (recorded by wrapping
    numpy.allclose around one real comparison); exact equality (0, 0) if it does not call allclose at all"""
    if _TOL:
        return _TOL
    from cij.core.tasks import PhononContributionTaskParams as P
    _, c_ = _cij()
    seen = []
    orig = numpy.allclose

    def spy(a, b, rtol=1e-5, atol=1e-8, **kw):
        seen.append((float(rtol), float(atol)))
        return orig(a, b, rtol=rtol, atol=atol, **kw)

    numpy.allclose = spy
    try:
        s_ = numpy.array([[0.2, 0.3, 0.5], [0.25, 0.3, 0.45]])
        for k in ((1, 1), (1, 2), (4, 4)):
            assert P.create(s_, c_(*k)) == P.create(s_.copy(), c_(*k))
    finally:
        numpy.allclose = orig
    tols = sorted(set(seen))
    if not tols:
        tols = [(0.0, 0.0)]
    _TOL.update({"rtol": tols[-1][0], "atol": tols[-1][1], "distinct": len(tols)})
    return _TOL


def eig_table():
    """numpy's own eigh output for the fictitious strain of every shear key, as the real class exposes it"""
    from cij.core.phonon_contribution.shear import ShearElasticModulusPhononContribution as S
    _, c_ = _cij()
    out = []
    for k in SHEAR15:
        s = S(numpy.ones((1, 3)), c_(*k))
        T = numpy.array(s.transformation_matrix, dtype=float)
        L = numpy.diag(numpy.array(s.fictitious_strain_rotated, dtype=float)).copy()
        out.append({"k": list(k), "T": enc(T), "lam": enc(L)})
    return out


def params_canon(t):
    p = t.task_params
    if p.calc_type.name == "SHEAR":
        return {"calc": "SHEAR", "key": list(vkey(p.params[1])), "arr": numpy.array(p.params[0], dtype=float)}
    return {"calc": p.calc_type.name, "arr": numpy.array([p.params[0], p.params[1]], dtype=float)}


def match_tasks(obs, r):
    """bijection impl task index -> model task index by (calc type, shear key, parameter arrays); the numbering of the tasks is
    an internal detail (the property is about the task SET, the edges and the values), so the comparison is modulo renumbering.
    Returns (bijection or None, note)."""
    impl = [params_canon(t) for t in obs["tasks"]]
    model = []
    for m in r["tasks"]:
        mp = m["params"]
        if mp["calc"] == "SHEAR":
            model.append({"calc": "SHEAR", "key": mp["key"], "arr": dec_arr(mp["strain"])})
        else:
            model.append({"calc": mp["calc"], "arr": numpy.array([dec_arr(mp["a"]), dec_arr(mp["b"])])})
    if len(impl) != len(model):
        return None, f"task count {len(impl)} vs {len(model)}"
    used, bij = set(), []
    for n, p in enumerate(impl):
        hit = None
        for j, q in enumerate(model):
            if j in used or q["calc"] != p["calc"] or q.get("key") != p.get("key") or q["arr"].shape != p["arr"].shape:
                continue
            err = float(numpy.max(numpy.abs(q["arr"] - p["arr"]))) if p["arr"].size else 0.0
            if err <= 1e-13 * max(1.0, float(numpy.max(numpy.abs(p["arr"])))):
                STATS["max_param_err"] = max(STATS["max_param_err"], err)
                hit = j; break
        if hit is None:
            return None, f"impl task {n} ({p['calc']} {p.get('key')}) has no counterpart in the model"
        used.add(hit); bij.append(hit)
    return bij, ""


def correspond(ctx, obs, eig, res: Result, short):
    """resolve (+ calculate) of the model on the same inputs; returns the number of agreeing traces"""
    ok = 0
    strain = enc(obs["strain"])
    keys = [list(k) for k in obs["keys"]]
    tol = measured_tol()
    tolw = {"rtol": f2b(tol["rtol"]), "atol": f2b(tol["atol"])}
    r = ctx.driver.ask([{"op": "c04.resolve", "strain": strain, "keys": keys, "eig": eig, **tolw}])[0]
    if "tasks" not in obs:
        res.disagreements.append(Disagreement("c04.resolve", short, obs.get("raised"), "model resolved"))
        return ok
    if r == "out-of-fuel":
        res.disagreements.append(Disagreement("c04.resolve", short, f"{len(obs['tasks'])} tasks", "out-of-fuel"))
        return ok
    rs = ctx.driver.ask([{"op": "c04.resolve_src", "strain": strain, "keys": keys, "eig": eig, **tolw}])[0]
    if rs == "out-of-fuel" or not isinstance(rs, dict) or rs.get("tasks") != r.get("tasks") or rs.get("edges") != r.get("edges"):
        res.disagreements.append(Disagreement("c04.resolve_src", short, "hand-written model: %d tasks" % len(r.get("tasks", [])),
                                              rs if isinstance(rs, str) else "translated program: %d tasks" % len(rs.get("tasks", [])),
                                              "the work-list program translated from tasks.py differs from Tasks.resolve"))
    else:
        res.distribution["translated_program_runs"] += 1
    bij, note = match_tasks(obs, r)
    if bij is None:
        res.disagreements.append(Disagreement("c04.resolve.tasks", short,
                                              [(list(vkey(t.key)), t.calc_type.name) for t in obs["tasks"]][:40],
                                              [(m["key"], m["params"]["calc"]) for m in r["tasks"]][:40], note))
        return ok
    ok += 1
    res.distribution["identity_numbering_runs"] += int(bij == list(range(len(bij))))
    # edges (as a set: DiGraph collapses duplicates), in model numbering; nodes
    medges = sorted({(int(a), int(b)) for a, b in r["edges"]})
    iedges = sorted({(bij[a], bij[b]) for a, b in obs["edges"]})
    if medges != iedges or obs["nodes"] != list(range(len(r["tasks"]))):
        res.disagreements.append(Disagreement("c04.resolve.edges", short, iedges[:60], medges[:60]))
    else:
        ok += 1
    if "order" not in obs:
        return ok
    ncell = 1
    b_iso = [[] for _ in bij]; b_adi = [[] for _ in bij]
    raised_in_base = None
    for n, t in enumerate(obs["tasks"]):
        if t.calc_type.name != "SHEAR":
            try:
                with numpy.errstate(all="ignore"):
                    vi = numpy.array(t.calculator.value_isothermal, dtype=float).reshape(-1)
                    va = numpy.array(t.calculator.value_adiabatic, dtype=float).reshape(-1)
            except Exception as ex:
                raised_in_base = f"{type(ex).__name__}"; break
            ncell = vi.size
            b_iso[bij[n]] = enc(vi); b_adi[bij[n]] = enc(va)
    if raised_in_base:
        return ok
    c = ctx.driver.ask([{"op": "c04.calculate", "strain": strain, "keys": keys, "eig": eig, **tolw,
                         "order": [bij[i] for i in obs["order"]], "cells": ncell, "base_iso": b_iso, "base_adi": b_adi}])[0]
    if "raised" in obs or c == "error":
        if ("raised" in obs) != (c == "error"):
            res.disagreements.append(Disagreement("c04.calculate", short, obs.get("raised", "values"), c if c == "error" else "values"))
        else:
            ok += 1
        return ok
    if c == "out-of-fuel":
        res.disagreements.append(Disagreement("c04.calculate", short, "values", c)); return ok
    if not c["valid_order"]:
        res.disagreements.append(Disagreement("c04.order", short, obs["order"], "model: not a valid order for its edge set"))
    else:
        ok += 1
    scale = max(1e-300, max(float(numpy.max(numpy.abs(v))) for v in obs["store_iso"] + obs["store_adi"]))
    good = True
    for name in ("iso", "adi"):
        mres = {tuple(k): dec_arr(v) for k, v in c[name]}
        if set(mres) != set(obs[name]):
            good = False
            res.disagreements.append(Disagreement("c04.results", short, sorted(obs[name]), sorted(mres), name)); break
        for k, v in obs[name].items():
            g, err, _ = family_close(v.reshape(-1), mres[k], rtol=CORR_TOL, scale=scale)
            if numpy.isfinite(err): STATS["max_corr_err_rel"] = max(STATS["max_corr_err_rel"], err)
            if not g:
                good = False
                res.disagreements.append(Disagreement("c04.results", {**short, "key": list(k), "which": name},
                                                      v.reshape(-1).tolist(), mres[k].tolist(), f"relerr={err:.3g}"))
                break
        if not good: break
        ms = dec_arr(c["store_" + name])
        a = numpy.array([v.reshape(-1) for v in obs["store_" + name]])
        g, err, _ = family_close(a, ms, rtol=CORR_TOL, scale=scale)
        if not g:
            good = False
            res.disagreements.append(Disagreement("c04.store", {**short, "which": name}, a.tolist(), ms.tolist(), f"relerr={err:.3g}"))
            break
    ok += good
    return ok


# ----------------------------------------------------------------------------- independent evaluation of the definition
def own_spec(calc, strain, key, memo, which="iso"):
    """value of (strain, key) by the definition, without tasks.py / shear.py"""
    from cij.core.phonon_contribution import (LongitudinalElasticModulusPhononContribution as Lo,
                                              OffDiagonalElasticModulusPhononContribution as Off)
    sig = (strain.tobytes(), key, which)
    if sig in memo:
        return memo[sig]
    if key[1] <= 3:
        i, k = STD[key[0]][0], STD[key[1]][0]
        tot = strain[:, 0] + strain[:, 1] + strain[:, 2]
        e = (strain[:, i - 1] / tot, strain[:, k - 1] / tot)
        obj = (Lo if key[0] == key[1] else Off)(calc, e)
        with numpy.errstate(all="ignore"):
            val = numpy.array(obj.value_isothermal if which == "iso" else obj.value_adiabatic, dtype=float)
    else:
        # shear: always from ISOTHERMAL ingredients (the code defines the adiabatic shear value as the isothermal one)
        e = numpy.zeros((3, 3))
        for (i, j) in (STD[key[0]], STD[key[1]]):
            e[i - 1, j - 1] = 1.0; e[j - 1, i - 1] = 1.0
        lam, T = numpy.linalg.eigh(e)
        srot = numpy.einsum("ia,vi,ia->va", T, strain, T)
        nzl = [a for a in range(3) if abs(lam[a]) > 1e-8]
        e_rot = 0.0
        for a in nzl:
            for b in nzl:
                e_rot = e_rot + own_spec(calc, srot, canon(a + 1, a + 1, b + 1, b + 1), memo, "iso") * lam[a] * lam[b]
        nz = [(i, j) for i in range(3) for j in range(3) if e[i, j] != 0.0]
        e_orig, mult = 0.0, 0
        for (i, j) in nz:
            for (k, l) in nz:
                kk = canon(i + 1, j + 1, k + 1, l + 1)
                if kk == key:
                    mult += 1
                else:
                    e_orig = e_orig + own_spec(calc, strain, kk, memo, "iso")
        val = (e_rot - e_orig) / mult
    memo[sig] = val
    return val


def has_cycle(n, edges):
    adj = {i: [] for i in range(n)}
    for a, b in edges:
        adj.setdefault(a, []).append(b)
    state = {}
    for s in list(adj):
        if s in state: continue
        stack = [(s, iter(adj[s]))]
        state[s] = 1
        while stack:
            v, it = stack[-1]
            for w in it:
                if state.get(w) == 1: return True
                if w not in state:
                    state[w] = 1; stack.append((w, iter(adj.get(w, [])))); break
            else:
                state[v] = 2; stack.pop()
    return False


def tensor_scale(vals):
    return max(1e-300, max(float(numpy.max(numpy.abs(v))) for v in vals))


def oracle(payload, obs_cache=None):
    """Evaluate one clause on the real code.  Returns list of (what, observed, expected, site)."""
    out = []
    check = payload["check"]
    stub = payload["stub"]
    strain = numpy.array(payload["strain"], dtype=float)

    def real(strain_, keys_):
        if obs_cache is not None:
            sig = (strain_.tobytes(), tuple(map(tuple, keys_)))
            if sig not in obs_cache:
                obs_cache[sig] = run_real(strain_, keys_, stub)
            return obs_cache[sig]
        return run_real(strain_, keys_, stub)

    if check == "assembly":
        keys = [tuple(k) for k in payload["keys"]]
        obs = real(strain, keys)
        if "raised" in obs:
            return [("resolve/calculate raised", obs["raised"], "values for every requested key", "assembly:raised")]
        # complete
        for name in ("iso", "adi"):
            missing = [k for k in keys if k not in obs[name]]
            if missing:
                out.append((f"requested keys without a value ({name})", missing, [], f"assembly:missing:{name}"))
            bad = [k for k, v in obs[name].items() if not numpy.all(numpy.isfinite(v))]
            if bad:
                out.append((f"non-finite value ({name})", bad, [], f"assembly:nonfinite:{name}"))
        # DAG, order respects edges
        n = len(obs["tasks"])
        if has_cycle(n, obs["edges"]):
            out.append(("dependency graph has a cycle", obs["edges"], "a DAG", "assembly:cycle"))
        pos = {t: p for p, t in enumerate(obs["order"])}
        if sorted(obs["order"]) != list(range(n)):
            out.append(("evaluation order is not a permutation of the tasks", obs["order"], n, "assembly:order-perm"))
        else:
            late = [(a, b) for a, b in obs["edges"] if not pos[a] < pos[b]]
            if late:
                a, b = late[0]
                out.append(("a task is evaluated before something it depends on",
                            {"dependency": list(vkey(obs["tasks"][a].key)), "dependant": list(vkey(obs["tasks"][b].key)),
                             "positions": [pos[a], pos[b]]}, "dependency first", "assembly:order"))
        # every dependency of every task is a task, with an edge into the dependant
        from cij.core.tasks import PhononContributionTaskParams as P
        for b, t in enumerate(obs["tasks"]):
            for (s_, k_) in t.get_dependencies():
                p_ = P.create(s_, k_)
                js = [j for j, u in enumerate(obs["tasks"]) if u.task_params == p_]
                if not js or not any((j, b) in set(obs["edges"]) for j in js):
                    out.append(("a dependency is missing from the task list / graph",
                                {"dependant": list(vkey(t.key)), "dependency": list(vkey(k_)), "found": js}, "task and edge present",
                                "assembly:closure"))
                    break
            else:
                continue
            break
        # every value is the definition's value
        memo = {}
        scale = tensor_scale(obs["store_iso"] + obs["store_adi"])
        for which in ("iso", "adi"):
            for k in keys:
                if k not in obs[which]: continue
                with numpy.errstate(all="ignore"):
                    exp = own_spec(obs["calc"], strain, k, memo, which)
                err = float(numpy.max(numpy.abs(obs[which][k] - exp)))
                if numpy.isfinite(err): STATS["max_spec_err_rel"] = max(STATS["max_spec_err_rel"], err / scale)
                if not err <= ORACLE_TOL * scale:
                    out.append((f"value of a requested component differs from its definition ({which})",
                                {"key": list(k), "value": obs[which][k].reshape(-1)[:4].tolist(), "max_abs_err": err},
                                {"definition": numpy.asarray(exp).reshape(-1)[:4].tolist(), "tol": ORACLE_TOL * scale},
                                f"assembly:value:{which}:{'shear' if k[1] >= 4 else 'nonshear'}"))
                    break
        return out

    if check == "independence":
        A = [tuple(k) for k in payload["keysA"]]
        B = [tuple(k) for k in payload["keysB"]]
        oa, ob = real(strain, A), real(strain, B)
        if "raised" in oa or "raised" in ob:
            return [("resolve/calculate raised", oa.get("raised") or ob.get("raised"), "values", "independence:raised")]
        scale = tensor_scale(oa["store_iso"] + ob["store_iso"] + oa["store_adi"] + ob["store_adi"])
        for which in ("iso", "adi"):
            for k in sorted(set(A) & set(B)):
                if k not in oa[which] or k not in ob[which]:
                    out.append(("requested key without a value", list(k), "a value", "independence:missing")); continue
                err = float(numpy.max(numpy.abs(oa[which][k] - ob[which][k])))
                if numpy.isfinite(err): STATS["max_independence_err_rel"] = max(STATS["max_independence_err_rel"], err / scale)
                if not err <= ORACLE_TOL * scale:
                    out.append(("value of a component depends on which other components were requested / their order",
                                {"key": list(k), "A": oa[which][k].reshape(-1)[:4].tolist(), "B": ob[which][k].reshape(-1)[:4].tolist()},
                                {"max_abs_diff": err, "tol": ORACLE_TOL * scale}, f"independence:{which}"))
                    return out
        return out

    if check == "orders":
        keys = [tuple(k) for k in payload["keys"]]
        runs = []
        for perm in payload["orders"]:
            o = real(strain, [keys[i] for i in perm])
            if "raised" in o:
                return [("resolve/calculate raised", o["raised"], "values", "orders:raised")]
            runs.append(o)
        scale = tensor_scale([v for o in runs for v in o["store_iso"] + o["store_adi"]])
        for which in ("iso", "adi"):
            for n, o in enumerate(runs[1:], 1):
                for k in sorted(set(keys)):
                    if k not in o[which] or k not in runs[0][which]:
                        out.append(("requested key without a value", list(k), "a value", "orders:missing")); return out
                    err = float(numpy.max(numpy.abs(o[which][k] - runs[0][which][k])))
                    if numpy.isfinite(err): STATS["max_independence_err_rel"] = max(STATS["max_independence_err_rel"], err / scale)
                    if not err <= ORACLE_TOL * scale:
                        out.append(("value of a component depends on the order of the request list",
                                    {"key": list(k), "order_0": [list(keys[i]) for i in payload["orders"][0]][:21],
                                     "order_n": [list(keys[i]) for i in payload["orders"][n]][:21],
                                     "value_0": runs[0][which][k].reshape(-1)[:4].tolist(), "value_n": o[which][k].reshape(-1)[:4].tolist()},
                                    {"max_abs_diff": err, "tol": ORACLE_TOL * scale}, f"orders:{which}"))
                        return out
        return out

    if check == "isotropic":
        keys = [tuple(k) for k in payload["keys"]]
        obs = real(strain, keys)
        if "raised" in obs:
            return [("resolve/calculate raised", obs["raised"], "values", "isotropic:raised")]
        for which in ("iso", "adi"):
            t = obs[which]
            scale = tensor_scale(list(t.values()))
            exp = {}
            L, O = t[(1, 1)], t[(1, 2)]
            for k in KEYS21:
                if k in ((1, 1), (2, 2), (3, 3)): exp[k] = L
                elif k in ((1, 2), (1, 3), (2, 3)): exp[k] = O
                elif k in ((4, 4), (5, 5), (6, 6)): exp[k] = (L - O) / 2
                else: exp[k] = numpy.zeros_like(L)
            for k in KEYS21:
                err = float(numpy.max(numpy.abs(t[k] - exp[k])))
                if numpy.isfinite(err): STATS["max_isotropy_err_rel"] = max(STATS["max_isotropy_err_rel"], err / scale)
                if not err <= ORACLE_TOL * scale:
                    out.append(("equal axial strains do not give an isotropic tensor",
                                {"key": list(k), "value": t[k].reshape(-1)[:4].tolist()},
                                {"expected": exp[k].reshape(-1)[:4].tolist(), "tol": ORACLE_TOL * scale}, f"isotropic:{which}"))
                    return out
        return out

    if check == "permutation":
        perm = list(payload["perm"])                     # axis i -> perm[i-1]
        keys = [tuple(k) for k in payload.get("keys", KEYS21)]
        s2 = numpy.zeros_like(strain)
        for i in range(3):
            s2[:, perm[i] - 1] = strain[:, i]
        o1 = real(strain, keys)
        o2 = real(s2, [permute_key(k, perm) for k in keys])
        if "raised" in o1 or "raised" in o2:
            return [("resolve/calculate raised", o1.get("raised") or o2.get("raised"), "values", "permutation:raised")]
        for which in ("iso", "adi"):
            scale = tensor_scale(list(o1[which].values()))
            for k in keys:
                pk = permute_key(k, perm)
                err = float(numpy.max(numpy.abs(o1[which][k] - o2[which][pk])))
                if numpy.isfinite(err): STATS["max_permutation_err_rel"] = max(STATS["max_permutation_err_rel"], err / scale)
                if not err <= ORACLE_TOL * scale:
                    out.append(("relabelling the axes does not permute the assembled tensor",
                                {"key": list(k), "permuted_key": list(pk), "perm": perm, "value": o1[which][k].reshape(-1)[:4].tolist()},
                                {"permuted_value": o2[which][pk].reshape(-1)[:4].tolist(), "tol": ORACLE_TOL * scale},
                                f"permutation:{which}:{'degenerate' if k in ((1, 4), (2, 5), (3, 6)) else 'simple'}"))
                    return out
        return out
    raise ValueError(check)


# ----------------------------------------------------------------------------- generators
def gen_stub(rng, small=True):
    st = {"seed": int(rng.integers(0, 2**31 - 1)), "nt": int(rng.integers(1, 4)), "ntv": int(rng.integers(3, 6 if small else 10)),
          "nq": int(rng.integers(1, 4)), "na": int(rng.integers(1, 3))}
    if st["nq"] == 1 and st["na"] == 1:
        st["na"] = 2          # one q-point and one atom: every mode is a Γ-acoustic one, the phonon part (and the adiabatic gap) is identically 0
    return st


def gen_strain(rng, ntv, kind=None, delta=None):
    kind = int(rng.integers(0, 6)) if kind is None else kind
    if kind in (4, 5):
        # NEAR-COINCIDENT strain fractions (relative distance 1e-6 … 1e-9): distinct tasks that a loose `__eq__` would merge.
        #   4: e1 = (e2+e3)/2 * (1+d)  -> the rotated-frame longitudinal task of c44 (strain (e2+e3)/2) vs the task of c11
        #   5: e1 = e2 * (1+d)          -> the tasks of c11 and c22 (and of c13 and c23)
        d = (10.0 ** -rng.uniform(6.0, 9.0) if delta is None else float(delta)) * (1 if rng.random() < 0.5 else -1)
        base = rng.dirichlet([7.0, 7.0, 7.0])
        e2, e3 = float(base[1]), float(base[2])
        e1 = (e2 + e3) / 2 * (1 + d) if kind == 4 else e2 * (1 + d)
        row = numpy.array([e1, e2, e3])
        if rng.random() < 0.5:
            s = numpy.tile(row[None], (ntv, 1))
        else:
            f = 1.0 + 0.05 * numpy.linspace(0.0, 1.0, ntv)[:, None]      # same near-coincidence in every volume row
            s = row[None] * f
        ax = [int(i) for i in rng.permutation(3)] if rng.random() < 0.5 else [0, 1, 2]
        return s[:, ax]
    if kind == 0:      # constant over the volumes, normalised
        s = numpy.tile(rng.dirichlet([7.0, 7.0, 7.0], size=1), (ntv, 1))
    elif kind == 1:    # varying smoothly with volume
        a, b = rng.dirichlet([7.0, 7.0, 7.0]), rng.dirichlet([7.0, 7.0, 7.0])
        x = numpy.linspace(0.0, 1.0, ntv)[:, None]
        s = (1 - x) * a[None] + x * b[None]
    elif kind == 2:    # positive, not normalised
        s = rng.uniform(0.2, 2.0, size=(ntv, 3))
    else:              # two axes equal (hexagonal / tetragonal like)
        a = rng.uniform(0.2, 0.45)
        s = numpy.tile(numpy.array([[a, a, 1 - 2 * a]]), (ntv, 1))
        if rng.random() < 0.5: s = s[:, [2, 0, 1]]
    return s


def gen_keys(rng):
    kind = int(rng.integers(0, 5))
    if kind == 0:
        ks = list(KEYS21)
    elif kind == 1:
        ks = [KEYS21[i] for i in rng.choice(21, size=int(rng.integers(1, 21)), replace=False)]
    elif kind == 2:    # with duplicates
        ks = [KEYS21[i] for i in rng.choice(21, size=int(rng.integers(2, 12)), replace=True)]
    elif kind == 3:    # shear only
        ks = [SHEAR15[i] for i in rng.choice(15, size=int(rng.integers(1, 8)), replace=False)]
    else:              # an orthorhombic-like set
        ks = [(1, 1), (2, 2), (3, 3), (1, 2), (1, 3), (2, 3), (4, 4), (5, 5), (6, 6)]
    ks = [tuple(int(x) for x in k) for k in ks]
    order = rng.permutation(len(ks))
    return [list(ks[i]) for i in order]


def gen_cases(ctx: Ctx):
    rng = ctx.rng
    th = ctx.thorough()
    cases = []
    # all 21 singletons
    stub = gen_stub(rng)
    s = gen_strain(rng, stub["ntv"], 1)
    for k in KEYS21:
        cases.append({"check": "assembly", "strain": s.tolist(), "keys": [list(k)], "stub": stub})
    if th:      # all pairs (ordered both ways for a third of them)
        stub = gen_stub(rng)
        s = gen_strain(rng, stub["ntv"], 2)
        for a, b in itertools.combinations(KEYS21, 2):
            ks = [list(a), list(b)] if rng.random() < 0.66 else [list(b), list(a)]
            cases.append({"check": "assembly", "strain": s.tolist(), "keys": ks, "stub": stub})
    for _ in range(60 if th else 10):
        stub = gen_stub(rng, small=not th)
        s = gen_strain(rng, stub["ntv"])
        cases.append({"check": "assembly", "strain": s.tolist(), "keys": gen_keys(rng), "stub": stub})
    # near-coincident strain fractions, all 21 keys and a request that creates the two nearly equal tasks in both orders
    for n, (kind, delta) in enumerate([(4, 1e-6), (5, 1e-6), (4, 1e-7), (5, 1e-8)] + ([(4, None), (5, None)] * 6 if th else [])):
        stub = gen_stub(rng)
        s = gen_strain(rng, stub["ntv"], kind, delta)
        ks = [list(KEYS21[i]) for i in rng.permutation(21)]
        cases.append({"check": "assembly", "strain": s.tolist(), "keys": ks, "stub": stub, "near": [kind, delta]})
        sub = [[1, 1], [2, 2], [3, 3], [4, 4], [5, 5], [6, 6]]
        cases.append({"check": "independence", "strain": s.tolist(), "keysA": [sub[i] for i in rng.permutation(6)],
                      "keysB": [sub[i] for i in rng.permutation(6)][:int(rng.integers(1, 6))] + [[1, 1]], "stub": stub,
                      "near": [kind, delta]})
    for _ in range(60 if th else 10):
        stub = gen_stub(rng)
        s = gen_strain(rng, stub["ntv"])
        A = gen_keys(rng)
        common = [A[i] for i in rng.choice(len(A), size=min(len(A), int(rng.integers(1, 4))), replace=False)]
        B = [k for k in gen_keys(rng)] + common
        B = [B[i] for i in rng.permutation(len(B))]
        if rng.random() < 0.3: B = common                      # the key alone
        cases.append({"check": "independence", "strain": s.tolist(), "keysA": A, "keysB": B, "stub": stub})
    for _ in range(12 if th else 3):
        stub = gen_stub(rng)
        e = rng.uniform(0.2, 2.0, size=(stub["ntv"], 1)) if rng.random() < 0.5 else numpy.full((stub["ntv"], 1), 1.0 / 3.0)
        s = numpy.tile(e, (1, 3))
        ks = [list(KEYS21[i]) for i in rng.permutation(21)]
        cases.append({"check": "isotropic", "strain": s.tolist(), "keys": ks, "stub": stub})
    cases.extend(gen_tie_cases(ctx))
    perms = [p for p in itertools.permutations((1, 2, 3))]
    for n in range(4 if th else 1):
        stub = gen_stub(rng)
        s = gen_strain(rng, stub["ntv"], 1 if n == 0 else None)
        for p in perms:
            cases.append({"check": "permutation", "strain": s.tolist(), "perm": list(p), "stub": stub,
                          "keys": [list(KEYS21[i]) for i in rng.permutation(21)]})
    return cases


def noncubic_strain(rng, ntv):
    """positive strains whose three fractions are pairwise at least 2e-2 apart in every volume row (no accidental coincidence of
    c11/c22/c33 or of a rotated-frame task with a crystal-frame one)"""
    while True:
        s = gen_strain(rng, ntv, int(rng.integers(0, 3)))
        f = s / s.sum(axis=1, keepdims=True)
        m = (f[:, 1] + f[:, 2]) / 2, (f[:, 0] + f[:, 2]) / 2, (f[:, 0] + f[:, 1]) / 2
        vals = [f[:, 0], f[:, 1], f[:, 2], *m]
        if all(float(numpy.min(numpy.abs(a - b))) > 2e-2 for a, b in itertools.combinations(vals[:3], 2)) and \
                all(float(numpy.min(numpy.abs(vals[i] - vals[3 + i]))) > 1e-2 for i in range(3)):
            return s


def order_variants(rng, n, count):
    base = list(range(n))
    outs = [base, base[::-1], base[n // 2:] + base[:n // 2]]
    while len(outs) < count:
        outs.append([int(i) for i in rng.permutation(n)])
    return outs[:count]


def rotated_labels(key):
    """labels (Voigt pairs) of the rotated-frame and of the original-frame dependencies of a shear key, from the real shear class"""
    from cij.core.phonon_contribution.shear import ShearElasticModulusPhononContribution as S
    _, c_ = _cij()
    o = S(numpy.ones((1, 3)), c_(*key))
    rot = sorted({vkey(k) for k in o.get_modulus_keys_rotated()})
    orig = sorted({vkey(k) for k in o.get_modulus_keys()})
    return rot, orig


def gen_tie_cases(ctx: Ctx):
    """requests aimed at what the translator tie of tasks.py shows: hash collisions of distinct longitudinal tasks, one label in two
    frames, and one key set in several orders"""
    rng, th = ctx.rng, ctx.thorough()
    cases = []
    LONG = [(1, 1), (2, 2), (3, 3)]
    # hash-collide: longitudinal keys + shear keys whose rotated-frame dependencies are longitudinal tasks at another strain
    for n in range(8 if th else 2):
        stub = gen_stub(rng)
        s = noncubic_strain(rng, stub["ntv"])
        sh = [SHEAR15[i] for i in rng.choice(15, size=int(rng.integers(1, 4)), replace=False)]
        ks = [list(k) for k in LONG + [tuple(int(x) for x in k) for k in sh]]
        ks = [ks[i] for i in rng.permutation(len(ks))]
        cases.append({"check": "assembly", "strain": s.tolist(), "keys": ks, "stub": stub, "tie": "hash-collide"})
        cases.append({"check": "orders", "strain": s.tolist(), "keys": ks, "orders": order_variants(rng, len(ks), 3), "stub": stub,
                      "tie": "hash-collide"})
    stub = gen_stub(rng)
    cases.append({"check": "assembly", "strain": noncubic_strain(rng, stub["ntv"]).tolist(), "keys": [list(k) for k in LONG], "stub": stub,
                  "tie": "hash-collide"})
    # same-label: a shear key with the crystal-frame keys labelled like its rotated-frame dependencies
    pool = list(SHEAR15) if th else [(4, 4), (1, 4)] + [SHEAR15[i] for i in rng.choice(15, size=3, replace=False)]
    for K in dict.fromkeys(tuple(int(x) for x in k) for k in pool):
        rot, orig = rotated_labels(K)
        labels = [k for k in rot if k != K]
        if not labels: continue
        stub = gen_stub(rng)
        s = noncubic_strain(rng, stub["ntv"])
        req = [list(K)] + [list(k) for k in labels]
        variants = [req, req[::-1], req[1:] + req[:1]]
        v = variants[int(rng.integers(0, 3))]
        cases.append({"check": "assembly", "strain": s.tolist(), "keys": v, "stub": stub, "tie": "same-label"})
        cases.append({"check": "independence", "strain": s.tolist(), "keysA": v, "keysB": [list(K)], "stub": stub, "tie": "same-label"})
        cases.append({"check": "independence", "strain": s.tolist(), "keysA": v, "keysB": [list(k) for k in labels], "stub": stub,
                      "tie": "same-label"})
        if th or K in ((4, 4), (1, 4)):
            cases.append({"check": "orders", "strain": s.tolist(), "keys": req, "orders": order_variants(rng, len(req), 3), "stub": stub,
                          "tie": "same-label"})
    # one key set, several orders (all 21 and random subsets)
    for n in range(6 if th else 2):
        stub = gen_stub(rng)
        s = gen_strain(rng, stub["ntv"])
        ks = [list(k) for k in KEYS21] if n == 0 else gen_keys(rng)
        cases.append({"check": "orders", "strain": s.tolist(), "keys": ks, "orders": order_variants(rng, len(ks), 4 if th else 3),
                      "stub": stub, "tie": "orders"})
    return cases


# ----------------------------------------------------------------------------- task parameters and result stores, directly
def _enc_param(s, k):
    return {"strain": enc(numpy.array(s, dtype=float)), "key": list(k)}


def perturbed(rng, s, delta):
    """a strain field whose FRACTIONS differ from those of `s` by about `delta` (relative) in every column"""
    w = numpy.array([1.0 + delta, 1.0 - delta * 0.5, 1.0 + delta * 0.25])[[int(i) for i in rng.permutation(3)]]
    return s * w[None, :]


def params_stream(ctx: Ctx, res: Result):
    """the real `PhononContributionTaskParams.__eq__` / `__hash__` against the model relation on generated pairs"""
    from cij.core.tasks import PhononContributionTaskParams as P
    from cij.core.phonon_contribution.shear import ShearElasticModulusPhononContribution as S
    _, c_ = _cij()
    rng, th = ctx.rng, ctx.thorough()
    tol = measured_tol()
    tolw = {"rtol": f2b(tol["rtol"]), "atol": f2b(tol["atol"])}
    D = res.distribution["params"]
    for n in range(24 if th else 6):
        ntv = int(rng.integers(1, 5))
        s = noncubic_strain(rng, ntv) if n % 2 == 0 else gen_strain(rng, ntv)
        K = SHEAR15[int(rng.integers(0, 15))]
        with numpy.errstate(all="ignore"):
            srot = numpy.array(S(s, c_(*K)).strain_rotated, dtype=float)
        fields = [("same", s), ("copy", s.copy()), ("scaled", s * 1.75), ("rotated", srot)]
        for d in (1e-13, 1e-9, 1e-6, 1e-3):
            fields.append((f"d={d:g}", perturbed(rng, s, d)))
        pool = [(name, f, k) for name, f in fields for k in KEYS21]
        pairs = []
        for _ in range(80 if th else 40):
            a = pool[int(rng.integers(0, len(pool)))]
            kind = int(rng.integers(0, 4))
            if kind == 0: b = (a[0], a[1].copy(), a[2])                                  # identical arrays
            elif kind == 1: b = pool[int(rng.integers(0, len(pool)))]                    # anything
            elif kind == 2:                                                              # same key, another field
                nm, f = fields[int(rng.integers(0, len(fields)))]; b = (nm, f, a[2])
            else:                                                                        # same field, another key of the same calc type
                same = [k for k in KEYS21 if (k[1] >= 4) == (a[2][1] >= 4) and ((k[0] == k[1]) == (a[2][0] == a[2][1]) or k[1] >= 4)]
                b = (a[0], a[1], same[int(rng.integers(0, len(same)))])
            pairs.append((a, b))
        ans = ctx.driver.ask([{"op": "c04.eq", **tolw, "pairs": [{"a": _enc_param(a[1], a[2]), "b": _enc_param(b[1], b[2])} for a, b in pairs]}])[0]
        for (a, b), m in zip(pairs, ans):
            pa, pb = P.create(a[1], c_(*a[2])), P.create(b[1], c_(*b[2]))
            try:
                got = bool(pa == pb)
            except Exception as ex:
                got = f"raised {type(ex).__name__}"
            res.evaluations += 1
            D["pairs"] += 1
            short = {"a": {"field": a[0], "key": list(a[2])}, "b": {"field": b[0], "key": list(b[2])}, "strain": s.tolist(), "shear_key": list(K)}
            if got is not m[0] or got is not m[1]:
                res.disagreements.append(Disagreement("c04.eq", short, got, {"hand_written": m[0], "translated": m[1]},
                                                      "PhononContributionTaskParams.__eq__ vs the model relation"))
                continue
            res.traces_validated += 1
            if got is True: D["equal"] += 1
            try:
                ha, hb = hash(pa), hash(pb)
            except Exception as ex:
                res.disagreements.append(Disagreement("c04.hash", short, f"raised {type(ex).__name__}", "a hash")); continue
            identical = a[2] == b[2] and all(numpy.array_equal(numpy.asarray(x), numpy.asarray(y)) for x, y in zip(
                (pa.params if a[2][1] < 4 else pa.params[:1]), (pb.params if b[2][1] < 4 else pb.params[:1])))
            if got is True and identical and ha != hb:
                res.disagreements.append(Disagreement("c04.hash", short, "equal parameters with identical arrays, different hashes",
                                                      "equal hashes (c04_glue_is_source_hash)"))
            if got is True and ha != hb: D["equal_but_hash_differs"] += 1
            if got is False and ha == hb:
                D["unequal_but_hash_equal"] += 1
                if a[2][0] == a[2][1] <= 3 and b[2][0] == b[2][1] <= 3: D["unequal_longitudinal_hash_equal"] += 1
            if got is False and a[0].startswith("d=") != b[0].startswith("d=") and a[2] == b[2]: D["near_pairs_unequal"] += 1


def store_stream(ctx: Ctx, res: Result):
    """histories on two real PhononContributionTaskResults against the model's stores"""
    from cij.core.tasks import PhononContributionTaskParams as P, PhononContributionTaskResults as Rs
    from cij.core.phonon_contribution.shear import ShearElasticModulusPhononContribution as S
    _, c_ = _cij()
    rng, th = ctx.rng, ctx.thorough()
    tol = measured_tol()
    tolw = {"rtol": f2b(tol["rtol"]), "atol": f2b(tol["atol"])}
    D = res.distribution["store"]
    for n in range(20 if th else 5):
        ntv = int(rng.integers(1, 4))
        s = noncubic_strain(rng, ntv)
        K = SHEAR15[int(rng.integers(0, 15))]
        with numpy.errstate(all="ignore"):
            srot = numpy.array(S(s, c_(*K)).strain_rotated, dtype=float)
        far = perturbed(rng, s, 0.2)
        fields = {"orig": s, "rot": srot, "far": far}
        stores = [Rs(), Rs()]
        present = [[], []]                      # (field name, key) already set per store: never set an equal key twice
        ops, real_out = [], []
        for _ in range(int(rng.integers(12, 30))):
            st = int(rng.integers(0, 2))
            fname = ("orig", "rot", "far")[int(rng.integers(0, 3))]
            k = KEYS21[int(rng.integers(0, 21))]
            f = fields[fname]
            if rng.random() < 0.45:
                pnew = P.create(f, c_(*k))
                if any(pnew == P.create(fields[fn], c_(*kk)) for fn, kk in present[st]):
                    continue
                v = float(rng.normal())
                if rng.random() < 0.5: stores[st][(f, c_(*k))] = numpy.array([v])
                else: stores[st][pnew] = numpy.array([v])
                present[st].append((fname, k))
                ops.append({"st": st, "p": _enc_param(f, k), "v": f2b(v)})
                D["sets"] += 1
            else:
                if present[st] and rng.random() < 0.7:          # mostly keys that were stored (in THIS store or in the other one)
                    src_ = present[st] if rng.random() < 0.75 or not present[1 - st] else present[1 - st]
                    fname, k = src_[int(rng.integers(0, len(src_)))]
                    f = fields[fname]
                variant = int(rng.integers(0, 3))
                g = f.copy() if variant == 0 else (perturbed(rng, f, 1e-13) if variant == 1 else f * 2.0)
                try:
                    got = stores[st][(g, c_(*k))] if rng.random() < 0.5 else stores[st][P.create(g, c_(*k))]
                    got = float(numpy.asarray(got).reshape(-1)[0])
                except StopIteration:
                    got = "missing"
                except Exception as ex:
                    got = f"raised {type(ex).__name__}"
                real_out.append(got)
                ops.append({"st": st, "p": _enc_param(g, k)})
                D["gets"] += 1
                D["gets_found"] += int(isinstance(got, float))
        ans = ctx.driver.ask([{"op": "c04.store", **tolw, "ops": ops}])[0]
        model_out = [a if isinstance(a, str) else float(numpy.asarray(dec_arr([a])).reshape(-1)[0]) for a in ans]
        res.evaluations += 1
        if model_out != real_out:
            idx = next((i for i, (x, y) in enumerate(zip(real_out, model_out)) if x != y), None)
            res.disagreements.append(Disagreement("c04.store", {"strain": s.tolist(), "shear_key": list(K), "first_differing_get": idx,
                                                                "ops": len(ops)}, real_out[:40], model_out[:40],
                                                  "PhononContributionTaskResults vs the model's stores"))
        else:
            res.traces_validated += 1
            D["histories_agreeing"] += 1


def evaluate(ctx: Ctx, cases, res: Result, with_model=True):
    eig = eig_table() if with_model else None
    budget_hit = False
    for p in cases:
        if ctx.time_left() < 60:
            budget_hit = True; break
        cache = {}
        res.distribution["checks"][p["check"]] = res.distribution["checks"].get(p["check"], 0) + 1
        if p.get("near"): res.distribution["near_coincident_strain_cases"] += 1
        if p.get("tie"):
            res.distribution["tie_streams"][p["tie"]] = res.distribution["tie_streams"].get(p["tie"], 0) + 1
        if p["check"] == "orders": res.distribution["order_variants_run"] += len(p["orders"])
        try:
            fails = oracle(p, cache)
        except Exception as ex:
            fails = [("oracle could not be evaluated: " + type(ex).__name__ + ": " + str(ex)[:200], None, None, p["check"] + ":exception")]
        for what, obs_, exp, site in fails:
            res.oracle_failures.append(OracleFailure(what, p, obs_, exp, site))
        for sig, obs in cache.items():
            res.distribution["real_runs"] += 1
            res.evaluations += 1
            if "tasks" in obs:
                nt = len(obs["tasks"])
                res.distribution["tasks_max"] = max(res.distribution["tasks_max"], nt)
                res.distribution["tasks_total"] += nt
                res.distribution["edges_total"] += len(obs["edges"])
            ks = obs["keys"]
            bucket = "1" if len(ks) == 1 else "2" if len(ks) == 2 else "3-9" if len(ks) < 10 else "10-20" if len(ks) < 21 else "21+"
            res.distribution["request_sizes"][bucket] = res.distribution["request_sizes"].get(bucket, 0) + 1
            if len(set(ks)) < len(ks): res.distribution["requests_with_duplicates"] += 1
            res.extra.setdefault("_sigs", set()).add(sig)
            if with_model:
                short = {"strain": obs["strain"].tolist(), "keys": [list(k) for k in ks], "stub": p["stub"]}
                res.traces_validated += correspond(ctx, obs, eig, res, short)
                if len(res.samples) < 3 and "iso" in obs and any(k[1] >= 4 for k in ks):
                    k0 = next(k for k in ks if k[1] >= 4)
                    res.samples.append({"check": p["check"], "keys": [list(k) for k in ks][:8], "strain_row0": obs["strain"][0].tolist(),
                                        "stub": p["stub"], "tasks": len(obs["tasks"]), "edges": len(obs["edges"]),
                                        "order_head": obs["order"][:10], "key": list(k0),
                                        "iso_value_cell0": float(obs["iso"][k0].reshape(-1)[0]),
                                        "adi_value_cell0": float(obs["adi"][k0].reshape(-1)[0])})
    if budget_hit:
        res.notes.append("time budget reached before all generated cases ran")



def measure_contracts(res: Result, rng):
    """the hypotheses the C04 theorems put on the parameters of the model, measured on the real libraries"""
    from cij.core.phonon_contribution.shear import ShearElasticModulusPhononContribution as S
    from cij.core.phonon_contribution import OffDiagonalElasticModulusPhononContribution as Off
    _, c_ = _cij()
    frames = {}
    worst = {"orth": 0.0, "diag": 0.0, "equivariance": 0.0, "degenerate_frames": 0.0, "base_symmetry": 0.0}
    for k in SHEAR15:
        o = S(numpy.ones((1, 3)), c_(*k))
        T = numpy.array(o.transformation_matrix, dtype=float)
        L = numpy.diag(numpy.array(o.fictitious_strain_rotated, dtype=float)).copy()
        e = numpy.array(o.fictitious_strain, dtype=float)
        frames[k] = (T, L)
        worst["orth"] = max(worst["orth"], float(numpy.max(numpy.abs(T.T @ T - numpy.eye(3)))))
        worst["diag"] = max(worst["diag"], float(numpy.max(numpy.abs(T.T @ e @ T - numpy.diag(L)))))
    # Contract (c04_isotropic, c04_axis_permutation)
    if worst["orth"] > 1e-12 or worst["diag"] > 1e-12:
        res.contract_failures.append(f"eigh: TtT=1 / TteT=diag violated: {worst['orth']:.3g} {worst['diag']:.3g}")
    # EigEquivariant for the 12 simple shear keys under the 6 axis permutations
    deg = {(1, 4), (2, 5), (3, 6)}
    for perm in itertools.permutations((1, 2, 3)):
        for k in SHEAR15:
            if k in deg: continue
            T, L = frames[k]
            T2, L2 = frames[permute_key(k, perm)]
            P = numpy.zeros((3, 3))
            for i in range(3):
                P[perm[i] - 1] = T[i]                   # rows relabelled: T'(π i, a) = T(i, a)
            dev = float(numpy.max(numpy.abs(L - L2)))
            dev = max(dev, float(numpy.max(numpy.abs(numpy.abs(P) - numpy.abs(T2)))))
            sg = numpy.sign(numpy.sum(P * T2, axis=0))
            dev = max(dev, float(numpy.max(numpy.abs(P * sg[None, :] - T2))))
            worst["equivariance"] = max(worst["equivariance"], dev)
    if worst["equivariance"] > 1e-12:
        res.contract_failures.append(f"EigEquivariant (simple keys, up to sign) violated by {worst['equivariance']:.3g}")
    # DegFrames for c14, c25, c36 and their pure-shear partners (frames contain the coordinate axis)
    for p, (q, r) in ((0, (1, 2)), (1, (0, 2)), (2, (0, 1))):
        kd = (p + 1, p + 4)
        ks = canon(q + 1, r + 1, q + 1, r + 1)
        Td, Ld = frames[kd]
        Ts, Ls = frames[ks]
        Qd = numpy.zeros((3, 3)); Qd[p, 2] = 1.0; Qd[q, 0] = Qd[q, 1] = Qd[r, 0] = Qd[r, 1] = 0.5
        Qs = numpy.zeros((3, 3)); Qs[p, 1] = 1.0; Qs[q, 0] = Qs[q, 2] = Qs[r, 0] = Qs[r, 2] = 0.5
        dev = max(float(numpy.max(numpy.abs(Td ** 2 - Qd))), float(numpy.max(numpy.abs(Ts ** 2 - Qs))),
                  float(numpy.max(numpy.abs(Ld - numpy.array([-1.0, 1.0, 1.0])))),
                  float(numpy.max(numpy.abs(Ls - numpy.array([-1.0, 0.0, 1.0])))))
        worst["degenerate_frames"] = max(worst["degenerate_frames"], dev)
    if worst["degenerate_frames"] > 1e-12:
        res.contract_failures.append(f"DegFrames (LAPACK basis contains the coordinate axis) violated by {worst['degenerate_frames']:.3g}")
    # symmetry of the off-diagonal value under exchange of the two strain components (hsymm)
    stub = {"seed": int(rng.integers(0, 2**31 - 1)), "nt": 2, "ntv": 4, "nq": 2, "na": 2}
    calc = make_stub(stub)
    a, b = rng.uniform(0.2, 0.5, size=4), rng.uniform(0.2, 0.5, size=4)
    with numpy.errstate(all="ignore"):
        o1, o2 = Off(calc, (a, b)), Off(calc, (b, a))
        for x, y in ((o1.value_isothermal, o2.value_isothermal), (o1.value_adiabatic, o2.value_adiabatic)):
            x, y = numpy.array(x, dtype=float), numpy.array(y, dtype=float)
            worst["base_symmetry"] = max(worst["base_symmetry"], float(numpy.max(numpy.abs(x - y)) / max(1e-300, numpy.max(numpy.abs(x)))))
    if worst["base_symmetry"] > 1e-12:
        res.contract_failures.append(f"off-diagonal value not symmetric in its two strain components: {worst['base_symmetry']:.3g}")
    res.extra["measured_contracts"] = worst


def new_result():
    res = Result()
    res.distribution = {"checks": {}, "real_runs": 0, "tasks_max": 0, "tasks_total": 0, "edges_total": 0,
                        "request_sizes": {}, "requests_with_duplicates": 0, "identity_numbering_runs": 0,
                        "near_coincident_strain_cases": 0, "translated_program_runs": 0, "order_variants_run": 0,
                        "tie_streams": {},
                        "params": {"pairs": 0, "equal": 0, "near_pairs_unequal": 0, "unequal_but_hash_equal": 0,
                                   "unequal_longitudinal_hash_equal": 0, "equal_but_hash_differs": 0},
                        "store": {"sets": 0, "gets": 0, "gets_found": 0, "histories_agreeing": 0}}
    return res


def run(ctx: Ctx) -> Result:
    res = new_result()
    res.rule = ("evaluations = real resolve+calculate runs (an oracle case needs one or two of them; cases per clause are in "
                "input_distribution.checks); case = one oracle clause (assembly / independence / isotropic / permutation) on a strain field (constant, varying with "
                "volume, unnormalised, two-axes-equal, all-equal), a request list (all 21 singletons; all 210 pairs in thorough; random "
                "subsets, orders, duplicates) and a random stub calculator; every real resolve+calculate run inside a case is also a "
                "correspondence trace; distinct_nontrivial = distinct (strain field, request list) real runs that created at least one "
                "shear task (so the scheduler had dependencies to order); the `params` stream adds one evaluation per compared pair of "
                "real task parameters (`__eq__`, `__hash__`), the `store` stream one per history on two real result stores; clause `orders` "
                "runs one key set in 3-4 orders; counts of the targeted streams (hash-collide, same-label, orders, params, store) are in "
                "input_distribution")
    for p in ctx.corpus():
        evaluate(ctx, [p["input"] if "input" in p else p], res)
    measure_contracts(res, ctx.rng)
    params_stream(ctx, res)
    store_stream(ctx, res)
    evaluate(ctx, gen_cases(ctx), res)
    sigs = res.extra.pop("_sigs", set())
    res.distinct_nontrivial = sum(1 for (s, ks) in sigs if any(k[1] >= 4 for k in ks))
    res.extra["observed_noise"] = dict(STATS)
    res.extra["task_equality_tolerance_measured_on_the_code"] = dict(measured_tol())
    res.extra["tolerances"] = {"oracle_rel_to_tensor_scale": ORACLE_TOL, "correspondence_rel_to_store_scale": CORR_TOL,
                               "task_parameter_arrays_abs": 1e-13}
    # cap the number of reported sites
    seen, keep = set(), []
    for f in res.oracle_failures:
        if f.site not in seen and len(keep) < 8:
            seen.add(f.site); keep.append(f)
    res.oracle_failures = keep
    return res


def search(ctx: Ctx, res: Result):
    extra = new_result()
    cases = []
    for d in res.disagreements[:10]:
        inp = d.input if isinstance(d.input, dict) else {}
        if "strain" in inp and "keys" in inp and "stub" in inp:
            cases.append({"check": "assembly", "strain": inp["strain"], "keys": inp["keys"], "stub": inp["stub"]})
            cases.append({"check": "independence", "strain": inp["strain"], "keysA": inp["keys"],
                          "keysB": [list(k) for k in KEYS21], "stub": inp["stub"]})
    cases.extend(gen_cases(ctx))
    evaluate(ctx, cases, extra, with_model=False)
    seen, keep = set(), []
    for f in extra.oracle_failures:
        if f.site not in seen and len(keep) < 8:
            seen.add(f.site); keep.append(f)
    return keep


def replay(ctx: Ctx, payload):
    return [OracleFailure(what, payload, obs, exp, site) for what, obs, exp, site in oracle(payload)]
