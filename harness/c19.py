"""C19 — `cij extract` / `cij extract-geotherm` return table values faithfully.

A case = a directory of (T,P) tables written by the REAL writer (stub pressure base of harness/c15.py through
ResultsWriter), and one command line run through click.testing.CliRunner in that directory:
  impl    the real click command's stdout, parsed (pandas display.precision raised to 17 so that the printed
          numbers carry the table values to ~1e-15; a few cases also at the default 6 digits);
  model   lean/CijModel/Extract.lean on the parsed files (spline = its interpolation contract only: table entry
          at a node, undefined elsewhere);
  oracle  the STATEMENT evaluated directly with numpy on the files (own parser): nearest row / column by an
          explicit first-minimum search, labelled by the other axis; geotherm through nodes = the table entries;
          between nodes on tables sampled from a known smooth function at two (thorough: three) resolutions the error
          must shrink by >= 8 per halving of the spacing (fourth order), and tables that ARE polynomials of degree <= 3 in
          each variable must be reproduced to rounding (holds iff the spline is the interpolating bicubic spline:
          Lean contract `ReproducesBicubicsOn`); two invocations in ONE process in different directories must each
          answer from their own directory.
Also compared with the real command: the SOURCE as translated on this run and interpreted by the model
(`c19.src_*` ops: Generated/ExtractSpec.lean through CijModel/ExtractSrc.lean), options left out taking the click
defaults read from the source; on 4x4 tables the model's spline `bicubic44` off the nodes.
"""
from __future__ import annotations

import math
import os
import shutil
import tempfile

import numpy

from harness.common import Ctx, Result, Disagreement, OracleFailure, enc, dec, f2b, jsonable
from harness import c15 as W

ASSUMPTIONS = [
    "glob('{var}_tp_*')[0]: the directory contains only files produced by the writer, so exactly one name matches a documented variable "
    "name (Lean: variable_selects_its_file); glob order is filesystem dependent and is a parameter of the model; variable names contain no glob metacharacters",
    "scipy.interpolate.RectBivariateSpline (bicubic, s=0) is external: assumed to interpolate the table at its nodes (measured on every node case, "
    "rel 1e-9 of the table's scale) and to reproduce tables of degree <= 3 in each variable (measured on uniform writer grids and on "
    "directly written non-uniform grids of every size >= 4x4, rel 1e-9); for 4x4 tables it is modelled exactly (tensor Lagrange form, "
    "proved unique) and compared off the nodes; FITPACK's not-a-knot construction for larger tables is not modelled; convergence for "
    "general smooth functions is measured (error ratio >= 8 per halving of the spacing on a fixed 23x23 lattice), not proved",
    "pandas.DataFrame.to_string is external: the real stdout is parsed; display.precision=17 is set in-process for most cases to read the values back at ~1e-15",
    "variables in one request are distinct; all tables of one directory share the (T,P) grid (they come from one run, C15)",
]
TRUSTED_EXTRA = ["C19: the stdout parser and the numpy oracle in harness/c19.py"]

VAL_RTOL = 1e-11       # printed with 17 decimals
NODE_RTOL = 1e-9       # FITPACK at a node, relative to the table's scale
DEFAULT_PRINT_ATOL = 6e-7   # pandas' default display: 6 decimals in fixed notation for the magnitudes of these tables (< 1e5)
POLY_RTOL = 1e-9       # reproduction of a bicubic table, relative to the table's scale (observed ~1e-15)
ORDER_RATIO = 8.0      # err(h) / err(h/2) for a smooth function (fourth order: 16 asymptotically; observed >= 11.3)

# variable name a user types -> output keyword that produces its file (documented names)
VAR_KEYWORD = {"bm_V": "bm_V", "bm_R": "bm_R", "bm_VRH": "bm_VRH", "G_V": "G_V", "G_R": "G_R", "G_VRH": "G_VRH",
               "v_p": "v_p", "v_s": "v_s", "v": "v"}
for _ij in W.KEYS21:
    VAR_KEYWORD[f"c{_ij}s"] = "cij_s"; VAR_KEYWORD[f"c{_ij}t"] = "cij_t"


# ----------------------------------------------------------------------------- directories of tables
def smooth_f(T, P, k):
    """known smooth function of (T [K], P [GPa]); k selects the variable"""
    t, p = T / 1000.0, P / 100.0
    return (100.0 + 30.0 * k) + 40.0 * p - 25.0 * t + 12.0 * math.sin(1.3 * t + 0.4 * k) * math.cos(1.7 * p) + 9.0 * t * t * p


def poly_coeffs(seed, k):
    """16 coefficients of the polynomial of variable k (degree <= 3 in T/1000 and in P/100), values of scale ~100"""
    r = numpy.random.Generator(numpy.random.PCG64([int(seed), int(k), 4444]))
    c = r.normal(0.0, 20.0, size=(4, 4))
    c[0, 0] += 150.0
    return c


def poly_f(T, P, k, seed):
    c = poly_coeffs(seed, k)
    t, p = T / 1000.0, P / 100.0
    return float(sum(c[a, b] * t ** a * p ** b for a in range(4) for b in range(4)))


def value_k(var):
    """index of the function that fills the table of a (non-cij) variable"""
    return W.VALUE_PROPS.index(W.DOC_BY_KW[VAR_KEYWORD[var]][3])


def write_scenario(sc_case, d):
    sc = {"check": "write", "base": "tp", "grid": sc_case["grid"], "data_seed": sc_case["data_seed"],
          "components": sc_case["components"], "missing": ["pressures"]}
    stub, info = W.make_stub(sc)
    fn = None
    if sc_case.get("smooth"): fn = lambda t, p, k: smooth_f(t, p, k)
    if sc_case.get("poly_seed") is not None: fn = lambda t, p, k: poly_f(t, p, k, sc_case["poly_seed"])
    if fn is not None:
        g = sc_case["grid"]
        T = [g["T_MIN"] + i * g["DT"] for i in range(g["NT"] + 4)]
        P = [g["P_MIN"] + j * g["DELTA_P"] for j in range(g["NTV"])]
        for k, prop in enumerate(W.VALUE_PROPS):
            if prop == "pressures": continue
            q = [x for x in W.DOC if x[3] == prop][0][5]
            fac = W.UNIT_FACTORS[q][W.DOC_UNIT[q]]
            setattr(stub, prop, numpy.array([[fn(t, p, k) / fac for p in P] for t in T]))
    stubs = [stub]
    if sc_case.get("with_tv"):
        # the (T,V) tables of the same run next to the (T,P) ones, as in a real results directory: `<var>_tv_<unit>.txt`
        stubs.append(W.make_stub(dict(sc, base="tv", data_seed=int(sc_case["data_seed"]) + 1))[0])
    cwd = os.getcwd()
    try:
        os.chdir(d)
        for st in stubs: st.write_variables(list(sc_case["keywords"]))
    finally:
        os.chdir(cwd)


def make_dir(case, d):
    """write the tables of the scenario into d with the real writer (`second`: another run's tables on another grid in
    the same directory; `direct`: tables written here, in the writer's layout, on arbitrary (non-uniform) axes)"""
    if case.get("grid") is not None:
        write_scenario(case, d)
    if case.get("second"):
        write_scenario(dict(case["second"], components=case["second"].get("components", [])), d)
    for name, t in (case.get("direct") or {}).items():
        with open(os.path.join(d, name), "w") as fp:
            fp.write("T(K)\\P(GPa) " + " ".join(repr(float(x)) for x in t["cols"]) + "\n")
            for r, row in zip(t["rows"], t["vals"]):
                fp.write(repr(float(r)) + " " + " ".join("%.15e" % float(x) for x in row) + "\n")


def parse_tables(d):
    """own parser of the written files (not pandas.read_table): name -> (rows, cols, matrix); also the (T,V) tables that
    may lie next to the (T,P) ones (the model's directory listing contains them, no variable may select one)"""
    out = {}
    for name in sorted(os.listdir(d)):
        if not name.endswith(".txt") or not ("_tp_" in name or "_tv_" in name): continue
        with open(os.path.join(d, name)) as fp:
            lines = [l.split() for l in fp.read().splitlines() if l.strip()]
        cols = [float(x) for x in lines[0][1:]]
        rows = [float(l[0]) for l in lines[1:]]
        vals = numpy.array([[float(x) for x in l[1:]] for l in lines[1:]], dtype=float).reshape(len(rows), len(cols))
        out[name] = (rows, cols, vals)
    return out


def file_of(tables, var):
    hits = [n for n in tables if n.startswith(var + "_tp_")]
    return hits


# ----------------------------------------------------------------------------- the real commands
def invoke(d, which, args, precision=17, via_group=False):
    import pandas
    from click.testing import CliRunner
    cwd = os.getcwd()
    try:
        os.chdir(d)
        import warnings
        with warnings.catch_warnings():
            warnings.simplefilter("ignore")
            if via_group:                       # `cij extract …` / `cij extract-geotherm …` as registered in cij/cli/cij.py
                from cij.cli.cij import main as cmd
                args = ["extract" if which == "extract" else "extract-geotherm"] + list(args)
            elif which == "extract":
                from cij.cli.extract import main as cmd
            else:
                from cij.cli.geotherm import main as cmd
            if precision is None:
                r = CliRunner().invoke(cmd, args)
            else:
                with pandas.option_context("display.precision", precision):
                    r = CliRunner().invoke(cmd, args)
    finally:
        os.chdir(cwd)
    if r.exception is not None or r.exit_code != 0:
        return "error", (type(r.exception).__name__ if r.exception is not None else f"exit {r.exit_code}")
    return r.output, None


def fnum(s):
    return float("nan") if s == "NaN" else float(s)


def parse_extract(out, nvars, header):
    lines = [l for l in out.splitlines() if l.strip()]
    names = None
    if header:
        names = lines[0].split(); lines = lines[1:]
    idx, cols = [], [[] for _ in range(nvars)]
    for l in lines:
        tok = l.split()
        idx.append(fnum(tok[0]))
        for k in range(nvars): cols[k].append(fnum(tok[1 + k]))
    return names, idx, cols


def parse_geotherm(out, header):
    lines = [l for l in out.splitlines() if l.strip()]
    names = None
    if header:
        names = lines[0].split(); lines = lines[1:]
    rows = [[fnum(x) for x in l.split()] for l in lines]
    ncol = len(rows[0]) if rows else (len(names) if names else 0)
    return names, [[r[k] for r in rows] for k in range(ncol)]


# ----------------------------------------------------------------------------- oracle helpers
def first_nearest(xs, y):
    best, bi = None, None
    for i, x in enumerate(xs):
        dist = abs(x - y)
        if best is None or dist < best: best, bi = dist, i
    return bi


def close(a, b, rtol, scale):
    a, b = numpy.asarray(a, dtype=float), numpy.asarray(b, dtype=float)
    if a.shape != b.shape: return False
    if not numpy.array_equal(numpy.isnan(a), numpy.isnan(b)): return False
    m = ~numpy.isnan(a)
    return bool(numpy.all(numpy.abs(a[m] - b[m]) <= rtol * scale)) if m.any() else True


def eff(rtol, scale):
    """relative tolerance to use with `close(…, scale)`; rtol None = values printed with pandas' default 6 decimals"""
    return rtol if rtol is not None else DEFAULT_PRINT_ATOL * max(1.0, scale / 1e5) / scale


def scale_of(tables, files):
    s = 1.0
    for f in files:
        s = max(s, float(numpy.max(numpy.abs(tables[f][2]))))
    return s


# ----------------------------------------------------------------------------- one case
def run_case(ctx, case, res: Result, ops, pending, with_model=True):
    """evaluates impl + oracle now, queues the model op; returns nothing (fills res / ops / pending)"""
    d = tempfile.mkdtemp(prefix="c19_")
    try:
        make_dir(case, d)
        tables = parse_tables(d)
        if case["cmd"] == "extract":
            args = ["-v", ",".join(case["vars"])]
            if case.get("T") is not None: args += ["-T", repr(float(case["T"]))]
            if case.get("P") is not None: args += ["-P", repr(float(case["P"]))]
            if case.get("hide"): args += ["-h"]
            out, exc = invoke(d, "extract", args, precision=case.get("precision", 17), via_group=bool(case.get("via_group")))
        else:
            gpath = os.path.join(d, "geotherm.in")
            names = case["geo_names"]
            with open(gpath, "w") as fp:
                fp.write(" ".join(names) + "\n")
                for r in range(len(case["geo_cols"][0])):
                    fp.write(" ".join(repr(float(c[r])) for c in case["geo_cols"]) + "\n")
            args = ["-g", "geotherm.in", "-v", ",".join(case["vars"])]
            if case.get("tcol") is not None: args += ["--t-col", case["tcol"]]
            if case.get("pcol") is not None: args += ["--p-col", case["pcol"]]
            if case.get("hide"): args += ["-h"]
            out, exc = invoke(d, "geotherm", args, precision=case.get("precision", 17), via_group=bool(case.get("via_group")))
    finally:
        shutil.rmtree(d, ignore_errors=True)
    res.evaluations += 1
    res.distribution.setdefault("cmd", {}).setdefault(case["cmd"] + (":" + case["kind"] if case.get("kind") else ""), 0)
    res.distribution["cmd"][case["cmd"] + (":" + case["kind"] if case.get("kind") else "")] += 1
    if out == "error":
        res.distribution.setdefault("errors", {}).setdefault(exc, 0); res.distribution["errors"][exc] += 1
    if case.get("via_group"):
        res.distribution["via_group"] = res.distribution.get("via_group", 0) + 1
    rtol = VAL_RTOL if case.get("precision", 17) == 17 else None      # None: absolute DEFAULT_PRINT_ATOL (see eff)
    if rtol is None and any(bool(numpy.any((numpy.abs(t[2]) < 1e-5) & (t[2] != 0.0))) for t in tables.values()):
        rtol = 2e-6       # a tiny non-zero entry makes pandas print the column in scientific notation (6 significant decimals)
    dir_json = [[n, {"rows": enc(t[0]), "cols": enc(t[1]), "vals": enc(t[2])}] for n, t in sorted(tables.items())]

    if case["cmd"] == "extract":
        nv = len(case["vars"])
        impl = "error" if out == "error" else parse_extract(out, nv, not case.get("hide"))
        # ---------------- oracle
        fail = None
        if not (case.get("expect_error") or case.get("oracle_skip")):
            files = [file_of(tables, v) for v in case["vars"]]
            if impl == "error":
                fail = ("valid extract request failed", exc, "a table", "extract:raises")
            elif any(len(f) != 1 for f in files):
                fail = ("variable does not select exactly one file", files, "one file per variable", "extract:glob")
            else:
                files = [f[0] for f in files]
                sc = scale_of(tables, files)
                names, idx, cols = impl
                if names is not None and names != case["vars"]:
                    fail = ("column headers are not the requested variables", names, case["vars"], "extract:header")
                for k, f in enumerate(files):
                    if fail: break
                    rows, cs, vals = tables[f]
                    if case.get("T") is not None:
                        i = first_nearest(rows, case["T"]); want, lab, axis = vals[i, :], cs, "T"
                    else:
                        j = first_nearest(cs, case["P"]); want, lab, axis = vals[:, j], rows, "P"
                    if not close(idx, lab, 1e-12, max(1.0, max(map(abs, lab)))):
                        fail = (f"-{axis}: output is not labelled by the other coordinate", idx, list(lab), f"extract:-{axis}:labels")
                    elif not close(cols[k], want, eff(rtol, sc), sc):
                        fail = (f"-{axis}: column {case['vars'][k]} is not the nearest table {'row' if axis == 'T' else 'column'}",
                                cols[k], list(map(float, want)), f"extract:-{axis}:values")
        if fail and len(res.oracle_failures) < 12 and fail[3] not in {f.site for f in res.oracle_failures}:
            res.oracle_failures.append(OracleFailure(what=fail[0], input=jsonable(case), observed=jsonable(fail[1]), expected=jsonable(fail[2]), site=fail[3]))
        if with_model:
            op = {"op": "c19.extract", "dir": dir_json, "vars": case["vars"]}
            if case.get("T") is not None: op["T"] = f2b(case["T"])
            if case.get("P") is not None: op["P"] = f2b(case["P"])
            ops.append(op); pending.append(("c19.extract", case, impl, tables, rtol))
            ops.append(dict(op, op="c19.src_extract")); pending.append(("c19.src_extract", case, impl, tables, rtol))
        return

    # ---------------- geotherm
    impl = "error" if out == "error" else parse_geotherm(out, not case.get("hide"))
    fail = None
    ngeo = len(case["geo_names"])
    if not (case.get("expect_error") or case.get("oracle_skip")):
        files = [file_of(tables, v) for v in case["vars"]]
        if impl == "error":
            fail = ("valid geotherm request failed", exc, "a table", "geotherm:raises")
        else:
            files = [f[0] for f in files]
            names, cols = impl
            want_names = case["geo_names"] + case["vars"]
            if names is not None and names != want_names:
                fail = ("columns are not the geotherm's own columns followed by the variables", names, want_names, "geotherm:header")
            elif len(cols) != len(want_names):
                fail = ("number of columns", len(cols), len(want_names), "geotherm:header")
            else:
                for k in range(ngeo):
                    if not close(cols[k], case["geo_cols"][k], 1e-13, max(1.0, max(map(abs, case["geo_cols"][k])))):
                        fail = ("geotherm's own column not passed through unchanged", cols[k], case["geo_cols"][k], "geotherm:passthrough"); break
            if not fail:
                # which geotherm columns are temperature / pressure: by the documented meaning of the options
                # (--t-col: "name of geotherm pressure column", default P; --p-col: "... temperature column", default T)
                pres_name = case["tcol"] if case.get("tcol") is not None else "P"
                temp_name = case["pcol"] if case.get("pcol") is not None else "T"
                Tg = case["geo_cols"][case["geo_names"].index(temp_name)]
                Pg = case["geo_cols"][case["geo_names"].index(pres_name)]
                for k, f in enumerate(files):
                    rows, cs, vals = tables[f]
                    got = cols[ngeo + k]
                    sc = float(numpy.max(numpy.abs(vals))) or 1.0
                    if case["kind"] == "nodes":
                        want = [float(vals[rows.index(t), cs.index(p)]) for t, p in zip(Tg, Pg)]
                        if not close(got, want, NODE_RTOL, sc):
                            fail = (f"geotherm through grid nodes: {case['vars'][k]} is not the table entry", got, want, "geotherm:nodes"); break
                    elif case["kind"] == "crossed":
                        pass    # option names read literally (--t-col T --p-col P): only model correspondence, see notes
                    elif case["kind"] == "poly":
                        # the table IS a polynomial of degree <= 3 in each variable: an interpolating bicubic spline returns it
                        if case.get("direct"): want = [poly_f(t, p, case["direct"][f]["k"], case["poly_seed"]) for t, p in zip(Tg, Pg)]
                        else: want = [poly_f(t, p, value_k(case["vars"][k]), case["poly_seed"]) for t, p in zip(Tg, Pg)]
                        err = float(numpy.max(numpy.abs(numpy.array(got) - numpy.array(want)))) / sc if len(got) == len(want) else float("inf")
                        st = res.distribution.setdefault("bicubic", {"tables": 0, "4x4": 0, "direct_nonuniform": 0, "points": 0, "max_rel_err": 0.0})
                        st["tables"] += 1; st["points"] += len(want); st["max_rel_err"] = max(st["max_rel_err"], err)
                        if len(rows) == 4 and len(cs) == 4: st["4x4"] += 1
                        if case.get("direct"): st["direct_nonuniform"] += 1
                        if not close(got, want, POLY_RTOL, sc):
                            # NOT the property's statement ("converges", exact only AT nodes) but the CONTRACT the model assumes of the
                            # spline (ReproducesBicubicsOn): a mismatch is a broken correspondence, to be searched, not a violation by itself
                            if len(res.disagreements) < 12:
                                res.disagreements.append(Disagreement("c19.contract.reproduces_bicubics",
                                                                      jsonable({k_: v_ for k_, v_ in case.items() if not k_.startswith("_")}),
                                                                      jsonable(got), jsonable(want),
                                                                      note=f"table of degree <= 3 in T and P is not reproduced between the nodes ({case['vars'][k]})"))
                            break
                    else:   # smooth tables: error against the generating function
                        kk = value_k(case["vars"][k])
                        truth = [smooth_f(t, p, kk) for t, p in zip(Tg, Pg)]
                        err = float(numpy.max(numpy.abs(numpy.array(got) - numpy.array(truth))))
                        case.setdefault("_errors", []).append(err)
    if fail and len(res.oracle_failures) < 12 and fail[3] not in {f.site for f in res.oracle_failures}:
        res.oracle_failures.append(OracleFailure(what=fail[0], input=jsonable({k: v for k, v in case.items() if not k.startswith("_")}),
                                                 observed=jsonable(fail[1]), expected=jsonable(fail[2]), site=fail[3]))
    shapes44 = bool(tables) and all(len(t[0]) == 4 and len(t[1]) == 4 for t in tables.values())
    if with_model and (case["kind"] in ("nodes", "crossed") or (case["kind"] == "poly" and shapes44)):
        op = {"op": "c19.geotherm", "dir": dir_json, "vars": case["vars"],
              "geo": [[n, enc(c)] for n, c in zip(case["geo_names"], case["geo_cols"])],
              "tcol": case["tcol"] if case.get("tcol") is not None else "P",
              "pcol": case["pcol"] if case.get("pcol") is not None else "T"}
        if case["kind"] == "poly": op["spline"] = "bicubic44"      # 4x4: the model's spline is defined off the nodes too
        ops.append(op); pending.append(("c19.geotherm", case, impl, tables, rtol))
        # the source as translated now; options that were not given are left out: click's defaults as read from the source
        sop = dict(op, op="c19.src_geotherm", tcol=case.get("tcol"), pcol=case.get("pcol"))
        ops.append(sop); pending.append(("c19.src_geotherm", case, impl, tables, rtol))


def compare_model(res: Result, pending, answers):
    for (opname, case, impl, tables, rtol), ans in zip(pending, answers):
        clean = jsonable({k: v for k, v in case.items() if not k.startswith("_")})
        if case["cmd"] == "extract":
            if ans == "error" or impl == "error":
                ok = (ans == "error") and (impl == "error")
                note = "outcome"
            else:
                names, idx, cols = impl
                midx = dec(ans["index"])
                mcols = [[float("nan") if x is None else dec(x) for x in c[1]] for c in ans["cols"]]
                sc = max([1.0] + [abs(x) for c in mcols for x in c if x == x])
                ok = [c[0] for c in ans["cols"]] == case["vars"] and close(idx, midx, 1e-12, max([1.0] + [abs(x) for x in midx])) and \
                    len(cols) == len(mcols) and all(close(a, b, eff(rtol, sc), sc) for a, b in zip(cols, mcols))
                note = "table"
            if ok: res.traces_validated += 1
            else: res.disagreements.append(Disagreement(opname, clean, jsonable(impl), jsonable(ans), note=note))
        else:
            if ans == "error" or impl == "error":
                ok = (ans == "error") and (impl == "error")
            else:
                names, cols = impl
                mnames = [c[0] for c in ans]
                mcols = [dec(c[1]) for c in ans]
                sc = max([1.0] + [abs(x) for c in mcols for x in c if x == x])
                ok = (names is None or names == mnames) and len(cols) == len(mcols) and \
                    all(close(a, b, NODE_RTOL, sc) for a, b in zip(cols, mcols))
            if ok: res.traces_validated += 1
            else: res.disagreements.append(Disagreement(opname, clean, jsonable(impl), jsonable(ans)))


# ----------------------------------------------------------------------------- generators
def gen_dir(rng, min_n=1):
    g = W.gen_grid(rng)
    g["NT"] = max(g["NT"], min_n); g["NTV"] = max(g["NTV"], min_n)
    comps = [W.KEYS21[i] for i in rng.permutation(21)[:int(rng.integers(1, 6))]]
    kws = ["cij_s", "cij_t"] + [k for k in ["bm_V", "bm_VRH", "bm_R", "G_V", "G_VRH", "v_p", "v_s", "v"] if rng.random() < 0.75]
    if "v" not in kws: kws.append("v")
    if "v_p" not in kws: kws.append("v_p")           # `v` must not pick up v_p's file
    if "bm_V" not in kws: kws.append("bm_V")
    if "bm_VRH" not in kws: kws.append("bm_VRH")
    variables = [f"c{ij}{s}" for ij in comps for s in "st"] + [k for k in kws if not k.startswith("cij")]
    dsc = {"grid": g, "data_seed": int(rng.integers(0, 2 ** 31)), "components": comps, "keywords": kws}
    if rng.random() < 0.4: dsc["with_tv"] = True
    return dsc, variables


def grid_axes(g):
    T = [float(g["T_MIN"] + i * g["DT"]) for i in range(g["NT"])]
    P = [float(g["P_MIN"] + j * g["DELTA_P"]) for j in range(g["NTV"])]
    return T, P


def pick_request(rng, axis):
    """a requested value on, between (incl. exact midpoints = ties) and beyond the grid"""
    r = rng.random()
    n = len(axis)
    if r < 0.3: return axis[rng.integers(n)]
    if r < 0.45 and n > 1:
        i = int(rng.integers(n - 1)); return 0.5 * (axis[i] + axis[i + 1])
    if r < 0.75 and n > 1:
        i = int(rng.integers(n - 1)); return axis[i] + float(rng.uniform(0.02, 0.98)) * (axis[i + 1] - axis[i])
    if r < 0.87: return axis[0] - float(rng.uniform(0.1, 50.0))
    return axis[-1] + float(rng.uniform(0.1, 500.0))


def extract_cases(rng, n_dirs, per_dir):
    out = []
    for _ in range(n_dirs):
        dsc, variables = gen_dir(rng)
        T, P = grid_axes(dsc["grid"])
        # printed labels carry 6 decimals: the file's own labels are what the command sees
        for _ in range(per_dir):
            nv = int(rng.integers(1, 6))
            vs = [variables[i] for i in rng.permutation(len(variables))[:nv]]
            if rng.random() < 0.3 and "v" in variables and "v_p" in variables: vs = list(dict.fromkeys(["v", "v_p"] + vs))[:max(nv, 2)]
            if rng.random() < 0.3: vs = list(dict.fromkeys(["bm_V", "bm_VRH"] + vs))[:max(nv, 2)]
            c = dict(dsc, cmd="extract", vars=vs)
            if rng.random() < 0.5: c["T"] = float(pick_request(rng, T))
            else: c["P"] = float(pick_request(rng, P))
            if rng.random() < 0.15: c["hide"] = True
            if rng.random() < 0.1: c["precision"] = None
            if rng.random() < 0.15: c["via_group"] = True
            out.append(c)
        # both given: -T wins; malformed: neither, unknown variable
        out.append(dict(dsc, cmd="extract", vars=[variables[0]], T=float(T[0]), P=float(P[-1])))
        out.append(dict(dsc, cmd="extract", vars=[variables[0]], expect_error=True))
        out.append(dict(dsc, cmd="extract", vars=[variables[0], "nosuchvar"], T=float(T[0]), expect_error=True))
    return out


def round_step(x):
    """a grid step rounded to two decimals — unless that would change it by more than 1 % (fine grids such as DELTA_P = 0.005 or
    0.0625 would collapse to a constant or coarser axis): then the step is kept as it is"""
    r = float(numpy.round(x, 2))
    return r if r > 0 and abs(r - x) <= 0.01 * abs(x) else float(x)


def tie_cases(rng, n):
    """requests EXACTLY midway between two neighbouring grid values on grids with exactly representable labels:
    |a - y| == |b - y| in floating point, numpy.argmin returns the first (lower) one"""
    out = []
    for _ in range(n):
        g = {"NT": int(rng.integers(2, 8)), "DT": [50, 100, 25, 12.5][rng.integers(4)], "T_MIN": [0, 300, 250][rng.integers(3)],
             "NTV": int(rng.integers(2, 8)), "DELTA_P": [0.5, 2.5, 5.0, 10.0, 0.25][rng.integers(5)], "P_MIN": [0.0, -5.0, 10.0, 1.5][rng.integers(4)]}
        T, P = grid_axes(g)
        dsc = {"grid": g, "data_seed": int(rng.integers(0, 2 ** 31)), "components": ["11", "12"], "keywords": ["cij_s", "bm_V", "v", "v_p"]}
        for ax, key in ((T, "T"), (P, "P")):
            i = int(rng.integers(len(ax) - 1))
            y = 0.5 * (ax[i] + ax[i + 1])
            assert abs(ax[i] - y) == abs(ax[i + 1] - y)
            out.append(dict(dsc, cmd="extract", kind="tie", vars=["c11s", "bm_V", "v"][:int(rng.integers(1, 4))], **{key: float(y)}))
    return out


def thin_cases(rng, n):
    """single-row, single-column and 1x1 tables, requests on / below / above the only label, both -T and -P"""
    out = []
    for k in range(n):
        nt, ntv = [(1, int(rng.integers(2, 7))), (int(rng.integers(2, 7)), 1), (1, 1)][k % 3]
        g = W.gen_grid(rng); g["NT"], g["NTV"] = nt, ntv
        T, P = grid_axes(g)
        dsc = {"grid": g, "data_seed": int(rng.integers(0, 2 ** 31)), "components": ["11", "44"], "keywords": ["cij_t", "bm_VRH", "v_s"]}
        for key, ax in (("T", T), ("P", P)):
            y = [ax[0], ax[0] - float(rng.uniform(0.1, 30.0)), ax[-1] + float(rng.uniform(0.1, 300.0)), float(pick_request(rng, ax))][int(rng.integers(4))]
            out.append(dict(dsc, cmd="extract", kind="thin", vars=["c11t", "bm_VRH", "v_s"][:int(rng.integers(1, 4))], **{key: float(y)}))
    return out


def mixed_grid_cases(rng, n):
    """one request over variables whose tables live on DIFFERENT grids (two runs written into one directory).  Outside the
    property's quantifier (tables of one run share the grid): correspondence with the model only — the index is that of
    the LAST variable, the others are aligned by label (NaN where the label is missing)."""
    out = []
    for _ in range(n):
        g1 = {"NT": int(rng.integers(2, 7)), "DT": 100.0, "T_MIN": 0.0, "NTV": int(rng.integers(2, 6)), "DELTA_P": 10.0, "P_MIN": 0.0}
        g2 = {"NT": int(rng.integers(2, 7)), "DT": [50.0, 100.0, 200.0][rng.integers(3)], "T_MIN": [0.0, 100.0][rng.integers(2)],
              "NTV": int(rng.integers(2, 6)), "DELTA_P": [5.0, 10.0, 20.0][rng.integers(3)], "P_MIN": [0.0, 10.0][rng.integers(2)]}
        base = {"grid": g1, "data_seed": int(rng.integers(0, 2 ** 31)), "components": ["11"], "keywords": ["cij_s", "bm_V"],
                "second": {"grid": g2, "data_seed": int(rng.integers(0, 2 ** 31)), "components": [], "keywords": ["v_p", "v"]}}
        vs = [["c11s", "v_p"], ["v", "bm_V"], ["bm_V", "v_p", "c11s", "v"]][int(rng.integers(3))]
        T1, P1 = grid_axes(g1)
        c = dict(base, cmd="extract", kind="mixed", vars=vs, oracle_skip=True)
        if rng.random() < 0.5: c["T"] = float(pick_request(rng, T1))
        else: c["P"] = float(pick_request(rng, P1))
        out.append(c)
    return out


def twice_cases(rng, n):
    """two invocations in ONE process, one after the other, in two DIFFERENT directories holding tables of the same
    variables: each must answer from its own directory"""
    out = []
    for k in range(n):
        dA, variables = gen_dir(rng, min_n=4)
        dB = dict(dA, data_seed=int(rng.integers(0, 2 ** 31)))
        same_grid = bool(rng.random() < 0.5)
        if not same_grid:
            g = dict(dA["grid"]); g["NT"] = max(4, int(rng.integers(4, 9))); g["NTV"] = max(4, int(rng.integers(4, 8))); g["T_MIN"] = g["T_MIN"] + 7.0
            dB["grid"] = g
        vs = [variables[i] for i in rng.permutation(len(variables))[:int(rng.integers(1, 4))]]
        pair = []
        for dsc in (dA, dB):
            T, P = grid_axes(dsc["grid"])
            if k % 2 == 0:
                c = dict(dsc, cmd="extract", vars=vs)
                if k % 4 == 0: c["T"] = float(T[len(T) // 2])
                else: c["P"] = float(P[len(P) // 2])
            else:
                for key in ("DT", "DELTA_P"): dsc["grid"][key] = round_step(dsc["grid"][key])
                T, P = grid_axes(dsc["grid"])
                npts = 3
                Tg = [float(numpy.round(T[int(rng.integers(len(T)))], 6)) for _ in range(npts)]
                Pg = [float(numpy.round(P[int(rng.integers(len(P)))], 6)) for _ in range(npts)]
                c = dict(dsc, cmd="geotherm", kind="nodes", vars=vs, geo_names=["P", "T"], geo_cols=[Pg, Tg], labels_from_file=True)
            pair.append(c)
        out.append({"check": "twice", "same_grid": same_grid, "cases": pair})
    return out


def geotherm_node_cases(rng, n_dirs, per_dir):
    out = []
    for kdir in range(n_dirs + 1):
        dsc, variables = gen_dir(rng, min_n=4)
        if kdir == n_dirs:
            # one FINE temperature grid (DT = 5 K over 3000+ K: 600+ rows, what a production run with DT_SAMPLE = DT writes): every
            # tabulated (T, P) is a node of the table, however many rows it has
            dsc["grid"].update({"NT": int(600 + rng.integers(0, 40)), "DT": 5.0, "T_MIN": 0.0, "NTV": int(rng.integers(4, 7))})
            dsc["components"] = dsc["components"][:1]
            dsc["keywords"] = ["cij_s", "bm_V", "bm_VRH", "v", "v_p"]
            dsc.pop("with_tv", None)
            variables = [f"c{dsc['components'][0]}s", "bm_V", "bm_VRH"]
        dsc["grid"]["DT"] = round_step(dsc["grid"]["DT"]); dsc["grid"]["DELTA_P"] = round_step(dsc["grid"]["DELTA_P"])
        d = tempfile.mkdtemp(prefix="c19g_")
        try:
            make_dir(dict(dsc), d)
            tabs = parse_tables(d)
        finally:
            shutil.rmtree(d, ignore_errors=True)
        rows, cs, _ = next(t for n, t in sorted(tabs.items()) if "_tp_" in n)          # the labels as printed in the files are the nodes
        # a path along the rim of the window: last T row, last P column, first row, first column, the four corners
        mid_t = [rows[int(rng.integers(len(rows)))] for _ in range(4)]
        mid_p = [cs[int(rng.integers(len(cs)))] for _ in range(4)]
        Tg = [rows[-1], mid_t[0], rows[0], mid_t[1], rows[0], rows[0], rows[-1], rows[-1], rows[-1], mid_t[2]]
        Pg = [mid_p[0], cs[-1], mid_p[1], cs[0], cs[0], cs[-1], cs[0], cs[-1], mid_p[2], cs[-1]]
        out.append(dict(dsc, cmd="geotherm", kind="nodes", edges=True, vars=[variables[i] for i in rng.permutation(len(variables))[:2]],
                        geo_names=["T", "P"], geo_cols=[Tg, Pg]))
        for _ in range(per_dir):
            n = int(rng.integers(1, 9))
            Tg = [rows[rng.integers(len(rows))] for _ in range(n)]
            Pg = [cs[rng.integers(len(cs))] for _ in range(n)]
            D = [float(numpy.round(rng.uniform(0, 2900), 1)) for _ in range(n)]
            nv = int(rng.integers(1, 5))
            vs = [variables[i] for i in rng.permutation(len(variables))[:nv]]
            c = dict(dsc, cmd="geotherm", kind="nodes", vars=vs)
            r = rng.random()
            if r < 0.6:
                order = [("P", Pg), ("D", D), ("T", Tg)]
                perm = rng.permutation(3) if rng.random() < 0.5 else [0, 1, 2]
                order = [order[i] for i in perm]
                if rng.random() < 0.3: order = [o for o in order if o[0] != "D"]
            else:
                # explicitly named columns, as the help strings document: --t-col = pressure column, --p-col = temperature column
                order = [("Depth", D), ("Temp", Tg), ("Pres", Pg)]
                c["tcol"], c["pcol"] = "Pres", "Temp"
            c["geo_names"] = [o[0] for o in order]; c["geo_cols"] = [o[1] for o in order]
            if rng.random() < 0.15: c["hide"] = True
            if rng.random() < 0.15: c["via_group"] = True
            out.append(c)
    return out


NICE = {"DT": [25.0, 50.0, 100.0, 125.0, 37.5], "T_MIN": [0.0, 300.0, 250.0], "DELTA_P": [0.5, 2.5, 5.0, 10.0, 0.25, 1.0],
        "P_MIN": [0.0, -5.0, 10.0, 1.5]}     # labels exactly representable and printed exactly by the writer


def poly_cases(rng, n):
    """tables that ARE polynomials of degree <= 3 in T and in P (written by the real writer on uniform grids with exactly
    printed labels, or written directly on NON-uniform axes), geotherm points anywhere inside the window (and some nodes):
    the interpolating bicubic spline reproduces them to rounding.  Sizes from 4x4 (one polynomial piece) upwards."""
    out = []
    for k in range(n):
        shape = [(4, 4), (4, int(rng.integers(5, 9))), (int(rng.integers(5, 10)), 4), (int(rng.integers(5, 12)), int(rng.integers(5, 10)))][k % 4]
        seed = int(rng.integers(0, 2 ** 31))
        npts = int(rng.integers(4, 12))
        vs = [["bm_V", "G_VRH", "v_s"], ["v_p"], ["bm_R", "v"]][int(rng.integers(3))]
        if k % 3 != 2:
            g = {"NT": shape[0], "NTV": shape[1]}
            for key, vals in NICE.items(): g[key] = vals[int(rng.integers(len(vals)))]
            T, P = grid_axes(g)
            c = {"grid": g, "data_seed": 1, "components": ["11"], "keywords": sorted(set(VAR_KEYWORD[v] for v in vs)), "poly_seed": seed}
        else:
            T = numpy.sort(numpy.round(rng.uniform(0.0, 3000.0, size=shape[0]), 2)); P = numpy.sort(numpy.round(rng.uniform(-10.0, 200.0, size=shape[1]), 3))
            while numpy.min(numpy.diff(T)) < 20.0: T = numpy.sort(numpy.round(rng.uniform(0.0, 3000.0, size=shape[0]), 2))
            while numpy.min(numpy.diff(P)) < 1.0: P = numpy.sort(numpy.round(rng.uniform(-10.0, 200.0, size=shape[1]), 3))
            T, P = [float(x) for x in T], [float(x) for x in P]
            direct = {}
            for v in vs:
                kk = value_k(v)
                d = W.DOC_BY_KW[VAR_KEYWORD[v]]
                direct[f"{d[1]}_tp_{d[2]}.txt"] = {"rows": T, "cols": P, "k": kk, "vals": [[poly_f(t, p, kk, seed) for p in P] for t in T]}
            c = {"grid": None, "direct": direct, "poly_seed": seed}
        Tg = [float(numpy.round(rng.uniform(T[0], T[-1]), 3)) for _ in range(npts)] + [T[int(rng.integers(len(T)))], T[-1], T[0]]
        Pg = [float(numpy.round(rng.uniform(P[0], P[-1]), 3)) for _ in range(npts)] + [P[int(rng.integers(len(P)))], P[-1], P[0]]
        Tg = [min(max(t, T[0]), T[-1]) for t in Tg]; Pg = [min(max(p, P[0]), P[-1]) for p in Pg]
        out.append(dict(c, cmd="geotherm", kind="poly", vars=vs, geo_names=["P", "T"], geo_cols=[Pg, Tg]))
    return out


def crossed_cases(rng, n):
    """--t-col T --p-col P (option NAMES read literally) on a grid whose T and P values coincide numerically:
    the code then evaluates the table at (temperature := P value, pressure := T value), which is again a node, so the
    model's wiring of the two options can be compared exactly.  Not an oracle case (the help strings document the
    crossed meaning)."""
    out = []
    for _ in range(n):
        m = int(rng.integers(4, 8))
        g = {"NT": m, "DT": 10.0, "T_MIN": 0.0, "NTV": m, "DELTA_P": 10.0, "P_MIN": 0.0}
        npts = int(rng.integers(2, 7))
        Tg = [10.0 * int(rng.integers(m)) for _ in range(npts)]
        Pg = [10.0 * int(rng.integers(m)) for _ in range(npts)]
        out.append({"grid": g, "data_seed": int(rng.integers(0, 2 ** 31)), "components": ["11"], "keywords": ["bm_V", "v_p", "v"],
                    "cmd": "geotherm", "kind": "crossed", "vars": ["bm_V", "v"], "geo_names": ["P", "T"], "geo_cols": [Pg, Tg],
                    "tcol": "T", "pcol": "P", "oracle_skip": True})
    return out


LATTICE = [0.013 + (0.987 - 0.013) * i / 22.0 for i in range(23)]     # 23 x 23 points, none on a node of any level


def convergence_cases(rng, n, levels=2):
    """the same dense path (fixed 23 x 23 lattice inside the window) on tables of one smooth function at `levels`
    resolutions, the spacing halved from one to the next"""
    out = []
    Tg = [float(numpy.round(300.0 + 1200.0 * a, 6)) for b in LATTICE for a in LATTICE]
    Pg = [float(numpy.round(120.0 * b, 6)) for b in LATTICE for a in LATTICE]
    ms = [int(x) for x in rng.permutation([5, 6, 7, 8])[:n]]
    for m in ms:
        vs = ["bm_V", "G_VRH", "v_s"]
        series = []
        for lev in range(levels):
            nn = (m - 1) * 2 ** lev + 1
            g = {"NT": nn, "DT": 1200.0 / (nn - 1), "T_MIN": 300.0, "NTV": nn, "DELTA_P": 120.0 / (nn - 1), "P_MIN": 0.0}
            series.append({"grid": g, "data_seed": 1, "components": ["11"], "keywords": ["bm_V", "G_VRH", "v_s"], "smooth": True,
                           "cmd": "geotherm", "kind": "smooth", "vars": vs, "geo_names": ["P", "T"], "geo_cols": [Pg, Tg]})
        out.append(series)
    return out


def argmin_ops(ctx, rng, res, n):
    ops, want = [], []
    for _ in range(n):
        m = int(rng.integers(1, 9))
        xs = numpy.round(rng.uniform(-5, 5, size=m), 1)              # coarse values: ties are frequent
        y = float(numpy.round(rng.uniform(-6, 6), 1)) if rng.random() < 0.7 else float(0.5 * (xs[0] + xs[-1]))
        ops.append({"op": "c19.argmin", "xs": enc(xs), "y": f2b(y)})
        want.append(int(numpy.argmin(numpy.abs(xs - y))))
    for op, a, w in zip(ops, ctx.driver.ask(ops), want):
        res.evaluations += 1
        if a == w: res.traces_validated += 1
        else: res.disagreements.append(Disagreement("c19.argmin", op, w, a))


def glob_ops(ctx, res):
    """model's glob/stem against Python's glob on the names the writer produces"""
    import fnmatch
    names = []
    for d in W.DOC:
        if d[4] == "ij":
            names += [f"{d[1].replace('{ij}', ij)}_tp_{d[2]}.txt" for ij in W.KEYS21]
        else:
            names.append(f"{d[1]}_tp_{d[2]}.txt")
    variables = sorted(set(n.split("_tp_")[0] for n in names)) + ["c1", "bm", "v_", "G"]
    ops = [{"op": "c19.glob", "var": v, "fname": n} for v in variables for n in names]
    ans = ctx.driver.ask(ops)
    bad = 0
    for op, a in zip(ops, ans):
        w = fnmatch.fnmatchcase(op["fname"], op["var"] + "_tp_*")
        if a != w:
            bad += 1
            if bad < 5: res.disagreements.append(Disagreement("c19.glob", op, w, a))
    res.evaluations += 1
    if not bad: res.traces_validated += 1
    st = ctx.driver.ask([{"op": "c19.stem", "fname": n} for n in names])
    res.evaluations += 1
    if st == [n.split("_tp_")[0] for n in names]: res.traces_validated += 1
    else: res.disagreements.append(Disagreement("c19.stem", names[:3], [n.split("_tp_")[0] for n in names][:3], st[:3]))


# ----------------------------------------------------------------------------- entry points
def run_cases(ctx, cases, res, with_model=True):
    ops, pending = [], []
    for c in cases:
        if ctx.time_left() < 45: break
        run_case(ctx, c, res, ops, pending, with_model)
    if with_model and ops:
        compare_model(res, pending, ctx.driver.ask(ops))


def light(case):
    """payload without run-time keys"""
    return {k: v for k, v in case.items() if not k.startswith("_")}


def convergence(ctx, series_list, res: Result):
    worst = res.extra.setdefault("convergence", [])
    for series in series_list:
        series = [dict(c) for c in series]
        run_cases(ctx, series, res, with_model=False)
        errs = [c.get("_errors") for c in series]
        if any(not e for e in errs): continue
        for k, var in enumerate(series[0]["vars"]):
            e = [x[k] for x in errs]
            sc = 100.0
            ratios = [a / b if b > 0 else float("inf") for a, b in zip(e, e[1:])]
            worst.append({"var": var, "nodes_per_axis": [c["grid"]["NT"] for c in series], "errors": e, "ratios": ratios})
            st = res.distribution.setdefault("refinement", {"series": 0, "min_ratio": None})
            st["series"] += 1
            fin = [r for r in ratios if r != float("inf")]
            if fin: st["min_ratio"] = min(fin) if st["min_ratio"] is None else min(st["min_ratio"], min(fin))
            payload = jsonable({"check": "convergence", "series": [light(c) for c in series]})
            for (a, b), r in zip(zip(e, e[1:]), ratios):
                if a <= 1e-9 * sc: continue                    # already at rounding level
                if not (b < a) or b > 0.5:
                    res.oracle_failures.append(OracleFailure(
                        what="between nodes the interpolated value does not converge to the smooth function under refinement",
                        input=payload, observed={"errors": e}, expected="error shrinks at every halving of the spacing and is <= 0.5 (scale ~100)",
                        site="geotherm:convergence")); break
                if r < ORDER_RATIO:
                    # fourth-order convergence is what the model's bicubic contract implies, not what the property states ("converges"):
                    # a slower but convergent interpolant breaks the correspondence with the model, not the property
                    if len(res.disagreements) < 12:
                        res.disagreements.append(Disagreement("c19.contract.fourth_order", payload, {"errors": e, "ratios": ratios},
                                                              f"ratio >= {ORDER_RATIO}",
                                                              note="error shrinks by less than 8 per halving of the grid spacing (interpolating bicubic spline: 16)"))
                    break
    del worst[12:]


def run_twice(ctx, items, res: Result):
    """each item: two cases run back to back in this process; a failure of either is reported with the PAIR as replay"""
    for it in items:
        if ctx.time_left() < 45: break
        sub = Result()
        cases = [dict(c) for c in it["cases"]]
        for c in cases:
            if c.get("labels_from_file"):      # geotherm through nodes: take the nodes from the labels as printed
                d = tempfile.mkdtemp(prefix="c19t_")
                try:
                    make_dir(c, d); tabs = parse_tables(d)
                finally:
                    shutil.rmtree(d, ignore_errors=True)
                rows, cs, _ = next(t for n, t in sorted(tabs.items()) if "_tp_" in n)
                c["geo_cols"] = [[min(cs, key=lambda x: abs(x - p)) for p in c["geo_cols"][0]], [min(rows, key=lambda x: abs(x - t)) for t in c["geo_cols"][1]]]
        ops, pending = [], []
        run_case(ctx, cases[0], sub, ops, pending, with_model=False)
        for f in sub.oracle_failures:           # the FIRST call of a pair fails on its own: an ordinary failure of that case
            if len(res.oracle_failures) < 12 and f.site not in {x.site for x in res.oracle_failures}: res.oracle_failures.append(f)
        sub.oracle_failures = []
        run_case(ctx, cases[1], sub, ops, pending, with_model=False)
        res.evaluations += sub.evaluations
        st = res.distribution.setdefault("twice", {"pairs": 0, "same_grid": 0, "different_grid": 0, "extract": 0, "geotherm": 0})
        st["pairs"] += 1; st["same_grid" if it.get("same_grid") else "different_grid"] += 1; st[cases[0]["cmd"]] += 1
        for k, v in sub.distribution.get("errors", {}).items():
            res.distribution.setdefault("errors", {}).setdefault(k, 0); res.distribution["errors"][k] += v
        for f in sub.oracle_failures:
            if len(res.oracle_failures) < 12 and ("twice:" + f.site) not in {x.site for x in res.oracle_failures}:
                res.oracle_failures.append(OracleFailure(
                    what="second invocation in the same process (other directory): " + f.what,
                    input=jsonable({"check": "twice", "same_grid": it.get("same_grid"), "cases": [light(c) for c in it["cases"]]}),
                    observed=f.observed, expected=f.expected, site="twice:" + f.site))


def src_argmin_ops(ctx, rng, res, n):
    """the expression tree read from `y_index = …` on this run, evaluated by the model, against numpy on the same arrays"""
    ops, want = [], []
    for _ in range(n):
        m = int(rng.integers(1, 9))
        xs = numpy.round(rng.uniform(-5, 5, size=m), 1)
        y = float(numpy.round(rng.uniform(-6, 6), 1)) if rng.random() < 0.6 else float(0.5 * (xs[0] + xs[-1]))
        ops.append({"op": "c19.src_argmin", "xs": enc(xs), "y": f2b(y)})
        want.append(int(numpy.argmin(numpy.abs(xs - y))))
    for op, a, w in zip(ops, ctx.driver.ask(ops), want):
        res.evaluations += 1
        if a == w: res.traces_validated += 1
        else: res.disagreements.append(Disagreement("c19.src_argmin", op, w, a))


def bicubic44_ops(ctx, rng, res, n):
    """the model's 4x4 spline against scipy's RectBivariateSpline itself (contract measurement of the external call)"""
    from scipy.interpolate import RectBivariateSpline
    ops, want = [], []
    for _ in range(n):
        x = numpy.sort(rng.uniform(0.0, 3000.0, size=4)); y = numpy.sort(rng.uniform(-10.0, 200.0, size=4))
        if numpy.min(numpy.diff(x)) < 30.0 or numpy.min(numpy.diff(y)) < 2.0: continue
        z = rng.normal(100.0, 40.0, size=(4, 4))
        px = rng.uniform(x[0], x[-1], size=6); py = rng.uniform(y[0], y[-1], size=6)
        ops.append({"op": "c19.bicubic44", "xs": enc(x), "ys": enc(y), "z": enc(z), "px": enc(px), "py": enc(py)})
        want.append(RectBivariateSpline(x, y, z)(px, py, grid=False))
    bad = 0
    for op, a, w in zip(ops, ctx.driver.ask(ops), want):
        res.evaluations += 1
        if close(dec(a), w, 1e-8, 300.0): res.traces_validated += 1
        else:
            bad += 1
            if bad <= 3: res.contract_failures.append(f"RectBivariateSpline on a 4x4 table differs from the bicubic polynomial through it: {jsonable(w)} vs {jsonable(dec(a))}")
    res.distribution["spline44_vs_scipy"] = {"tables": len(ops), "differing": bad}


def request_stats(cases, res):
    req = {"on": 0, "between": 0, "beyond": 0, "tie_exact": 0}
    shapes = {"single_row": 0, "single_col": 0, "1x1": 0, "other": 0}
    edge = {"last_T_row": 0, "last_P_col": 0, "first_T_row": 0, "first_P_col": 0, "corner": 0}
    mixed = 0
    for c in cases:
        g = c.get("grid")
        if c["cmd"] == "extract" and not c.get("expect_error") and g is not None:
            T, P = grid_axes(g)
            y, ax = (c["T"], T) if c.get("T") is not None else (c["P"], P)
            req["on" if y in ax else ("beyond" if (y < ax[0] or y > ax[-1]) else "between")] += 1
            if any(a < y < b and abs(a - y) == abs(b - y) for a, b in zip(ax, ax[1:])): req["tie_exact"] += 1
            key = "1x1" if (g["NT"] == 1 and g["NTV"] == 1) else "single_row" if g["NT"] == 1 else "single_col" if g["NTV"] == 1 else "other"
            shapes[key] += 1
            if c.get("second"): mixed += 1
        if c["cmd"] == "geotherm" and c.get("edges"):
            Tg = c["geo_cols"][c["geo_names"].index("T")]; Pg = c["geo_cols"][c["geo_names"].index("P")]
            t0, t1, p0, p1 = min(Tg), max(Tg), min(Pg), max(Pg)
            for t, p in zip(Tg, Pg):
                et, ep = t in (t0, t1), p in (p0, p1)
                if et and ep: edge["corner"] += 1
                else:
                    if t == t1: edge["last_T_row"] += 1
                    if t == t0: edge["first_T_row"] += 1
                    if p == p1: edge["last_P_col"] += 1
                    if p == p0: edge["first_P_col"] += 1
    res.distribution["extract_requests"] = req
    res.distribution["extract_table_shapes"] = shapes
    res.distribution["geotherm_edge_points"] = edge
    res.distribution["mixed_grids"] = mixed


def run(ctx: Ctx) -> Result:
    res = Result()
    rng = ctx.rng
    res.rule = ("a case = (directory of tables written by the real writer on a random grid with random components, one command line: "
                "extract -v VARS -T t | -P p [-h] or extract-geotherm -g FILE -v VARS [--t-col --p-col] [-h], a part through the `cij` group); "
                "requests on / between (incl. exact midpoints = ties) / beyond the grid; single-row / single-column tables; geotherm points on "
                "the rim of the window; pairs of invocations in one process in two directories; bicubic tables; non-trivial = valid request "
                "(not in the malformed stream)")
    for payload in ctx.corpus():
        replay_into(ctx, payload.get("input", payload), res)
    th = ctx.thorough()
    glob_ops(ctx, res)
    argmin_ops(ctx, rng, res, 200 if not th else 3000)
    src_argmin_ops(ctx, rng, res, 200 if not th else 3000)
    bicubic44_ops(ctx, rng, res, 40 if not th else 400)
    # first thing that touches the commands: pairs of invocations in two directories (state kept between calls shows here
    # with a self-contained replay; afterwards it would spoil every later case)
    run_twice(ctx, twice_cases(rng, 6 if not th else 24), res)
    cases = extract_cases(rng, 10 if not th else 40, 12 if not th else 16)
    cases += tie_cases(rng, 6 if not th else 30)
    cases += thin_cases(rng, 6 if not th else 30)
    cases += mixed_grid_cases(rng, 6 if not th else 30)
    cases += geotherm_node_cases(rng, 6 if not th else 30, 8 if not th else 10)
    cases += crossed_cases(rng, 4 if not th else 30)
    cases += poly_cases(rng, 12 if not th else 80)
    run_cases(ctx, cases, res)
    convergence(ctx, convergence_cases(rng, 2 if not th else 4, levels=2 if not th else 3), res)
    res.distinct_nontrivial = sum(1 for c in cases if not (c.get("expect_error") or c.get("oracle_skip")))
    for c in cases[:2] + [c for c in cases if c["cmd"] == "geotherm"][:2]:
        res.samples.append({k: v for k, v in c.items() if k in ("cmd", "kind", "grid", "vars", "T", "P", "geo_names", "geo_cols", "tcol", "pcol")})
    request_stats(cases, res)
    res.notes.append("geotherm options: --t-col names the PRESSURE column and --p-col the TEMPERATURE column (as their help strings say; "
                     "defaults P and T); passing the names the other way round evaluates the table at (x=P, y=T) — see Lean geotherm_named_columns")
    res.notes.append("c19.contract.reproduces_bicubics / c19.contract.fourth_order measure the CONTRACT the model assumes of the spline (interpolating "
                     "bicubic, fourth order); a lower-order interpolant that still converges breaks the correspondence (searched, reported without "
                     "failing input if none), it is not itself a violation of the statement; the statement's own oracle is geotherm:nodes + "
                     "geotherm:convergence (error shrinks at every halving)")
    return res


def search(ctx: Ctx, res: Result):
    extra = Result()
    rng = numpy.random.Generator(numpy.random.PCG64([ctx.seed, 1919]))
    run_twice(ctx, twice_cases(rng, 6), extra)
    for d in res.disagreements[:5]:
        if isinstance(d.input, dict) and d.input.get("cmd"):
            run_cases(ctx, [d.input], extra, with_model=False)
    if not extra.oracle_failures:
        run_cases(ctx, extract_cases(rng, 10, 12) + tie_cases(rng, 10) + thin_cases(rng, 9) + geotherm_node_cases(rng, 8, 8) + poly_cases(rng, 16),
                  extra, with_model=False)
    if not extra.oracle_failures:
        convergence(ctx, convergence_cases(rng, 3, levels=3), extra)
    return extra.oracle_failures


def replay_into(ctx: Ctx, payload, res: Result, with_model=True):
    if payload.get("check") == "convergence":
        series = payload.get("series") or [payload["coarse"], payload["fine"]]
        convergence(ctx, [[dict(c) for c in series]], res)
    elif payload.get("check") == "twice":
        run_twice(ctx, [payload], res)
    else:
        run_cases(ctx, [dict(payload)], res, with_model=with_model)


def replay(ctx: Ctx, payload):
    res = Result()
    replay_into(ctx, payload, res, with_model=False)
    return res.oracle_failures
