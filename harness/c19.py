"""C19 — `cij extract` / `cij extract-geotherm` return table values faithfully.

A case = a directory of (T,P) tables written by the REAL writer (stub pressure base of harness/c15.py through
ResultsWriter), and one command line run through click.testing.CliRunner in that directory:
  impl    the real click command's stdout, parsed (pandas display.precision raised to 17 so that the printed
          numbers carry the table values to ~1e-15; a few cases also at the default 6 digits);
  model   lean/CijModel/Extract.lean on the parsed files (spline = its interpolation contract only: table entry
          at a node, undefined elsewhere);
  oracle  the STATEMENT evaluated directly with numpy on the files (own parser): nearest row / column by an
          explicit first-minimum search, labelled by the other axis; geotherm through nodes = the table entries;
          between nodes on tables sampled from a known smooth function at two resolutions the error must shrink.
"""
from __future__ import annotations

import math
import os
import shutil
import tempfile

import numpy

from harness.common import Ctx, Result, Disagreement, OracleFailure, enc, dec, f2b, jsonable
from harness import c15 as W

ASSUMPTIONS = [
    "glob('{var}_tp_*')[0]: the directory contains only files produced by the writer, so exactly one name matches a documented variable "
    "name (Lean: variable_selects_its_file); glob order is filesystem dependent and is a parameter of the model; variable names contain no glob metacharacters",
    "scipy.interpolate.RectBivariateSpline (bicubic, s=0) is external: assumed to interpolate the table at its nodes (measured on every node case, "
    "rel 1e-9 of the table's scale); convergence between nodes is monitored at two resolutions, not proved",
    "pandas.DataFrame.to_string is external: the real stdout is parsed; display.precision=17 is set in-process for most cases to read the values back at ~1e-15",
    "variables in one request are distinct; all tables of one directory share the (T,P) grid (they come from one run, C15)",
]
TRUSTED_EXTRA = ["C19: the stdout parser and the numpy oracle in harness/c19.py"]

VAL_RTOL = 1e-11       # printed with 17 decimals
NODE_RTOL = 1e-9       # FITPACK at a node, relative to the table's scale
DEFAULT_PRINT_RTOL = 2e-6

# variable name a user types -> output keyword that produces its file (documented names)
VAR_KEYWORD = {"bm_V": "bm_V", "bm_R": "bm_R", "bm_VRH": "bm_VRH", "G_V": "G_V", "G_R": "G_R", "G_VRH": "G_VRH",
               "v_p": "v_p", "v_s": "v_s", "v": "v"}
for _ij in W.KEYS21:
    VAR_KEYWORD[f"c{_ij}s"] = "cij_s"; VAR_KEYWORD[f"c{_ij}t"] = "cij_t"


# ----------------------------------------------------------------------------- directories of tables
def smooth_f(T, P, k):
    """known smooth function of (T [K], P [GPa]); k selects the variable"""
    t, p = T / 1000.0, P / 100.0
    return (100.0 + 30.0 * k) + 40.0 * p - 25.0 * t + 12.0 * math.sin(1.3 * t + 0.4 * k) * math.cos(1.7 * p) + 9.0 * t * t * p


def make_dir(case, d):
    """write the tables of the scenario into d with the real writer; returns the variables available"""
    sc = {"check": "write", "base": "tp", "grid": case["grid"], "data_seed": case["data_seed"],
          "components": case["components"], "missing": ["pressures"]}
    stub, info = W.make_stub(sc)
    if case.get("smooth"):
        g = case["grid"]
        T = [g["T_MIN"] + i * g["DT"] for i in range(g["NT"] + 4)]
        P = [g["P_MIN"] + j * g["DELTA_P"] for j in range(g["NTV"])]
        for k, prop in enumerate(W.VALUE_PROPS):
            if prop == "pressures": continue
            q = [x for x in W.DOC if x[3] == prop][0][5]
            fac = W.UNIT_FACTORS[q][W.DOC_UNIT[q]]
            setattr(stub, prop, numpy.array([[smooth_f(t, p, k) / fac for p in P] for t in T]))
    cwd = os.getcwd()
    try:
        os.chdir(d)
        stub.write_variables(list(case["keywords"]))
    finally:
        os.chdir(cwd)


def parse_tables(d):
    """own parser of the written files (not pandas.read_table): name -> (rows, cols, matrix)"""
    out = {}
    for name in sorted(os.listdir(d)):
        if not name.endswith(".txt") or "_tp_" not in name: continue
        with open(os.path.join(d, name)) as fp:
            lines = [l.split() for l in fp.read().splitlines() if l.strip()]
        cols = [float(x) for x in lines[0][1:]]
        rows = [float(l[0]) for l in lines[1:]]
        vals = numpy.array([[float(x) for x in l[1:]] for l in lines[1:]], dtype=float).reshape(len(rows), len(cols))
        out[name] = (rows, cols, vals)
    return out


def file_of(tables, var):
    hits = [n for n in tables if n.startswith(var + "_tp_")]
    return hits


# ----------------------------------------------------------------------------- the real commands
def invoke(d, which, args, precision=17):
    import pandas
    from click.testing import CliRunner
    cwd = os.getcwd()
    try:
        os.chdir(d)
        import warnings
        with warnings.catch_warnings():
            warnings.simplefilter("ignore")
            if which == "extract":
                from cij.cli.extract import main as cmd
            else:
                from cij.cli.geotherm import main as cmd
            if precision is None:
                r = CliRunner().invoke(cmd, args)
            else:
                with pandas.option_context("display.precision", precision):
                    r = CliRunner().invoke(cmd, args)
    finally:
        os.chdir(cwd)
    if r.exception is not None or r.exit_code != 0:
        return "error", (type(r.exception).__name__ if r.exception is not None else f"exit {r.exit_code}")
    return r.output, None


def fnum(s):
    return float("nan") if s == "NaN" else float(s)


def parse_extract(out, nvars, header):
    lines = [l for l in out.splitlines() if l.strip()]
    names = None
    if header:
        names = lines[0].split(); lines = lines[1:]
    idx, cols = [], [[] for _ in range(nvars)]
    for l in lines:
        tok = l.split()
        idx.append(fnum(tok[0]))
        for k in range(nvars): cols[k].append(fnum(tok[1 + k]))
    return names, idx, cols


def parse_geotherm(out, header):
    lines = [l for l in out.splitlines() if l.strip()]
    names = None
    if header:
        names = lines[0].split(); lines = lines[1:]
    rows = [[fnum(x) for x in l.split()] for l in lines]
    ncol = len(rows[0]) if rows else (len(names) if names else 0)
    return names, [[r[k] for r in rows] for k in range(ncol)]


# ----------------------------------------------------------------------------- oracle helpers
def first_nearest(xs, y):
    best, bi = None, None
    for i, x in enumerate(xs):
        dist = abs(x - y)
        if best is None or dist < best: best, bi = dist, i
    return bi


def close(a, b, rtol, scale):
    a, b = numpy.asarray(a, dtype=float), numpy.asarray(b, dtype=float)
    if a.shape != b.shape: return False
    if not numpy.array_equal(numpy.isnan(a), numpy.isnan(b)): return False
    m = ~numpy.isnan(a)
    return bool(numpy.all(numpy.abs(a[m] - b[m]) <= rtol * scale)) if m.any() else True


def scale_of(tables, files):
    s = 1.0
    for f in files:
        s = max(s, float(numpy.max(numpy.abs(tables[f][2]))))
    return s


# ----------------------------------------------------------------------------- one case
def run_case(ctx, case, res: Result, ops, pending, with_model=True):
    """evaluates impl + oracle now, queues the model op; returns nothing (fills res / ops / pending)"""
    d = tempfile.mkdtemp(prefix="c19_")
    try:
        make_dir(case, d)
        tables = parse_tables(d)
        if case["cmd"] == "extract":
            args = ["-v", ",".join(case["vars"])]
            if case.get("T") is not None: args += ["-T", repr(float(case["T"]))]
            if case.get("P") is not None: args += ["-P", repr(float(case["P"]))]
            if case.get("hide"): args += ["-h"]
            out, exc = invoke(d, "extract", args, precision=case.get("precision", 17))
        else:
            gpath = os.path.join(d, "geotherm.in")
            names = case["geo_names"]
            with open(gpath, "w") as fp:
                fp.write(" ".join(names) + "\n")
                for r in range(len(case["geo_cols"][0])):
                    fp.write(" ".join(repr(float(c[r])) for c in case["geo_cols"]) + "\n")
            args = ["-g", "geotherm.in", "-v", ",".join(case["vars"])]
            if case.get("tcol") is not None: args += ["--t-col", case["tcol"]]
            if case.get("pcol") is not None: args += ["--p-col", case["pcol"]]
            if case.get("hide"): args += ["-h"]
            out, exc = invoke(d, "geotherm", args, precision=case.get("precision", 17))
    finally:
        shutil.rmtree(d, ignore_errors=True)
    res.evaluations += 1
    res.distribution.setdefault("cmd", {}).setdefault(case["cmd"] + (":" + case["kind"] if case.get("kind") else ""), 0)
    res.distribution["cmd"][case["cmd"] + (":" + case["kind"] if case.get("kind") else "")] += 1
    if out == "error":
        res.distribution.setdefault("errors", {}).setdefault(exc, 0); res.distribution["errors"][exc] += 1
    rtol = VAL_RTOL if case.get("precision", 17) == 17 else DEFAULT_PRINT_RTOL
    dir_json = [[n, {"rows": enc(t[0]), "cols": enc(t[1]), "vals": enc(t[2])}] for n, t in sorted(tables.items())]

    if case["cmd"] == "extract":
        nv = len(case["vars"])
        impl = "error" if out == "error" else parse_extract(out, nv, not case.get("hide"))
        # ---------------- oracle
        fail = None
        if not case.get("expect_error"):
            files = [file_of(tables, v) for v in case["vars"]]
            if impl == "error":
                fail = ("valid extract request failed", exc, "a table", "extract:raises")
            elif any(len(f) != 1 for f in files):
                fail = ("variable does not select exactly one file", files, "one file per variable", "extract:glob")
            else:
                files = [f[0] for f in files]
                sc = scale_of(tables, files)
                names, idx, cols = impl
                if names is not None and names != case["vars"]:
                    fail = ("column headers are not the requested variables", names, case["vars"], "extract:header")
                for k, f in enumerate(files):
                    if fail: break
                    rows, cs, vals = tables[f]
                    if case.get("T") is not None:
                        i = first_nearest(rows, case["T"]); want, lab, axis = vals[i, :], cs, "T"
                    else:
                        j = first_nearest(cs, case["P"]); want, lab, axis = vals[:, j], rows, "P"
                    if not close(idx, lab, 1e-12, max(1.0, max(map(abs, lab)))):
                        fail = (f"-{axis}: output is not labelled by the other coordinate", idx, list(lab), f"extract:-{axis}:labels")
                    elif not close(cols[k], want, rtol, sc):
                        fail = (f"-{axis}: column {case['vars'][k]} is not the nearest table {'row' if axis == 'T' else 'column'}",
                                cols[k], list(map(float, want)), f"extract:-{axis}:values")
        if fail and len(res.oracle_failures) < 12 and fail[3] not in {f.site for f in res.oracle_failures}:
            res.oracle_failures.append(OracleFailure(what=fail[0], input=jsonable(case), observed=jsonable(fail[1]), expected=jsonable(fail[2]), site=fail[3]))
        if with_model:
            op = {"op": "c19.extract", "dir": dir_json, "vars": case["vars"]}
            if case.get("T") is not None: op["T"] = f2b(case["T"])
            if case.get("P") is not None: op["P"] = f2b(case["P"])
            ops.append(op); pending.append((case, impl, tables, rtol))
        return

    # ---------------- geotherm
    impl = "error" if out == "error" else parse_geotherm(out, not case.get("hide"))
    fail = None
    ngeo = len(case["geo_names"])
    if not (case.get("expect_error") or case.get("oracle_skip")):
        files = [file_of(tables, v) for v in case["vars"]]
        if impl == "error":
            fail = ("valid geotherm request failed", exc, "a table", "geotherm:raises")
        else:
            files = [f[0] for f in files]
            names, cols = impl
            want_names = case["geo_names"] + case["vars"]
            if names is not None and names != want_names:
                fail = ("columns are not the geotherm's own columns followed by the variables", names, want_names, "geotherm:header")
            elif len(cols) != len(want_names):
                fail = ("number of columns", len(cols), len(want_names), "geotherm:header")
            else:
                for k in range(ngeo):
                    if not close(cols[k], case["geo_cols"][k], 1e-13, max(1.0, max(map(abs, case["geo_cols"][k])))):
                        fail = ("geotherm's own column not passed through unchanged", cols[k], case["geo_cols"][k], "geotherm:passthrough"); break
            if not fail:
                # which geotherm columns are temperature / pressure: by the documented meaning of the options
                # (--t-col: "name of geotherm pressure column", default P; --p-col: "... temperature column", default T)
                pres_name = case["tcol"] if case.get("tcol") is not None else "P"
                temp_name = case["pcol"] if case.get("pcol") is not None else "T"
                Tg = case["geo_cols"][case["geo_names"].index(temp_name)]
                Pg = case["geo_cols"][case["geo_names"].index(pres_name)]
                for k, f in enumerate(files):
                    rows, cs, vals = tables[f]
                    got = cols[ngeo + k]
                    sc = float(numpy.max(numpy.abs(vals))) or 1.0
                    if case["kind"] == "nodes":
                        want = [float(vals[rows.index(t), cs.index(p)]) for t, p in zip(Tg, Pg)]
                        if not close(got, want, NODE_RTOL, sc):
                            fail = (f"geotherm through grid nodes: {case['vars'][k]} is not the table entry", got, want, "geotherm:nodes"); break
                    elif case["kind"] == "crossed":
                        pass    # option names read literally (--t-col T --p-col P): only model correspondence, see notes
                    else:   # smooth tables: error against the generating function
                        kk = W.VALUE_PROPS.index(W.DOC_BY_KW[VAR_KEYWORD[case["vars"][k]]][3])
                        truth = [smooth_f(t, p, kk) for t, p in zip(Tg, Pg)]
                        err = float(numpy.max(numpy.abs(numpy.array(got) - numpy.array(truth))))
                        case.setdefault("_errors", []).append(err)
    if fail and len(res.oracle_failures) < 12 and fail[3] not in {f.site for f in res.oracle_failures}:
        res.oracle_failures.append(OracleFailure(what=fail[0], input=jsonable({k: v for k, v in case.items() if not k.startswith("_")}),
                                                 observed=jsonable(fail[1]), expected=jsonable(fail[2]), site=fail[3]))
    if with_model and case["kind"] in ("nodes", "crossed"):
        op = {"op": "c19.geotherm", "dir": dir_json, "vars": case["vars"],
              "geo": [[n, enc(c)] for n, c in zip(case["geo_names"], case["geo_cols"])],
              "tcol": case["tcol"] if case.get("tcol") is not None else "P",
              "pcol": case["pcol"] if case.get("pcol") is not None else "T"}
        ops.append(op); pending.append((case, impl, tables, rtol))


def compare_model(res: Result, pending, answers):
    for (case, impl, tables, rtol), ans in zip(pending, answers):
        clean = jsonable({k: v for k, v in case.items() if not k.startswith("_")})
        if case["cmd"] == "extract":
            if ans == "error" or impl == "error":
                ok = (ans == "error") and (impl == "error")
                note = "outcome"
            else:
                names, idx, cols = impl
                midx = dec(ans["index"])
                mcols = [[float("nan") if x is None else dec(x) for x in c[1]] for c in ans["cols"]]
                sc = max([1.0] + [abs(x) for c in mcols for x in c if x == x])
                ok = [c[0] for c in ans["cols"]] == case["vars"] and close(idx, midx, 1e-12, max([1.0] + [abs(x) for x in midx])) and \
                    len(cols) == len(mcols) and all(close(a, b, rtol, sc) for a, b in zip(cols, mcols))
                note = "table"
            if ok: res.traces_validated += 1
            else: res.disagreements.append(Disagreement("c19.extract", clean, jsonable(impl), jsonable(ans), note=note))
        else:
            if ans == "error" or impl == "error":
                ok = (ans == "error") and (impl == "error")
            else:
                names, cols = impl
                mnames = [c[0] for c in ans]
                mcols = [dec(c[1]) for c in ans]
                sc = max([1.0] + [abs(x) for c in mcols for x in c if x == x])
                ok = (names is None or names == mnames) and len(cols) == len(mcols) and \
                    all(close(a, b, NODE_RTOL, sc) for a, b in zip(cols, mcols))
            if ok: res.traces_validated += 1
            else: res.disagreements.append(Disagreement("c19.geotherm", clean, jsonable(impl), jsonable(ans)))


# ----------------------------------------------------------------------------- generators
def gen_dir(rng, min_n=1):
    g = W.gen_grid(rng)
    g["NT"] = max(g["NT"], min_n); g["NTV"] = max(g["NTV"], min_n)
    comps = [W.KEYS21[i] for i in rng.permutation(21)[:int(rng.integers(1, 6))]]
    kws = ["cij_s", "cij_t"] + [k for k in ["bm_V", "bm_VRH", "bm_R", "G_V", "G_VRH", "v_p", "v_s", "v"] if rng.random() < 0.75]
    if "v" not in kws: kws.append("v")
    if "v_p" not in kws: kws.append("v_p")           # `v` must not pick up v_p's file
    if "bm_V" not in kws: kws.append("bm_V")
    if "bm_VRH" not in kws: kws.append("bm_VRH")
    variables = [f"c{ij}{s}" for ij in comps for s in "st"] + [k for k in kws if not k.startswith("cij")]
    return {"grid": g, "data_seed": int(rng.integers(0, 2 ** 31)), "components": comps, "keywords": kws}, variables


def grid_axes(g):
    T = [float(g["T_MIN"] + i * g["DT"]) for i in range(g["NT"])]
    P = [float(g["P_MIN"] + j * g["DELTA_P"]) for j in range(g["NTV"])]
    return T, P


def pick_request(rng, axis):
    """a requested value on, between (incl. exact midpoints = ties) and beyond the grid"""
    r = rng.random()
    n = len(axis)
    if r < 0.3: return axis[rng.integers(n)]
    if r < 0.45 and n > 1:
        i = int(rng.integers(n - 1)); return 0.5 * (axis[i] + axis[i + 1])
    if r < 0.75 and n > 1:
        i = int(rng.integers(n - 1)); return axis[i] + float(rng.uniform(0.02, 0.98)) * (axis[i + 1] - axis[i])
    if r < 0.87: return axis[0] - float(rng.uniform(0.1, 50.0))
    return axis[-1] + float(rng.uniform(0.1, 500.0))


def extract_cases(rng, n_dirs, per_dir):
    out = []
    for _ in range(n_dirs):
        dsc, variables = gen_dir(rng)
        T, P = grid_axes(dsc["grid"])
        # printed labels carry 6 decimals: the file's own labels are what the command sees
        for _ in range(per_dir):
            nv = int(rng.integers(1, 6))
            vs = [variables[i] for i in rng.permutation(len(variables))[:nv]]
            if rng.random() < 0.3 and "v" in variables and "v_p" in variables: vs = list(dict.fromkeys(["v", "v_p"] + vs))[:max(nv, 2)]
            if rng.random() < 0.3: vs = list(dict.fromkeys(["bm_V", "bm_VRH"] + vs))[:max(nv, 2)]
            c = dict(dsc, cmd="extract", vars=vs)
            if rng.random() < 0.5: c["T"] = float(pick_request(rng, T))
            else: c["P"] = float(pick_request(rng, P))
            if rng.random() < 0.15: c["hide"] = True
            if rng.random() < 0.1: c["precision"] = None
            out.append(c)
        # both given: -T wins; malformed: neither, unknown variable
        out.append(dict(dsc, cmd="extract", vars=[variables[0]], T=float(T[0]), P=float(P[-1])))
        out.append(dict(dsc, cmd="extract", vars=[variables[0]], expect_error=True))
        out.append(dict(dsc, cmd="extract", vars=[variables[0], "nosuchvar"], T=float(T[0]), expect_error=True))
    return out


def geotherm_node_cases(rng, n_dirs, per_dir):
    out = []
    for _ in range(n_dirs):
        dsc, variables = gen_dir(rng, min_n=4)
        dsc["grid"]["DT"] = float(numpy.round(dsc["grid"]["DT"], 2)); dsc["grid"]["DELTA_P"] = float(numpy.round(dsc["grid"]["DELTA_P"], 2))
        d = tempfile.mkdtemp(prefix="c19g_")
        try:
            make_dir(dict(dsc), d)
            tabs = parse_tables(d)
        finally:
            shutil.rmtree(d, ignore_errors=True)
        rows, cs, _ = next(iter(tabs.values()))          # the labels as printed in the files are the nodes
        for _ in range(per_dir):
            n = int(rng.integers(1, 9))
            Tg = [rows[rng.integers(len(rows))] for _ in range(n)]
            Pg = [cs[rng.integers(len(cs))] for _ in range(n)]
            D = [float(numpy.round(rng.uniform(0, 2900), 1)) for _ in range(n)]
            nv = int(rng.integers(1, 5))
            vs = [variables[i] for i in rng.permutation(len(variables))[:nv]]
            c = dict(dsc, cmd="geotherm", kind="nodes", vars=vs)
            r = rng.random()
            if r < 0.6:
                order = [("P", Pg), ("D", D), ("T", Tg)]
                perm = rng.permutation(3) if rng.random() < 0.5 else [0, 1, 2]
                order = [order[i] for i in perm]
                if rng.random() < 0.3: order = [o for o in order if o[0] != "D"]
            else:
                # explicitly named columns, as the help strings document: --t-col = pressure column, --p-col = temperature column
                order = [("Depth", D), ("Temp", Tg), ("Pres", Pg)]
                c["tcol"], c["pcol"] = "Pres", "Temp"
            c["geo_names"] = [o[0] for o in order]; c["geo_cols"] = [o[1] for o in order]
            if rng.random() < 0.15: c["hide"] = True
            out.append(c)
    return out


def crossed_cases(rng, n):
    """--t-col T --p-col P (option NAMES read literally) on a grid whose T and P values coincide numerically:
    the code then evaluates the table at (temperature := P value, pressure := T value), which is again a node, so the
    model's wiring of the two options can be compared exactly.  Not an oracle case (the help strings document the
    crossed meaning)."""
    out = []
    for _ in range(n):
        m = int(rng.integers(4, 8))
        g = {"NT": m, "DT": 10.0, "T_MIN": 0.0, "NTV": m, "DELTA_P": 10.0, "P_MIN": 0.0}
        npts = int(rng.integers(2, 7))
        Tg = [10.0 * int(rng.integers(m)) for _ in range(npts)]
        Pg = [10.0 * int(rng.integers(m)) for _ in range(npts)]
        out.append({"grid": g, "data_seed": int(rng.integers(0, 2 ** 31)), "components": ["11"], "keywords": ["bm_V", "v_p", "v"],
                    "cmd": "geotherm", "kind": "crossed", "vars": ["bm_V", "v"], "geo_names": ["P", "T"], "geo_cols": [Pg, Tg],
                    "tcol": "T", "pcol": "P", "oracle_skip": True})
    return out


def convergence_cases(rng, n):
    """the same geotherm on tables of one smooth function at two resolutions"""
    out = []
    for _ in range(n):
        m = int(rng.integers(5, 8))
        coarse = {"NT": m, "DT": 1200.0 / (m - 1), "T_MIN": 300.0, "NTV": m, "DELTA_P": 120.0 / (m - 1), "P_MIN": 0.0}
        fine = {"NT": 2 * m - 1, "DT": 600.0 / (m - 1), "T_MIN": 300.0, "NTV": 2 * m - 1, "DELTA_P": 60.0 / (m - 1), "P_MIN": 0.0}
        npts = 12
        Tg = [float(numpy.round(rng.uniform(320.0, 1480.0), 3)) for _ in range(npts)]
        Pg = [float(numpy.round(rng.uniform(2.0, 118.0), 3)) for _ in range(npts)]
        vs = ["bm_V", "G_VRH", "v_s"]
        pair = []
        for g in (coarse, fine):
            pair.append({"grid": g, "data_seed": 1, "components": ["11"], "keywords": ["bm_V", "G_VRH", "v_s"], "smooth": True,
                         "cmd": "geotherm", "kind": "smooth", "vars": vs, "geo_names": ["P", "T"], "geo_cols": [Pg, Tg]})
        out.append(pair)
    return out


def argmin_ops(ctx, rng, res, n):
    ops, want = [], []
    for _ in range(n):
        m = int(rng.integers(1, 9))
        xs = numpy.round(rng.uniform(-5, 5, size=m), 1)              # coarse values: ties are frequent
        y = float(numpy.round(rng.uniform(-6, 6), 1)) if rng.random() < 0.7 else float(0.5 * (xs[0] + xs[-1]))
        ops.append({"op": "c19.argmin", "xs": enc(xs), "y": f2b(y)})
        want.append(int(numpy.argmin(numpy.abs(xs - y))))
    for op, a, w in zip(ops, ctx.driver.ask(ops), want):
        res.evaluations += 1
        if a == w: res.traces_validated += 1
        else: res.disagreements.append(Disagreement("c19.argmin", op, w, a))


def glob_ops(ctx, res):
    """model's glob/stem against Python's glob on the names the writer produces"""
    import fnmatch
    names = []
    for d in W.DOC:
        if d[4] == "ij":
            names += [f"{d[1].replace('{ij}', ij)}_tp_{d[2]}.txt" for ij in W.KEYS21]
        else:
            names.append(f"{d[1]}_tp_{d[2]}.txt")
    variables = sorted(set(n.split("_tp_")[0] for n in names)) + ["c1", "bm", "v_", "G"]
    ops = [{"op": "c19.glob", "var": v, "fname": n} for v in variables for n in names]
    ans = ctx.driver.ask(ops)
    bad = 0
    for op, a in zip(ops, ans):
        w = fnmatch.fnmatchcase(op["fname"], op["var"] + "_tp_*")
        if a != w:
            bad += 1
            if bad < 5: res.disagreements.append(Disagreement("c19.glob", op, w, a))
    res.evaluations += 1
    if not bad: res.traces_validated += 1
    st = ctx.driver.ask([{"op": "c19.stem", "fname": n} for n in names])
    res.evaluations += 1
    if st == [n.split("_tp_")[0] for n in names]: res.traces_validated += 1
    else: res.disagreements.append(Disagreement("c19.stem", names[:3], [n.split("_tp_")[0] for n in names][:3], st[:3]))


# ----------------------------------------------------------------------------- entry points
def run_cases(ctx, cases, res, with_model=True):
    ops, pending = [], []
    for c in cases:
        if ctx.time_left() < 45: break
        run_case(ctx, c, res, ops, pending, with_model)
    if with_model and ops:
        compare_model(res, pending, ctx.driver.ask(ops))


def convergence(ctx, pairs, res: Result):
    worst = []
    for coarse, fine in pairs:
        run_cases(ctx, [coarse, fine], res, with_model=False)
        ec, ef = coarse.get("_errors"), fine.get("_errors")
        if not ec or not ef: continue
        for k, (a, b) in enumerate(zip(ec, ef)):
            worst.append({"var": coarse["vars"][k], "coarse_h": [coarse["grid"]["DT"], coarse["grid"]["DELTA_P"]], "err_coarse": a, "err_fine": b})
            if not (b < a or a < 1e-9) or b > 0.5:
                res.oracle_failures.append(OracleFailure(
                    what="between nodes the interpolated value does not converge to the smooth function under refinement",
                    input=jsonable({"check": "convergence", "coarse": {k2: v for k2, v in coarse.items() if not k2.startswith("_")},
                                    "fine": {k2: v for k2, v in fine.items() if not k2.startswith("_")}}),
                    observed={"err_coarse": a, "err_fine": b}, expected="err_fine < err_coarse and err_fine <= 0.5 (scale ~100)",
                    site="geotherm:convergence"))
    res.extra["convergence"] = worst[:12]


def run(ctx: Ctx) -> Result:
    res = Result()
    rng = ctx.rng
    res.rule = ("a case = (directory of tables written by the real writer on a random grid with random components, one command line: "
                "extract -v VARS -T t | -P p [-h] or extract-geotherm -g FILE -v VARS [--t-col --p-col] [-h]); requests on / between "
                "(incl. exact midpoints) / beyond the grid; non-trivial = valid request (not in the malformed stream)")
    for payload in ctx.corpus():
        run_cases(ctx, [payload.get("input", payload)], res)
    th = ctx.thorough()
    glob_ops(ctx, res)
    argmin_ops(ctx, rng, res, 200 if not th else 3000)
    cases = extract_cases(rng, 10 if not th else 40, 12 if not th else 16)
    cases += geotherm_node_cases(rng, 6 if not th else 30, 8 if not th else 10)
    cases += crossed_cases(rng, 4 if not th else 30)
    run_cases(ctx, cases, res)
    convergence(ctx, convergence_cases(rng, 3 if not th else 10), res)
    res.distinct_nontrivial = sum(1 for c in cases if not (c.get("expect_error") or c.get("oracle_skip")))
    for c in cases[:2] + [c for c in cases if c["cmd"] == "geotherm"][:2]:
        res.samples.append({k: v for k, v in c.items() if k in ("cmd", "kind", "grid", "vars", "T", "P", "geo_names", "geo_cols", "tcol", "pcol")})
    req = {"on": 0, "between": 0, "beyond": 0}
    for c in cases:
        if c["cmd"] == "extract" and not c.get("expect_error"):
            T, P = grid_axes(c["grid"])
            y, ax = (c["T"], T) if c.get("T") is not None else (c["P"], P)
            req["on" if y in ax else ("beyond" if (y < ax[0] or y > ax[-1]) else "between")] += 1
    res.distribution["extract_requests"] = req
    res.notes.append("geotherm options: --t-col names the PRESSURE column and --p-col the TEMPERATURE column (as their help strings say; "
                     "defaults P and T); passing the names the other way round evaluates the table at (x=P, y=T) — see Lean geotherm_named_columns")
    return res


def search(ctx: Ctx, res: Result):
    extra = Result()
    rng = numpy.random.Generator(numpy.random.PCG64([ctx.seed, 1919]))
    for d in res.disagreements[:5]:
        if isinstance(d.input, dict) and d.input.get("cmd"):
            run_cases(ctx, [d.input], extra, with_model=False)
    if not extra.oracle_failures:
        run_cases(ctx, extract_cases(rng, 10, 12) + geotherm_node_cases(rng, 8, 8), extra, with_model=False)
    if not extra.oracle_failures:
        convergence(ctx, convergence_cases(rng, 4), extra)
    return extra.oracle_failures


def replay(ctx: Ctx, payload):
    res = Result()
    if payload.get("check") == "convergence":
        convergence(ctx, [(dict(payload["coarse"]), dict(payload["fine"]))], res)
    else:
        run_cases(ctx, [dict(payload)], res, with_model=False)
    return res.oracle_failures
