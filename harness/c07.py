"""C07 — VRH averages, Reuss <= Hill <= Voigt, compliance = inverse stiffness, velocities in km/s.

generator      random symmetric-positive-definite 6x6 stiffness FIELDS on a (T,V) grid, for every crystal system's
               sparsity pattern plus random supersets of the nine orthotropic components, random key order,
               random magnitudes (Ry/bohr^3-like and GPa-like), random masses/volumes; plus a separate stream of
               degenerate inputs (compliance entry exactly 0 — the regression input of fix 1b22ce6 —, Pa-like
               magnitudes, missing orthotropic key, indefinite matrix).
correspondence the REAL `Calculator._calculate_compliances` and `CijVolumeBaseInterface` (unbound, on a stub that
               carries exactly the attributes they read) against the Lean model `CijModel/VRH.lean` run at Float
               (`c07.run`: own Gauss-Jordan inverse; `c07.report`: the implementation's compliances handed over as S).
oracle         independent of both: full 3x3x3x3 tensors built here with this file's own Voigt map, contractions
               by numpy.einsum, CODATA constants typed in below.
"""
from __future__ import annotations

import hashlib
import itertools
import json
import types

import numpy

from harness.common import Ctx, Result, Disagreement, OracleFailure, enc, dec_arr, b2f, family_close, jsonable

ASSUMPTIONS = [
    "numpy.linalg.inv is an external contract (parameter S of the theorems); measured on every case: |C.S - 1| <= 1e-9",
    "modulus_keys and modulus_adiabatic carry the same keys (true in Calculator: both come from the static table's key list)",
    "pint's rydberg -> kg km^2/s^2 factor and scipy's Avogadro constant are parameters of the model; compared with CODATA each run",
    "regression: inputs whose inverse has an entry exactly 0 (s12 = 0) or of Pa-like magnitude are replayed on every run "
    "(before repo commit 1b22ce6 an allclose(.,0) filter dropped such compliances and the Reuss moduli raised AttributeError); "
    "a return of that behaviour is reported with site Calculator._calculate_compliances:allclose-filter-drops-needed-compliance",
]
TRUSTED_EXTRA = [
    "stub calculator object (SimpleNamespace with modulus_adiabatic, modulus_keys, dims, qha_calculator.volume_base.{v_array,t_array}, "
    "elast_data.cellmass): the real methods/properties are executed on it, nothing of them is re-implemented",
]

# ---- oracle's own constants (CODATA 2018, typed in; NOT read from the code under test) -------------------------
N_A = 6.02214076e23                 # 1/mol, exact
RY_J = 2.1798723611035e-18          # J
RY_KG_KM2_S2 = RY_J * 1e-6          # 1 Ry in kg km^2 / s^2
VOIGT = {1: (1, 1), 2: (2, 2), 3: (3, 3), 4: (2, 3), 5: (1, 3), 6: (1, 2)}   # documented map (oracle's own copy)
ORTHO9 = [(1, 1), (2, 2), (3, 3), (1, 2), (2, 3), (1, 3), (4, 4), (5, 5), (6, 6)]
SITE_FILTER = "Calculator._calculate_compliances:allclose-filter-drops-needed-compliance"

EXTRA = {
    "orthorhombic": [], "cubic": [], "hexagonal": [], "tetragonal6": [],
    "tetragonal7": [(1, 6), (2, 6)],
    "trigonal6": [(1, 4), (2, 4), (5, 6)],
    "trigonal7": [(1, 4), (2, 4), (5, 6), (1, 5), (2, 5), (4, 6)],
    "monoclinic": [(1, 5), (2, 5), (3, 5), (4, 6)],
    "triclinic": [(i, j) for i in range(1, 7) for j in range(i, 7) if (i, j) not in ORTHO9],
}
ALL_OTHER = EXTRA["triclinic"]


# ------------------------------------------------------------------------------------------------ generator
def _symmetrise(system, M):
    """impose the equalities of the higher systems (realism only; the property needs none of them)"""
    if system == "cubic":
        a = (M[0, 0] + M[1, 1] + M[2, 2]) / 3; b = (M[0, 1] + M[0, 2] + M[1, 2]) / 3; c = (M[3, 3] + M[4, 4] + M[5, 5]) / 3
        for i in range(3): M[i, i] = a; M[i + 3, i + 3] = c
        for i, j in ((0, 1), (0, 2), (1, 2)): M[i, j] = M[j, i] = b
    elif system in ("hexagonal", "tetragonal6", "tetragonal7", "trigonal6", "trigonal7"):
        a = (M[0, 0] + M[1, 1]) / 2; M[0, 0] = M[1, 1] = a
        b = (M[0, 2] + M[1, 2]) / 2; M[0, 2] = M[2, 0] = M[1, 2] = M[2, 1] = b
        c = (M[3, 3] + M[4, 4]) / 2; M[3, 3] = M[4, 4] = c
        if system == "tetragonal7": M[1, 5] = M[5, 1] = -M[0, 5]
        if system in ("trigonal6", "trigonal7"):
            M[1, 3] = M[3, 1] = -M[0, 3]; M[4, 5] = M[5, 4] = M[0, 3]
            M[5, 5] = (M[0, 0] - M[0, 1]) / 2
        if system == "trigonal7":
            M[1, 4] = M[4, 1] = -M[0, 4]; M[3, 5] = M[5, 3] = -M[0, 4]
        if system == "hexagonal": M[5, 5] = (M[0, 0] - M[0, 1]) / 2
    return M


def _random_pattern_matrix(rng, pairs, scale, system):
    M = numpy.zeros((6, 6))
    d = rng.uniform(0.6, 3.0, 6) * scale
    d[3:] *= rng.uniform(0.2, 0.8)
    for i in range(6): M[i, i] = d[i]
    for (i, j) in pairs:
        if i == j: continue
        hi = 0.6 if (j <= 3) else 0.35
        x = rng.uniform(0.05, hi) * numpy.sqrt(d[i - 1] * d[j - 1])
        if j > 3 and rng.random() < 0.5: x = -x          # shear couplings take both signs
        if j <= 3 and rng.random() < 0.1: x = -x
        M[i - 1, j - 1] = M[j - 1, i - 1] = x
    return _symmetrise(system, M)


def make_case(rng, system=None, nt=None, nv=None, scale=None, unstable=False):
    systems = list(EXTRA) + ["random"] * 4
    system = system or systems[int(rng.integers(len(systems)))]
    if system == "random":
        k = int(rng.integers(0, len(ALL_OTHER) + 1))
        idx = rng.choice(len(ALL_OTHER), size=k, replace=False)
        pairs = ORTHO9 + [ALL_OTHER[i] for i in sorted(idx)]
    else:
        pairs = ORTHO9 + EXTRA[system]
    nt = nt or int(rng.integers(1, 4)); nv = nv or int(rng.integers(1, 5))
    scale = scale or float(rng.choice([0.004, 0.02, 0.05, 1.0, 150.0]) * rng.uniform(0.5, 2.0))
    for attempt in range(60):
        A = _random_pattern_matrix(rng, pairs, scale, system)
        dT = _random_pattern_matrix(rng, pairs, scale * 0.04, system)
        dV = _random_pattern_matrix(rng, pairs, scale * 0.10, system)
        shrink = 0.85 ** attempt
        C = numpy.empty((nt, nv, 6, 6))
        ok = True
        for t in range(nt):
            for v in range(nv):
                M = A - t * dT / max(nt, 1) + v * dV / max(nv, 1)
                off = M - numpy.diag(numpy.diag(M))
                M = numpy.diag(numpy.diag(M)) + off * shrink
                w = numpy.linalg.eigvalsh(M)
                if w[0] < 0.04 * w[-1]: ok = False
                C[t, v] = M
        if ok: break
    else:
        raise RuntimeError("generator could not produce an SPD field")
    order = list(rng.permutation(len(pairs)))
    keys = [pairs[i] for i in order]
    fields = [C[:, :, i - 1, j - 1].copy() for (i, j) in keys]
    v0 = float(rng.uniform(250.0, 900.0))
    v_array = v0 * numpy.linspace(1.05, 0.85, nv) if nv > 1 else numpy.array([v0])
    # a history of attribute reads performed BEFORE the averages are asked for (every spelling the interface accepts:
    # cIJ, c_IJ, cIJKL, with suffix s / t / none): results must not depend on what was read earlier
    pre = []
    for _ in range(int(rng.integers(0, 7))):
        i, j = keys[int(rng.integers(len(keys)))]
        std = {1: (1, 1), 2: (2, 2), 3: (3, 3), 4: (2, 3), 5: (1, 3), 6: (1, 2)}
        body = [f"{i}{j}", f"_{i}{j}", "%d%d%d%d" % (std[i] + std[j]), f"{j}{i}"][int(rng.integers(4))]
        pre.append("c" + body + ["", "s", "t", "t"][int(rng.integers(4))])
    # the order in which the nine reported quantities are read the first time (they are all read AGAIN at the end: what a later
    # read does to a value handed out earlier is part of the history the results must not depend on)
    read_order = [int(i) for i in rng.permutation(9)]
    case = {"kind": "spd", "system": system, "keys": [list(k) for k in keys], "fields": [f.tolist() for f in fields],
            "nt": nt, "nv": nv, "v": v_array.tolist(), "t": numpy.linspace(0.0, 300.0 * max(nt - 1, 1), nt).tolist(),
            "cellmass": float(rng.uniform(20.0, 600.0)), "pre_reads": pre, "read_order": read_order}
    if unstable and nt * nv >= 2:
        # one grid point with a shear instability (c44 < 0 there: indefinite but invertible), as at the hot / expanded corner of a
        # real (T,V) grid; the statement speaks about the positive-definite points, which must not be affected by that corner
        t0, v0 = int(rng.integers(nt)), int(rng.integers(nv))
        k44 = [tuple(k) for k in keys].index((4, 4))
        f = numpy.array(case["fields"][k44]); f[t0, v0] = -abs(f[t0, v0]); case["fields"][k44] = f.tolist()
        case["unstable_points"] = [[t0, v0]]
    return case


def edge_cases(rng):
    """degenerate stream; `pd` says whether the input is inside the property's quantifier"""
    out = []
    base = {"nt": 1, "nv": 1, "v": [500.0], "t": [0.0], "cellmass": 100.3}

    def ortho(vals, **kw):
        d = dict(base); d.update(kw)
        nt, nv = d["nt"], d["nv"]
        d["keys"] = [list(k) for k in ORTHO9]
        d["fields"] = [numpy.full((nt, nv), float(x)).tolist() for x in vals]
        return d
    # regression input of fix 1b22ce6 (`wInp` in Lemmas/VRHExamples.lean): PD, exact inverse has s12 = 0
    out.append(dict(ortho([10, 10, 4, 1, 2, 2, 1, 1, 1]), kind="edge:s12-zero-witness", pd=True))
    out.append(dict(ortho([10, 10, 4, 1, 2, 2, 1, 1, 1], nt=2, nv=3, v=[520.0, 500.0, 480.0], t=[0.0, 300.0]),
                    kind="edge:s12-zero-grid", pd=True))
    a = float(rng.uniform(0.5, 2.0))
    out.append(dict(ortho([40 * a, 40 * a, 16 * a, 4 * a, 8 * a, 8 * a, 5 * a, 3 * a, 2 * a]), kind="edge:s12-zero-scaled", pd=True))
    # Pa-like magnitudes: every compliance is < 1e-8 (was dropped by the old allclose filter)
    out.append(dict(ortho([3e11, 3e11, 3e11, 1e11, 1e11, 1e11, 1e11, 1e11, 1e11]), kind="edge:pa-magnitude", pd=True))
    # outside the quantifier: a missing orthotropic key / an indefinite matrix (correspondence only)
    d = ortho([3, 3, 3, 1, 1, 1, 1, 1, 1]); k = d["keys"].index([1, 3]); del d["keys"][k]; del d["fields"][k]
    out.append(dict(d, kind="edge:missing-c13", pd=False))
    out.append(dict(ortho([1, 1, 1, 2, 0.3, 0.2, 1, 1, 1]), kind="edge:indefinite", pd=False))
    return out


# ------------------------------------------------------------------------------------------------ real code
def _consts():
    """the numbers the code under test really uses (handed to the model as parameters)"""
    import scipy.constants
    from cij.util import units
    ry = units.Quantity(1.0, units.rydberg).to(units.kg * units.km ** 2 / units.s ** 2).magnitude
    return float(scipy.constants.physical_constants["Avogadro constant"][0]), float(ry)


def run_impl(case):
    """drive the real classes on a stub; every reported quantity or 'error'"""
    from cij.core.calculator import Calculator, CijVolumeBaseInterface
    from cij.util import c_
    keys = [c_(int(i), int(j)) for i, j in case["keys"]]
    fields = [numpy.array(f, dtype=float) for f in case["fields"]]
    stub = types.SimpleNamespace()
    stub.modulus_keys = keys
    stub.modulus_adiabatic = dict(zip(keys, fields))
    # isothermal tensor: distinct numbers (adiabatic minus 7 %), so that a mix-up of the two is visible
    stub.modulus_isothermal = {k: 0.93 * f for k, f in zip(keys, fields)}
    stub.dims = (case["nt"], case["nv"])
    stub.qha_calculator = types.SimpleNamespace(volume_base=types.SimpleNamespace(
        v_array=numpy.array(case["v"], dtype=float), t_array=numpy.array(case["t"], dtype=float)))
    stub.elast_data = types.SimpleNamespace(cellmass=float(case["cellmass"]))
    out = {}
    try:
        Calculator._calculate_compliances(stub)
        out["compl"] = {tuple(int(x) for x in k.v): numpy.array(v, dtype=float) for k, v in stub._compliances.items()}
    except Exception as e:
        out["compl"] = "error"; out["compl_exc"] = f"{type(e).__name__}: {e}"
        stub._compliances = {}
    vb = CijVolumeBaseInterface(stub)
    for name in case.get("pre_reads", []):
        try:
            getattr(vb, name)
        except Exception:
            pass
    QUANT = (("kV", "bulk_modulus_voigt"), ("kR", "bulk_modulus_reuss"), ("kH", "bulk_modulus_voigt_reuss_hill"),
             ("gV", "shear_modulus_voigt"), ("gR", "shear_modulus_reuss"), ("gH", "shear_modulus_voigt_reuss_hill"),
             ("mass", "mass"), ("vp", "primary_velocities"), ("vs", "secondary_velocities"))
    for idx in case.get("read_order", range(9)):
        name, attr = QUANT[idx]
        try:
            with numpy.errstate(all="ignore"):
                out[name] = numpy.array(getattr(vb, attr), dtype=float)        # a copy: later reads cannot change it
        except Exception as e:
            out[name] = "error"; out[name + "_exc"] = f"{type(e).__name__}: {e}"
    # read everything once more, on the same interface object: every value must be what it was
    changed = []
    for name, attr in QUANT:
        if isinstance(out[name], str): continue
        try:
            with numpy.errstate(all="ignore"):
                again = numpy.array(getattr(vb, attr), dtype=float)
            if again.shape != out[name].shape or not numpy.array_equal(again, out[name], equal_nan=True):
                changed.append(name)
        except Exception as e:
            changed.append(f"{name}:{type(e).__name__}")
    out["changed_on_reread"] = changed
    # attribute-style lookups c_ij / s_ij as the interface serves them
    look = {}
    for (i, j) in [(1, 1), (1, 2), (2, 3), (4, 4), (6, 6)]:
        for pre in ("c", "s"):
            try:
                look[f"{pre}{i}{j}"] = numpy.array(getattr(vb, f"{pre}{i}{j}"), dtype=float)
            except Exception:
                look[f"{pre}{i}{j}"] = "error"
    out["look"] = look
    # which tensor does each spelling serve, after everything that was read above?
    wrong = []
    for k, f in zip(keys, fields):
        i, j = k.v
        for name, exp in ((f"c{i}{j}", f), (f"c{i}{j}s", f), (f"c{i}{j}t", 0.93 * f), (f"c_{i}{j}", f)):
            try:
                got = numpy.array(getattr(vb, name), dtype=float)
                if got.shape != exp.shape or not numpy.array_equal(got, exp):
                    wrong.append(name)
            except Exception as e:
                wrong.append(f"{name}:{type(e).__name__}")
    out["wrong_lookup"] = wrong
    return out


# ------------------------------------------------------------------------------------------------ model
def model_op(case, consts, S=None):
    na, ry = consts
    op = {"op": "c07.run" if S is None else "c07.report", "keys": case["keys"], "fields": enc(case["fields"]),
          "nt": case["nt"], "nv": case["nv"], "v": enc(case["v"]), "cellmass": enc(float(case["cellmass"])),
          "avogadro": enc(na), "ry": enc(ry)}
    if S is not None: op["S"] = enc(S)
    return op


def decode_model(m):
    out = {}
    keys = [tuple(k) for k in m["compl_keys"]]
    out["compl"] = {k: dec_arr(f) for k, f in zip(keys, m["compl"])}
    for n in ("kV", "kR", "kH", "gV", "gR", "gH", "vp", "vs"):
        out[n] = "error" if m[n] == "error" else dec_arr(m[n])
    out["mass"] = numpy.array(b2f(m["mass"]))
    for n in ("C", "S", "C_iijj", "C_ijij", "S_iijj", "S_ijij"):
        out[n] = dec_arr(m[n])
    return out


NOISE = {}   # largest observed |impl-model|/scale per compared family (reported in the evidence)


def _cmp(name, a, b, rtol, scale=None):
    """None if equal (errors as tags, arrays family-close); else a note"""
    if isinstance(a, str) or isinstance(b, str):
        return None if (isinstance(a, str) and isinstance(b, str)) else f"{name}: impl={'error' if isinstance(a, str) else 'value'} model={'error' if isinstance(b, str) else 'value'}"
    ok, err, s = family_close(a, b, rtol=rtol, scale=scale)
    fam = ("s_ij" if name[0] == "s" and name[1:].isdigit() else name) + (" [S handed over]" if rtol == 1e-12 and not name.startswith("spec") else "")
    if numpy.isfinite(err): NOISE[fam] = max(NOISE.get(fam, 0.0), err)
    return None if ok else f"{name}: max|impl-model|/scale={err:.3e} (scale {s:.3e})"


def compare(case, impl, mod, rtol=1e-9):
    notes = []
    if isinstance(impl["compl"], str):
        notes.append("compl: impl raised " + impl.get("compl_exc", ""))
    else:
        ki, km = set(impl["compl"]), set(mod["compl"])
        if ki != km:
            notes.append(f"compl keys: impl-only={sorted(ki - km)} model-only={sorted(km - ki)}")
        common = sorted(ki & km)
        if common:
            sc = max(float(numpy.max(numpy.abs(impl["compl"][k]))) for k in common)
            for k in common:
                n = _cmp(f"s{k[0]}{k[1]}", impl["compl"][k], mod["compl"][k], rtol, scale=sc)
                if n: notes.append(n)
    fam = [impl[n] for n in ("kV", "kR", "kH", "gV", "gR", "gH") if not isinstance(impl[n], str)]
    sc = max([float(numpy.max(numpy.abs(x[numpy.isfinite(x)]))) for x in fam if numpy.isfinite(x).any()] or [0.0]) or None
    for n in ("kV", "kR", "kH", "gV", "gR", "gH"):
        r = _cmp(n, impl[n], mod[n], rtol, scale=sc)
        if r: notes.append(r)
    for n in ("vp", "vs"):
        r = _cmp(n, impl[n], mod[n], rtol)
        if r: notes.append(r)
    r = _cmp("mass", impl["mass"], mod["mass"], 1e-13)
    if r: notes.append(r)
    return notes


# ------------------------------------------------------------------------------------------------ oracle
def full_tensors(case, compl):
    """C_ijkl from the dictionary, S_ijkl from the REPORTED compliances (1, 1/2, 1/4 factors); own Voigt map"""
    nt, nv = case["nt"], case["nv"]
    vo = {}
    for p, (a, b) in VOIGT.items():
        vo[(a, b)] = p; vo[(b, a)] = p
    cd = {tuple(sorted(k)): numpy.array(f, dtype=float) for k, f in zip(case["keys"], case["fields"])}
    C4 = numpy.zeros((nt, nv, 3, 3, 3, 3)); S4 = numpy.zeros((nt, nv, 3, 3, 3, 3))
    C6 = numpy.zeros((nt, nv, 6, 6)); S6 = numpy.zeros((nt, nv, 6, 6))
    for i, j, k, l in itertools.product(range(1, 4), repeat=4):
        p, q = vo[(i, j)], vo[(k, l)]
        key = (min(p, q), max(p, q))
        if key in cd: C4[:, :, i - 1, j - 1, k - 1, l - 1] = cd[key]
        if key in compl:
            w = (1.0 if p <= 3 else 0.5) * (1.0 if q <= 3 else 0.5)
            S4[:, :, i - 1, j - 1, k - 1, l - 1] = w * compl[key]
    for p, q in itertools.product(range(1, 7), repeat=2):
        key = (min(p, q), max(p, q))
        if key in cd: C6[:, :, p - 1, q - 1] = cd[key]
        if key in compl: S6[:, :, p - 1, q - 1] = compl[key]
    return C4, S4, C6, S6


def oracle(case, impl, consts):
    """evaluate the property statement on what the real code reported; list of (clause, observed, expected)"""
    fails = []
    pd = case.get("pd", True)
    if not pd: return fails
    nt, nv = case["nt"], case["nv"]
    names = ("kV", "kR", "kH", "gV", "gR", "gH", "vp", "vs")
    missing = [n for n in names if isinstance(impl[n], str)] + (["compl"] if isinstance(impl["compl"], str) else [])
    if missing:
        exc = {n: impl.get(n + "_exc", "") for n in missing}
        # not reported at all for a positive-definite stiffness
        cd = {tuple(sorted(k)) for k in case["keys"]}
        compl = impl["compl"] if not isinstance(impl["compl"], str) else {}
        dropped = [k for k in ORTHO9 if k not in compl]
        clause = "filter-dropped" if (dropped and "kV" not in missing and "gV" not in missing and "compl" not in missing) else "not-reported"
        fails.append((clause, {"missing": missing, "exceptions": exc, "compliance_keys_absent": [list(k) for k in dropped]},
                      "all six moduli, the compliances and both velocities reported for a positive-definite stiffness"))
        return fails
    if impl.get("changed_on_reread"):
        fails.append(("reported value changes when read again", impl["changed_on_reread"], "the same arrays on every read"))
    compl = impl["compl"]
    C4, S4, C6, S6 = full_tensors(case, compl)
    # the statement is about positive-definite stiffness: grid points where the tensor is not (one may be planted) are left out,
    # every other point must satisfy every clause whatever happens at those
    pdm = numpy.linalg.eigvalsh(C6).min(axis=-1) > 0
    if not pdm.any(): return fails
    impl = dict(impl)
    for n in ("kV", "kR", "kH", "gV", "gR", "gH", "vp", "vs"):
        impl[n] = numpy.where(pdm, impl[n], 1.0)
    for T_ in (C4, S4):
        T_[~pdm] = 0.0
    C6[~pdm] = numpy.eye(6); S6[~pdm] = numpy.eye(6)
    with numpy.errstate(all="ignore"):
        C4[~pdm] = numpy.einsum("ik,jl->ijkl", numpy.eye(3), numpy.eye(3)) * 0.5 + numpy.einsum("il,jk->ijkl", numpy.eye(3), numpy.eye(3)) * 0.5
        S4[~pdm] = C4[~pdm]
    ciijj = numpy.einsum("tviijj->tv", C4); cijij = numpy.einsum("tvijij->tv", C4)
    siijj = numpy.einsum("tviijj->tv", S4); sijij = numpy.einsum("tvijij->tv", S4)
    exp = {"kV": ciijj / 9.0, "gV": (3.0 * cijij - ciijj) / 30.0, "kR": 1.0 / siijj, "gR": 15.0 / (6.0 * sijij - 2.0 * siijj)}
    for n in ("kV", "gV", "kR", "gR"):
        impl[n] = numpy.where(pdm, impl[n], exp[n])                     # left-out points: expected values on both sides
    exp["kH"] = (impl["kR"] + impl["kV"]) / 2.0
    exp["gH"] = (impl["gR"] + impl["gV"]) / 2.0
    for n in ("kH", "gH"):
        impl[n] = numpy.where(pdm, impl[n], exp[n])
    V_ = numpy.array(case["v"], dtype=float)[None, :]
    rho_ = case["cellmass"] * 1e-3 / (N_A * V_)
    impl["vs"] = numpy.where(pdm, impl["vs"], numpy.sqrt(numpy.abs(impl["gH"]) * RY_KG_KM2_S2 / rho_))
    impl["vp"] = numpy.where(pdm, impl["vp"], numpy.sqrt(numpy.abs(impl["kH"] + 4.0 * impl["gH"] / 3.0) * RY_KG_KM2_S2 / rho_))
    sc = max(float(numpy.max(numpy.abs(impl[n]))) for n in ("kV", "kR", "kH", "gV", "gR", "gH"))
    label = {"kV": "K_V = C_iijj/9", "gV": "G_V = (3C_ijij - C_iijj)/30", "kR": "K_R = 1/S_iijj",
             "gR": "G_R = 15/(6S_ijij - 2S_iijj)", "kH": "K_VRH = (K_R+K_V)/2", "gH": "G_VRH = (G_R+G_V)/2"}
    for n in ("kV", "gV", "kR", "gR", "kH", "gH"):
        ok, err, _ = family_close(impl[n], exp[n], rtol=1e-9, scale=sc)
        if not ok:
            fails.append((label[n], impl[n].tolist(), exp[n].tolist()))
    # Reuss <= Hill <= Voigt
    eps = 1e-12 * sc
    for a, b, c, nm in ((impl["kR"], impl["kH"], impl["kV"], "K"), (impl["gR"], impl["gH"], impl["gV"], "G")):
        if not (numpy.all(a <= b + eps) and numpy.all(b <= c + eps) and numpy.all(a > 0)):
            fails.append((f"0 < {nm}_R <= {nm}_VRH <= {nm}_V", [a.tolist(), b.tolist(), c.tolist()], "ordered"))
    # reported compliances are the inverse of the reported stiffness: fourth-rank and 6x6
    I4 = numpy.zeros((3, 3, 3, 3))
    for i, j, m, n in itertools.product(range(3), repeat=4):
        I4[i, j, m, n] = 0.5 * ((i == m) * (j == n) + (i == n) * (j == m))
    prod = numpy.einsum("tvijkl,tvklmn->tvijmn", C4, S4)
    e4 = float(numpy.max(numpy.abs(prod - I4)))
    e6 = float(numpy.max(numpy.abs(numpy.einsum("tvij,tvjk->tvik", C6, S6) - numpy.eye(6))))
    # dropped entries are below 1e-8 in absolute value; their contribution to C.S is bounded by 6*max|C|*1e-8
    slack = 1e-9 + 6.0 * float(numpy.max(numpy.abs(C6))) * 1e-8 * (len(compl) < 21)
    if e4 > slack or e6 > slack:
        fails.append(("C_ijkl S_klmn = (d_im d_jn + d_in d_jm)/2", {"max_dev_4th_rank": e4, "max_dev_6x6": e6}, f"<= {slack:.2e}"))
    # velocities: rho v^2 identities in SI-derived units, CODATA constants typed in above
    V = numpy.array(case["v"], dtype=float)[None, :]
    rho = case["cellmass"] * 1e-3 / (N_A * V)                       # kg / bohr^3
    lhs_s = rho * impl["vs"] ** 2; rhs_s = impl["gH"] * RY_KG_KM2_S2
    lhs_p = rho * impl["vp"] ** 2; rhs_p = (impl["kH"] + 4.0 * impl["gH"] / 3.0) * RY_KG_KM2_S2
    for nm, l, r in (("rho v_s^2 = G_VRH", lhs_s, rhs_s), ("rho v_p^2 = K_VRH + 4 G_VRH/3", lhs_p, rhs_p)):
        ok, err, _ = family_close(l, r, rtol=1e-9)
        if not ok:
            fails.append((nm, l.tolist(), r.tolist()))
    m_exp = case["cellmass"] * 1e-3 / N_A
    if not abs(float(impl["mass"]) - m_exp) <= 1e-12 * m_exp:
        fails.append(("mass = cellmass[g/mol] 1e-3 / N_A kg", float(impl["mass"]), m_exp))
    return fails


def site_of(clause):
    return SITE_FILTER if clause == "filter-dropped" else "C07:" + clause


def replay_payload(case):
    return {k: case[k] for k in ("kind", "system", "keys", "fields", "nt", "nv", "v", "t", "cellmass", "pd", "pre_reads") if k in case}


def evaluate(ctx, cases, consts, res, with_model=True):
    """correspondence + oracle on a batch of cases"""
    impls = [run_impl(c) for c in cases]
    mods = reps = [None] * len(cases)
    if with_model:
        mods = [decode_model(m) for m in ctx.driver.ask([model_op(c, consts) for c in cases])]
        # second pass: the model's `report` with the implementation's compliances handed over as S
        ops, idx = [], []
        for n, (c, im) in enumerate(zip(cases, impls)):
            if isinstance(im["compl"], str) or not c.get("pd", True): continue
            _, _, _, S6 = full_tensors(c, im["compl"])
            ops.append(model_op(c, consts, S=S6)); idx.append(n)
        reps = [None] * len(cases)
        for n, m in zip(idx, ctx.driver.ask(ops)):
            reps[n] = decode_model(m)
    for c, im, mo, rp in zip(cases, impls, mods, reps):
        res.evaluations += 1
        notes = []
        if with_model:
            notes = compare(c, im, mo)
            # the model's assembled matrix and specification-side contractions against this file's own tensors
            compl = im["compl"] if not isinstance(im["compl"], str) else {}
            C4, S4, C6, S6 = full_tensors(c, compl)
            if not numpy.array_equal(mo["C"], C6):
                notes.append("assembled 6x6: model differs from symmetric fill")
            for nm, arr in (("C_iijj", numpy.einsum("tviijj->tv", C4)), ("C_ijij", numpy.einsum("tvijij->tv", C4))):
                r = _cmp("spec " + nm, arr, mo[nm], 1e-12)
                if r: notes.append(r)
            if rp is not None:
                notes += ["[S handed over] " + n for n in compare(c, im, rp, rtol=1e-12)]
                for nm, arr in (("S_iijj", numpy.einsum("tviijj->tv", S4)), ("S_ijij", numpy.einsum("tvijij->tv", S4))):
                    r = _cmp("spec " + nm, arr, rp[nm], 1e-12)
                    if r: notes.append(r)
            # contract of the external inverse, measured
            if c.get("pd", True) and compl:
                dev = float(numpy.max(numpy.abs(numpy.einsum("tvij,tvjk->tvik", C6, mo["S"]) - numpy.eye(6))))
                res.extra["max_CS_minus_1_model_inverse"] = max(res.extra.get("max_CS_minus_1_model_inverse", 0.0), dev)
                if len(compl) == 21 or all(k in compl for k in ORTHO9):
                    dev2 = float(numpy.max(numpy.abs(numpy.einsum("tvij,tvjk->tvik", C6, S6) - numpy.eye(6))))
                    res.extra["max_CS_minus_1_numpy_inverse"] = max(res.extra.get("max_CS_minus_1_numpy_inverse", 0.0), dev2)
                    if dev2 > 1e-9 + 6.0 * float(numpy.max(numpy.abs(C6))) * 1e-8:
                        res.contract_failures.append(f"numpy.linalg.inv: |C.S-1| = {dev2:.2e} ({c['kind']})")
            if notes:
                res.disagreements.append(Disagreement("c07.run", replay_payload(c), {k: jsonable(v) for k, v in im.items() if k in ("kV", "kR", "gV", "gR", "vp", "vs")},
                                                      {k: jsonable(mo[k]) for k in ("kV", "kR", "gV", "gR", "vp", "vs")}, "; ".join(notes[:6])))
            else:
                res.traces_validated += 1
        if im.get("wrong_lookup"):
            res.oracle_failures.append(OracleFailure(
                what=f"attribute lookup serves the wrong tensor after reads {c.get('pre_reads', [])}: {im['wrong_lookup'][:4]}",
                input=replay_payload(c), observed=im["wrong_lookup"][:8],
                expected="cIJ / cIJs = adiabatic, cIJt = isothermal, whatever was read before", site="lookup:adiabatic-isothermal-mixup"))
        for clause, obs, exp in oracle(c, im, consts):
            res.oracle_failures.append(OracleFailure(what=f"{clause} fails ({c['kind']}/{c.get('system', '')})",
                                                     input=replay_payload(c), observed=obs, expected=exp, site=site_of(clause)))
    return impls


def case_hash(c):
    return hashlib.sha256(json.dumps([c["keys"], c["fields"], c["v"], c["cellmass"]], sort_keys=True).encode()).hexdigest()


def check_constants(consts, res):
    na, ry = consts
    if abs(na - N_A) > 1e-12 * N_A:
        res.contract_failures.append(f"Avogadro constant used by the code {na!r} != CODATA {N_A!r}")
    if abs(ry - RY_KG_KM2_S2) > 1e-9 * RY_KG_KM2_S2:
        res.contract_failures.append(f"pint rydberg->kg km^2/s^2 {ry!r} != CODATA Ry[J]*1e-6 {RY_KG_KM2_S2!r}")
    res.extra["constants"] = {"avogadro_used": na, "ry_factor_used": ry, "ry_factor_codata": RY_KG_KM2_S2}


def run(ctx: Ctx) -> Result:
    res = Result()
    consts = _consts()
    check_constants(consts, res)
    rng = ctx.rng
    n_main = 1500 if ctx.thorough() else 220
    cases = []
    for c in ctx.corpus():
        cases.append(dict(c, kind=c.get("kind", "corpus")))
    # every crystal system at least a few times, then the mixed stream
    for system in EXTRA:
        for _ in range(6 if ctx.thorough() else 3):
            cases.append(make_case(rng, system=system))
    for _ in range(40 if ctx.thorough() else 12):
        cases.append(make_case(rng, nt=int(rng.integers(2, 4)), nv=int(rng.integers(2, 5)), unstable=True))
    while len(cases) < n_main:
        cases.append(make_case(rng))
    if ctx.thorough():
        for _ in range(20):
            cases.append(make_case(rng, nt=int(rng.integers(4, 9)), nv=int(rng.integers(5, 13))))
    edges = edge_cases(rng)
    B = 100
    for i in range(0, len(cases), B):
        evaluate(ctx, cases[i:i + B], consts, res)
        if ctx.time_left() < 60: break
    evaluate(ctx, edges, consts, res)
    allc = cases + edges
    res.distinct_nontrivial = len({case_hash(c) for c in allc if c["kind"] == "spd" and len(c["keys"]) >= 9})
    res.rule = ("a case = one stiffness field on a (T,V) grid + key order + volumes + cell mass; SPD cases are generated per crystal-system "
                "sparsity pattern or a random superset of the nine orthotropic keys, min eigenvalue >= 0.04 max eigenvalue at every grid point; "
                "non-trivial = SPD case with >= 9 keys (every one has non-zero off-diagonal couplings); distinct = distinct sha256 of "
                "(keys, fields, volumes, mass)")
    dist = {"by_system": {}, "by_grid": {}, "n_keys": {}, "edge_kinds": [e["kind"] for e in edges], "magnitude_decades": {}}
    for c in cases:
        dist["by_system"][c.get("system", "?")] = dist["by_system"].get(c.get("system", "?"), 0) + 1
        g = f"{c['nt']}x{c['nv']}"; dist["by_grid"][g] = dist["by_grid"].get(g, 0) + 1
        nk = str(len(c["keys"])); dist["n_keys"][nk] = dist["n_keys"].get(nk, 0) + 1
        dec = str(int(numpy.floor(numpy.log10(abs(c["fields"][0][0][0]) + 1e-300))))
        dist["magnitude_decades"][dec] = dist["magnitude_decades"].get(dec, 0) + 1
    dist["grid_points_total"] = int(sum(c["nt"] * c["nv"] for c in allc))
    res.distribution = dist
    s = cases[len(ctx.corpus())]
    im = run_impl(s)
    res.samples = [{"system": s["system"], "keys": s["keys"], "grid": [s["nt"], s["nv"]], "v": s["v"], "cellmass": s["cellmass"],
                    "c11[0][0]": s["fields"][s["keys"].index([1, 1])][0][0],
                    "impl": {k: (jsonable(im[k]) if not isinstance(im[k], str) else im[k]) for k in ("kV", "kR", "kH", "gV", "gR", "gH", "vp", "vs")}},
                   {"edge": edges[0]["kind"], "keys": edges[0]["keys"], "values": [f[0][0] for f in edges[0]["fields"]]}]
    res.extra["max_observed_model_vs_code_deviation"] = {k: float(v) for k, v in sorted(NOISE.items())}
    res.notes.append("tolerances: model vs code 1e-9 of the family scale (own inverse), 1e-12 with S handed over; oracle 1e-9; "
                     "|C.S-1| contract 1e-9")
    return res


def search(ctx: Ctx, res: Result):
    """tie broken (proof or correspondence) and run() found no failing input: look harder with the oracle alone"""
    consts = _consts()
    out = Result()
    from harness.common import make_rng
    for k in range(1, 6):
        rng = make_rng(ctx.seed + 1000 * k, "C07-search")
        cases = [make_case(rng, system=s) for s in EXTRA for _ in range(4)] + [make_case(rng) for _ in range(60)]
        # neighbours of the disagreeing inputs: same pattern, fresh values
        for d in res.disagreements[:5]:
            try:
                cases.append(make_case(rng, system=d.input.get("system"), nt=d.input.get("nt"), nv=d.input.get("nv")))
            except Exception:
                pass
        evaluate(ctx, cases, consts, out, with_model=False)
        if out.oracle_failures or ctx.time_left() < 30: break
    return out.oracle_failures


def replay(ctx: Ctx, payload):
    consts = _consts()
    case = dict(payload)
    im = run_impl(case)
    return [OracleFailure(what=f"{cl} fails", input=payload, observed=o, expected=e, site=site_of(cl))
            for cl, o, e in oracle(case, im, consts)]
