"""C07 — VRH averages, Reuss <= Hill <= Voigt, compliance = inverse stiffness, velocities in km/s.

generator      random symmetric-positive-definite 6x6 stiffness FIELDS on a (T,V) grid, for every crystal system's
               sparsity pattern plus random supersets of the nine orthotropic components, random key order,
               random magnitudes (Ry/bohr^3-like and GPa-like), random masses/volumes; plus a separate stream of
               degenerate inputs (compliance entry exactly 0 — the regression input of fix 1b22ce6 —, Pa-like
               magnitudes, missing orthotropic key, indefinite matrix).
correspondence the REAL `Calculator._calculate_compliances` and `CijVolumeBaseInterface` (unbound, on a stub that
               carries exactly the attributes they read) against the Lean model `CijModel/VRH.lean` run at Float
               (`c07.run`: own Gauss-Jordan inverse; `c07.report`: the implementation's compliances handed over as S).
oracle         independent of both: full 3x3x3x3 tensors built here with this file's own Voigt map, contractions
               by numpy.einsum, CODATA constants typed in below.
glue streams   (what the translator tie of the Calculator / interface glue, Generated/CalcGlueSpec.lean, shows is worth testing)
               * key lists in structured non-sorted orders (c12 before c11, c44 first, reversed, off-diagonal first): the order of first
                 appearance of the Voigt indices differs from 1..6;
               * stubs that are REAL `Calculator` instances (`object.__new__`, no `__init__`): class-level attributes, the real `dims`
                 property and the real `modulus_keys` LazyProperty take part;
               * `orders`: every reported quantity read several times in several orders on one object, each read compared with a
                 FRESH object;
               * `pairs`: two calculators alive at once, compliances computed for both, then read alternately; the statement is evaluated
                 on what each one reports in that history;
               * `lookup`: every spelling `REGEX_CIJ` accepts (2 / 4 digits, `_`, suffix s/t, swapped indices, trailing newline) and
                 near misses, through the real `__getattr__` with identity-tagged arrays, against the extracted pattern / dispatch run by
                 the driver (`c07.lookup`) and against this file's own hand parser;
               * `real`: two real `Calculator(settings)` on synthetic data sets alive at once (same file names, different data), read
                 alternately, statement evaluated on both.
"""
from __future__ import annotations

import hashlib
import itertools
import json
import os
import types

import numpy

from harness.common import Ctx, Result, Disagreement, OracleFailure, enc, dec_arr, b2f, family_close, jsonable

ASSUMPTIONS = [
    "numpy.linalg.inv is an external contract (parameter S of the theorems); measured on every case: |C.S - 1| <= 1e-9",
    "modulus_keys and modulus_adiabatic carry the same keys (true in Calculator: both come from the static table's key list)",
    "pint's rydberg -> kg km^2/s^2 factor and scipy's Avogadro constant are parameters of the model; compared with CODATA each run",
    "regression: inputs whose inverse has an entry exactly 0 (s12 = 0) or of Pa-like magnitude are replayed on every run "
    "(before repo commit 1b22ce6 an allclose(.,0) filter dropped such compliances and the Reuss moduli raised AttributeError); "
    "a return of that behaviour is reported with site Calculator._calculate_compliances:allclose-filter-drops-needed-compliance",
    "which names reach __getattr__ is PROVED from the translated classes (calc_glue_accepted_names_reach_getattr, calc_glue_getattr_*): class-body "
    "names, attributes assigned on self, LazyProperty caches; what remains assumed is Python's lookup order itself and that whatever `object` / the "
    "type machinery add is spelled `__...` (hypothesis `builtin` of the theorems; checked on the real objects by the shadow stream, which also runs "
    "the full 2808-name language against inspect.getattr_static and getattr); no code outside calculator.py assigns attributes on the interfaces. "
    "Python's `$` also matches before one trailing newline: modelled, and exercised by the lookup stream",
    "`sIJt` / `s_IJt` / `sijklt` (compliance under the isothermal name): AttributeError since the repair of `__getattr__` (s-branch tests "
    "group(3)); the oracle accepts any exception or the inverse of the isothermal stiffness `cIJt`, and reports the adiabatic compliance "
    "under that name with site c07:lookup:sIJt-returns-adiabatic-compliance (the behaviour before the repair)",
    "a second Calculator that cannot be CONSTRUCTED while another exists, although a fresh interpreter processes the same data set, is "
    "reported as 'not reported for a positive-definite stiffness' (site history:two-real-calculators)",
]
TRUSTED_EXTRA = [
    "stub calculator object (SimpleNamespace with modulus_adiabatic, modulus_keys, dims, qha_calculator.volume_base.{v_array,t_array}, "
    "elast_data.cellmass; or a real Calculator instance created without __init__ carrying the same attributes, with the real `dims` and "
    "`modulus_keys`): the real methods/properties are executed on it, nothing of them is re-implemented",
    "tools/gens/calc_src.py (translator plug-in, ~750 lines: REGEX_CIJ parts, __getattr__ dispatch, index data of _calculate_compliances, "
    "__init__ order and attribute reads/writes, class-level / module-level state, decorators and in-place operations of every method of "
    "cij/core/calculator.py -> Generated/CalcGlueSpec.lean); its alias analysis for in-place operations is syntactic and conservative",
]

# ---- oracle's own constants (CODATA 2018, typed in; NOT read from the code under test) -------------------------
N_A = 6.02214076e23                 # 1/mol, exact
RY_J = 2.1798723611035e-18          # J
RY_KG_KM2_S2 = RY_J * 1e-6          # 1 Ry in kg km^2 / s^2
VOIGT = {1: (1, 1), 2: (2, 2), 3: (3, 3), 4: (2, 3), 5: (1, 3), 6: (1, 2)}   # documented map (oracle's own copy)
ORTHO9 = [(1, 1), (2, 2), (3, 3), (1, 2), (2, 3), (1, 3), (4, 4), (5, 5), (6, 6)]
SITE_FILTER = "Calculator._calculate_compliances:allclose-filter-drops-needed-compliance"
SITE_SIJT = "c07:lookup:sIJt-returns-adiabatic-compliance"
CLAUSE_SIJT = "sIJt-returns-adiabatic-compliance"
ISO_FACTOR = 0.93          # stub calculators: isothermal tensor = 0.93 x adiabatic tensor (distinct numbers, same pattern)

EXTRA = {
    "orthorhombic": [], "cubic": [], "hexagonal": [], "tetragonal6": [],
    "tetragonal7": [(1, 6), (2, 6)],
    "trigonal6": [(1, 4), (2, 4), (5, 6)],
    "trigonal7": [(1, 4), (2, 4), (5, 6), (1, 5), (2, 5), (4, 6)],
    "monoclinic": [(1, 5), (2, 5), (3, 5), (4, 6)],
    "triclinic": [(i, j) for i in range(1, 7) for j in range(i, 7) if (i, j) not in ORTHO9],
}
ALL_OTHER = EXTRA["triclinic"]


# ------------------------------------------------------------------------------------------------ generator
def _symmetrise(system, M):
    """impose the equalities of the higher systems (realism only; the property needs none of them)"""
    if system == "cubic":
        a = (M[0, 0] + M[1, 1] + M[2, 2]) / 3; b = (M[0, 1] + M[0, 2] + M[1, 2]) / 3; c = (M[3, 3] + M[4, 4] + M[5, 5]) / 3
        for i in range(3): M[i, i] = a; M[i + 3, i + 3] = c
        for i, j in ((0, 1), (0, 2), (1, 2)): M[i, j] = M[j, i] = b
    elif system in ("hexagonal", "tetragonal6", "tetragonal7", "trigonal6", "trigonal7"):
        a = (M[0, 0] + M[1, 1]) / 2; M[0, 0] = M[1, 1] = a
        b = (M[0, 2] + M[1, 2]) / 2; M[0, 2] = M[2, 0] = M[1, 2] = M[2, 1] = b
        c = (M[3, 3] + M[4, 4]) / 2; M[3, 3] = M[4, 4] = c
        if system == "tetragonal7": M[1, 5] = M[5, 1] = -M[0, 5]
        if system in ("trigonal6", "trigonal7"):
            M[1, 3] = M[3, 1] = -M[0, 3]; M[4, 5] = M[5, 4] = M[0, 3]
            M[5, 5] = (M[0, 0] - M[0, 1]) / 2
        if system == "trigonal7":
            M[1, 4] = M[4, 1] = -M[0, 4]; M[3, 5] = M[5, 3] = -M[0, 4]
        if system == "hexagonal": M[5, 5] = (M[0, 0] - M[0, 1]) / 2
    return M


def _random_pattern_matrix(rng, pairs, scale, system):
    M = numpy.zeros((6, 6))
    d = rng.uniform(0.6, 3.0, 6) * scale
    d[3:] *= rng.uniform(0.2, 0.8)
    for i in range(6): M[i, i] = d[i]
    for (i, j) in pairs:
        if i == j: continue
        hi = 0.6 if (j <= 3) else 0.35
        x = rng.uniform(0.05, hi) * numpy.sqrt(d[i - 1] * d[j - 1])
        if j > 3 and rng.random() < 0.5: x = -x          # shear couplings take both signs
        if j <= 3 and rng.random() < 0.1: x = -x
        M[i - 1, j - 1] = M[j - 1, i - 1] = x
    return _symmetrise(system, M)


KEY_ORDERS = ("random", "random", "sorted", "reversed", "c12-first", "c44-first", "offdiag-first")


def order_keys(rng, pairs, mode):
    """the order in which `modulus_keys` lists the components (= column order of the static table)"""
    pairs = list(pairs)
    if mode == "sorted": return sorted(pairs)
    if mode == "reversed": return sorted(pairs)[::-1]
    if mode == "c12-first": return [(1, 2)] + [p for p in sorted(pairs) if p != (1, 2)]
    if mode == "c44-first": return [p for p in sorted(pairs) if p[0] >= 4] + [p for p in sorted(pairs) if p[0] < 4]
    if mode == "offdiag-first": return [p for p in sorted(pairs) if p[0] != p[1]][::-1] + [p for p in sorted(pairs) if p[0] == p[1]]
    return [pairs[i] for i in rng.permutation(len(pairs))]


def first_appearance(keys):
    """Voigt indices in order of first appearance in the key list"""
    out = []
    for k in keys:
        for v in k:
            if v not in out: out.append(int(v))
    return out


def make_case(rng, system=None, nt=None, nv=None, scale=None, unstable=False, key_order=None, stub=None):
    systems = list(EXTRA) + ["random"] * 4
    system = system or systems[int(rng.integers(len(systems)))]
    if system == "random":
        k = int(rng.integers(0, len(ALL_OTHER) + 1))
        idx = rng.choice(len(ALL_OTHER), size=k, replace=False)
        pairs = ORTHO9 + [ALL_OTHER[i] for i in sorted(idx)]
    else:
        pairs = ORTHO9 + EXTRA[system]
    nt = nt or int(rng.integers(1, 4)); nv = nv or int(rng.integers(1, 5))
    scale = scale or float(rng.choice([0.004, 0.02, 0.05, 1.0, 150.0]) * rng.uniform(0.5, 2.0))
    for attempt in range(60):
        A = _random_pattern_matrix(rng, pairs, scale, system)
        dT = _random_pattern_matrix(rng, pairs, scale * 0.04, system)
        dV = _random_pattern_matrix(rng, pairs, scale * 0.10, system)
        shrink = 0.85 ** attempt
        C = numpy.empty((nt, nv, 6, 6))
        ok = True
        for t in range(nt):
            for v in range(nv):
                M = A - t * dT / max(nt, 1) + v * dV / max(nv, 1)
                off = M - numpy.diag(numpy.diag(M))
                M = numpy.diag(numpy.diag(M)) + off * shrink
                w = numpy.linalg.eigvalsh(M)
                if w[0] < 0.04 * w[-1]: ok = False
                C[t, v] = M
        if ok: break
    else:
        raise RuntimeError("generator could not produce an SPD field")
    key_order = key_order or KEY_ORDERS[int(rng.integers(len(KEY_ORDERS)))]
    keys = order_keys(rng, pairs, key_order)
    fields = [C[:, :, i - 1, j - 1].copy() for (i, j) in keys]
    v0 = float(rng.uniform(250.0, 900.0))
    v_array = v0 * numpy.linspace(1.05, 0.85, nv) if nv > 1 else numpy.array([v0])
    # a history of attribute reads performed BEFORE the averages are asked for (every spelling the interface accepts:
    # cIJ, c_IJ, cIJKL, with suffix s / t / none): results must not depend on what was read earlier
    pre = []
    for _ in range(int(rng.integers(0, 7))):
        i, j = keys[int(rng.integers(len(keys)))]
        std = {1: (1, 1), 2: (2, 2), 3: (3, 3), 4: (2, 3), 5: (1, 3), 6: (1, 2)}
        body = [f"{i}{j}", f"_{i}{j}", "%d%d%d%d" % (std[i] + std[j]), f"{j}{i}"][int(rng.integers(4))]
        pre.append("c" + body + ["", "s", "t", "t"][int(rng.integers(4))])
    # the order in which the nine reported quantities are read the first time (they are all read AGAIN at the end: what a later
    # read does to a value handed out earlier is part of the history the results must not depend on)
    read_order = [int(i) for i in rng.permutation(9)]
    case = {"kind": "spd", "system": system, "keys": [list(k) for k in keys], "fields": [f.tolist() for f in fields],
            "nt": nt, "nv": nv, "v": v_array.tolist(), "t": numpy.linspace(0.0, 300.0 * max(nt - 1, 1), nt).tolist(),
            "cellmass": float(rng.uniform(20.0, 600.0)), "pre_reads": pre, "read_order": read_order, "key_order": key_order,
            "stub": stub or ("instance" if rng.random() < 0.5 else "namespace")}
    if unstable and nt * nv >= 2:
        # one grid point with a shear instability (c44 < 0 there: indefinite but invertible), as at the hot / expanded corner of a
        # real (T,V) grid; the statement speaks about the positive-definite points, which must not be affected by that corner
        t0, v0 = int(rng.integers(nt)), int(rng.integers(nv))
        k44 = [tuple(k) for k in keys].index((4, 4))
        # depth of the instability: c44 -> -w |c44|; for small w the Reuss sum itself turns negative there (G_R < 0), for w = 1 only
        # G_R > G_V
        w = float([1.0, 0.3, 0.1, 0.03][int(rng.integers(4))])
        f = numpy.array(case["fields"][k44]); f[t0, v0] = -w * abs(f[t0, v0]); case["fields"][k44] = f.tolist()
        case["unstable_points"] = [[t0, v0]]; case["unstable_depth"] = w
    return case


def edge_cases(rng):
    """degenerate stream; `pd` says whether the input is inside the property's quantifier"""
    out = []
    base = {"nt": 1, "nv": 1, "v": [500.0], "t": [0.0], "cellmass": 100.3}

    def ortho(vals, **kw):
        d = dict(base); d.update(kw)
        nt, nv = d["nt"], d["nv"]
        d["keys"] = [list(k) for k in ORTHO9]
        d["fields"] = [numpy.full((nt, nv), float(x)).tolist() for x in vals]
        return d
    # regression input of fix 1b22ce6 (`wInp` in Lemmas/VRHExamples.lean): PD, exact inverse has s12 = 0
    out.append(dict(ortho([10, 10, 4, 1, 2, 2, 1, 1, 1]), kind="edge:s12-zero-witness", pd=True))
    out.append(dict(ortho([10, 10, 4, 1, 2, 2, 1, 1, 1], nt=2, nv=3, v=[520.0, 500.0, 480.0], t=[0.0, 300.0]),
                    kind="edge:s12-zero-grid", pd=True))
    a = float(rng.uniform(0.5, 2.0))
    out.append(dict(ortho([40 * a, 40 * a, 16 * a, 4 * a, 8 * a, 8 * a, 5 * a, 3 * a, 2 * a]), kind="edge:s12-zero-scaled", pd=True))
    # Pa-like magnitudes: every compliance is < 1e-8 (was dropped by the old allclose filter)
    out.append(dict(ortho([3e11, 3e11, 3e11, 1e11, 1e11, 1e11, 1e11, 1e11, 1e11]), kind="edge:pa-magnitude", pd=True))
    # outside the quantifier: a missing orthotropic key / an indefinite matrix (correspondence only)
    d = ortho([3, 3, 3, 1, 1, 1, 1, 1, 1]); k = d["keys"].index([1, 3]); del d["keys"][k]; del d["fields"][k]
    out.append(dict(d, kind="edge:missing-c13", pd=False))
    out.append(dict(ortho([1, 1, 1, 2, 0.3, 0.2, 1, 1, 1]), kind="edge:indefinite", pd=False))
    return out


# ------------------------------------------------------------------------------------------------ real code
def _consts():
    """the numbers the code under test really uses (handed to the model as parameters)"""
    import scipy.constants
    from cij.util import units
    ry = units.Quantity(1.0, units.rydberg).to(units.kg * units.km ** 2 / units.s ** 2).magnitude
    return float(scipy.constants.physical_constants["Avogadro constant"][0]), float(ry)


QUANT = (("kV", "bulk_modulus_voigt"), ("kR", "bulk_modulus_reuss"), ("kH", "bulk_modulus_voigt_reuss_hill"),
         ("gV", "shear_modulus_voigt"), ("gR", "shear_modulus_reuss"), ("gH", "shear_modulus_voigt_reuss_hill"),
         ("mass", "mass"), ("vp", "primary_velocities"), ("vs", "secondary_velocities"))


def make_stub(case):
    """the object the real methods run on.  kind "namespace": a SimpleNamespace carrying exactly the attributes they read;
    kind "instance": a real `Calculator` object made without `__init__` — class-level attributes of `Calculator`, its `dims` property
    and its `modulus_keys` LazyProperty (over `elast_data.volumes[0].static_elastic_modulus`) are the real ones."""
    from cij.core.calculator import Calculator
    from cij.util import c_
    keys = [c_(int(i), int(j)) for i, j in case["keys"]]
    fields = [numpy.array(f, dtype=float) for f in case["fields"]]
    t_array, v_array = numpy.array(case["t"], dtype=float), numpy.array(case["v"], dtype=float)
    vbq = types.SimpleNamespace(v_array=v_array, t_array=t_array)
    if case.get("stub") == "instance":
        stub = object.__new__(Calculator)
        stub.qha_calculator = types.SimpleNamespace(volume_base=vbq, t_array=t_array, v_array=v_array)
        stub.elast_data = types.SimpleNamespace(cellmass=float(case["cellmass"]),
                                                volumes=[types.SimpleNamespace(static_elastic_modulus={k: None for k in keys})])
    else:
        stub = types.SimpleNamespace()
        stub.modulus_keys = keys
        stub.dims = (case["nt"], case["nv"])
        stub.qha_calculator = types.SimpleNamespace(volume_base=vbq)
        stub.elast_data = types.SimpleNamespace(cellmass=float(case["cellmass"]))
    stub.modulus_adiabatic = dict(zip(keys, fields))
    # isothermal tensor: distinct numbers (adiabatic minus 7 %), so that a mix-up of the two is visible
    stub.modulus_isothermal = {k: ISO_FACTOR * f for k, f in zip(keys, fields)}
    return stub, keys, fields


def compute_compliances(stub, out):
    from cij.core.calculator import Calculator
    try:
        Calculator._calculate_compliances(stub)
        out["compl"] = {tuple(int(x) for x in k.v): numpy.array(v, dtype=float) for k, v in stub._compliances.items()}
    except Exception as e:
        out["compl"] = "error"; out["compl_exc"] = f"{type(e).__name__}: {e}"
        try:
            stub._compliances = {}
        except Exception:
            pass


def read_quantity(vb, attr):
    with numpy.errstate(all="ignore"):
        return numpy.array(getattr(vb, attr), dtype=float)        # a copy: later reads cannot change it


_STD = {1: "11", 2: "22", 3: "33", 4: "23", 5: "13", 6: "12"}


def read_sijt(vb, keys):
    """the compliance names with the ISOTHERMAL suffix, every spelling, for a few index pairs: array, or the name of the exception"""
    out = {}
    pairs = [(1, 1), (1, 2), (2, 3), (4, 4), (6, 6)] + [tuple(int(x) for x in k) for k in keys[:3]]
    for (i, j) in dict.fromkeys(pairs):
        for name in (f"s{i}{j}t", f"s_{i}{j}t", f"s{j}{i}t", "s" + _STD[i] + _STD[j] + "t"):
            try:
                with numpy.errstate(all="ignore"):
                    out[name] = [i, j, numpy.array(getattr(vb, name), dtype=float)]
            except Exception as e:
                out[name] = [i, j, type(e).__name__]
    return out


def run_impl(case):
    """drive the real classes on a stub; every reported quantity or 'error'"""
    from cij.core.calculator import CijVolumeBaseInterface
    stub, keys, fields = make_stub(case)
    out = {}
    compute_compliances(stub, out)
    vb = CijVolumeBaseInterface(stub)
    for name in case.get("pre_reads", []):
        try:
            getattr(vb, name)
        except Exception:
            pass
    for idx in case.get("read_order", range(9)):
        name, attr = QUANT[idx]
        try:
            with numpy.errstate(all="ignore"):
                out[name] = numpy.array(getattr(vb, attr), dtype=float)        # a copy: later reads cannot change it
        except Exception as e:
            out[name] = "error"; out[name + "_exc"] = f"{type(e).__name__}: {e}"
    # read everything once more, on the same interface object: every value must be what it was
    changed = []
    for name, attr in QUANT:
        if isinstance(out[name], str): continue
        try:
            with numpy.errstate(all="ignore"):
                again = numpy.array(getattr(vb, attr), dtype=float)
            if again.shape != out[name].shape or not numpy.array_equal(again, out[name], equal_nan=True):
                changed.append(name)
        except Exception as e:
            changed.append(f"{name}:{type(e).__name__}")
    out["changed_on_reread"] = changed
    # attribute-style lookups c_ij / s_ij as the interface serves them
    look = {}
    for (i, j) in [(1, 1), (1, 2), (2, 3), (4, 4), (6, 6)]:
        for pre in ("c", "s"):
            try:
                look[f"{pre}{i}{j}"] = numpy.array(getattr(vb, f"{pre}{i}{j}"), dtype=float)
            except Exception:
                look[f"{pre}{i}{j}"] = "error"
    out["look"] = look
    # which tensor does each spelling serve, after everything that was read above?
    wrong = []
    for k, f in zip(keys, fields):
        i, j = k.v
        for name, exp in ((f"c{i}{j}", f), (f"c{i}{j}s", f), (f"c{i}{j}t", 0.93 * f), (f"c_{i}{j}", f)):
            try:
                got = numpy.array(getattr(vb, name), dtype=float)
                if got.shape != exp.shape or not numpy.array_equal(got, exp):
                    wrong.append(name)
            except Exception as e:
                wrong.append(f"{name}:{type(e).__name__}")
    out["wrong_lookup"] = wrong
    out["sijt"] = read_sijt(vb, case["keys"])
    return out


# ------------------------------------------------------------------------------------------------ model
def model_op(case, consts, S=None):
    na, ry = consts
    op = {"op": "c07.run" if S is None else "c07.report", "keys": case["keys"], "fields": enc(case["fields"]),
          "nt": case["nt"], "nv": case["nv"], "v": enc(case["v"]), "cellmass": enc(float(case["cellmass"])),
          "avogadro": enc(na), "ry": enc(ry)}
    if S is not None: op["S"] = enc(S)
    return op


def decode_model(m):
    out = {}
    keys = [tuple(k) for k in m["compl_keys"]]
    out["compl"] = {k: dec_arr(f) for k, f in zip(keys, m["compl"])}
    for n in ("kV", "kR", "kH", "gV", "gR", "gH", "vp", "vs"):
        out[n] = "error" if m[n] == "error" else dec_arr(m[n])
    out["mass"] = numpy.array(b2f(m["mass"]))
    for n in ("C", "S", "C_iijj", "C_ijij", "S_iijj", "S_ijij", "C_spec"):
        out[n] = dec_arr(m[n])
    out["compl_spec"] = {tuple(k): dec_arr(f) for k, f in zip(m["compl_spec_keys"], m["compl_spec"])}
    return out


NOISE = {}   # largest observed |impl-model|/scale per compared family (reported in the evidence)


def _cmp(name, a, b, rtol, scale=None):
    """None if equal (errors as tags, arrays family-close); else a note"""
    if isinstance(a, str) or isinstance(b, str):
        return None if (isinstance(a, str) and isinstance(b, str)) else f"{name}: impl={'error' if isinstance(a, str) else 'value'} model={'error' if isinstance(b, str) else 'value'}"
    ok, err, s = family_close(a, b, rtol=rtol, scale=scale)
    fam = ("s_ij" if name[0] == "s" and name[1:].isdigit() else name) + (" [S handed over]" if rtol == 1e-12 and not name.startswith("spec") else "")
    if numpy.isfinite(err): NOISE[fam] = max(NOISE.get(fam, 0.0), err)
    return None if ok else f"{name}: max|impl-model|/scale={err:.3e} (scale {s:.3e})"


def compare(case, impl, mod, rtol=1e-9):
    notes = []
    if isinstance(impl["compl"], str):
        notes.append("compl: impl raised " + impl.get("compl_exc", ""))
    else:
        ki, km = set(impl["compl"]), set(mod["compl"])
        if ki != km:
            notes.append(f"compl keys: impl-only={sorted(ki - km)} model-only={sorted(km - ki)}")
        common = sorted(ki & km)
        if common:
            sc = max(float(numpy.max(numpy.abs(impl["compl"][k]))) for k in common)
            for k in common:
                n = _cmp(f"s{k[0]}{k[1]}", impl["compl"][k], mod["compl"][k], rtol, scale=sc)
                if n: notes.append(n)
    fam = [impl[n] for n in ("kV", "kR", "kH", "gV", "gR", "gH") if not isinstance(impl[n], str)]
    sc = max([float(numpy.max(numpy.abs(x[numpy.isfinite(x)]))) for x in fam if numpy.isfinite(x).any()] or [0.0]) or None
    for n in ("kV", "kR", "kH", "gV", "gR", "gH"):
        r = _cmp(n, impl[n], mod[n], rtol, scale=sc)
        if r: notes.append(r)
    for n in ("vp", "vs"):
        r = _cmp(n, impl[n], mod[n], rtol)
        if r: notes.append(r)
    r = _cmp("mass", impl["mass"], mod["mass"], 1e-13)
    if r: notes.append(r)
    return notes


# ------------------------------------------------------------------------------------------------ oracle
def full_tensors(case, compl):
    """C_ijkl from the dictionary, S_ijkl from the REPORTED compliances (1, 1/2, 1/4 factors); own Voigt map"""
    nt, nv = case["nt"], case["nv"]
    vo = {}
    for p, (a, b) in VOIGT.items():
        vo[(a, b)] = p; vo[(b, a)] = p
    cd = {tuple(sorted(k)): numpy.array(f, dtype=float) for k, f in zip(case["keys"], case["fields"])}
    C4 = numpy.zeros((nt, nv, 3, 3, 3, 3)); S4 = numpy.zeros((nt, nv, 3, 3, 3, 3))
    C6 = numpy.zeros((nt, nv, 6, 6)); S6 = numpy.zeros((nt, nv, 6, 6))
    for i, j, k, l in itertools.product(range(1, 4), repeat=4):
        p, q = vo[(i, j)], vo[(k, l)]
        key = (min(p, q), max(p, q))
        if key in cd: C4[:, :, i - 1, j - 1, k - 1, l - 1] = cd[key]
        if key in compl:
            w = (1.0 if p <= 3 else 0.5) * (1.0 if q <= 3 else 0.5)
            S4[:, :, i - 1, j - 1, k - 1, l - 1] = w * compl[key]
    for p, q in itertools.product(range(1, 7), repeat=2):
        key = (min(p, q), max(p, q))
        if key in cd: C6[:, :, p - 1, q - 1] = cd[key]
        if key in compl: S6[:, :, p - 1, q - 1] = compl[key]
    return C4, S4, C6, S6


def oracle(case, impl, consts):
    """evaluate the property statement on what the real code reported; list of (clause, observed, expected)"""
    fails = []
    pd = case.get("pd", True)
    if not pd: return fails
    nt, nv = case["nt"], case["nv"]
    names = ("kV", "kR", "kH", "gV", "gR", "gH", "vp", "vs")
    missing = [n for n in names if isinstance(impl[n], str)] + (["compl"] if isinstance(impl["compl"], str) else [])
    if missing:
        exc = {n: impl.get(n + "_exc", "") for n in missing}
        # not reported at all for a positive-definite stiffness
        cd = {tuple(sorted(k)) for k in case["keys"]}
        compl = impl["compl"] if not isinstance(impl["compl"], str) else {}
        dropped = [k for k in ORTHO9 if k not in compl]
        clause = "filter-dropped" if (dropped and "kV" not in missing and "gV" not in missing and "compl" not in missing) else "not-reported"
        fails.append((clause, {"missing": missing, "exceptions": exc, "compliance_keys_absent": [list(k) for k in dropped]},
                      "all six moduli, the compliances and both velocities reported for a positive-definite stiffness"))
        return fails
    if impl.get("changed_on_reread"):
        fails.append(("reported value changes when read again", impl["changed_on_reread"], "the same arrays on every read"))
    compl = impl["compl"]
    C4, S4, C6, S6 = full_tensors(case, compl)
    # the statement is about positive-definite stiffness: grid points where the tensor is not (one may be planted) are left out,
    # every other point must satisfy every clause whatever happens at those
    pdm = numpy.linalg.eigvalsh(C6).min(axis=-1) > 0
    if not pdm.any(): return fails
    impl = dict(impl)
    for n in ("kV", "kR", "kH", "gV", "gR", "gH", "vp", "vs"):
        impl[n] = numpy.where(pdm, impl[n], 1.0)
    for T_ in (C4, S4):
        T_[~pdm] = 0.0
    C6[~pdm] = numpy.eye(6); S6[~pdm] = numpy.eye(6)
    with numpy.errstate(all="ignore"):
        C4[~pdm] = numpy.einsum("ik,jl->ijkl", numpy.eye(3), numpy.eye(3)) * 0.5 + numpy.einsum("il,jk->ijkl", numpy.eye(3), numpy.eye(3)) * 0.5
        S4[~pdm] = C4[~pdm]
    ciijj = numpy.einsum("tviijj->tv", C4); cijij = numpy.einsum("tvijij->tv", C4)
    siijj = numpy.einsum("tviijj->tv", S4); sijij = numpy.einsum("tvijij->tv", S4)
    exp = {"kV": ciijj / 9.0, "gV": (3.0 * cijij - ciijj) / 30.0, "kR": 1.0 / siijj, "gR": 15.0 / (6.0 * sijij - 2.0 * siijj)}
    for n in ("kV", "gV", "kR", "gR"):
        impl[n] = numpy.where(pdm, impl[n], exp[n])                     # left-out points: expected values on both sides
    exp["kH"] = (impl["kR"] + impl["kV"]) / 2.0
    exp["gH"] = (impl["gR"] + impl["gV"]) / 2.0
    for n in ("kH", "gH"):
        impl[n] = numpy.where(pdm, impl[n], exp[n])
    V_ = numpy.array(case["v"], dtype=float)[None, :]
    rho_ = case["cellmass"] * 1e-3 / (N_A * V_)
    impl["vs"] = numpy.where(pdm, impl["vs"], numpy.sqrt(numpy.abs(impl["gH"]) * RY_KG_KM2_S2 / rho_))
    impl["vp"] = numpy.where(pdm, impl["vp"], numpy.sqrt(numpy.abs(impl["kH"] + 4.0 * impl["gH"] / 3.0) * RY_KG_KM2_S2 / rho_))
    sc = max(float(numpy.max(numpy.abs(impl[n]))) for n in ("kV", "kR", "kH", "gV", "gR", "gH"))
    label = {"kV": "K_V = C_iijj/9", "gV": "G_V = (3C_ijij - C_iijj)/30", "kR": "K_R = 1/S_iijj",
             "gR": "G_R = 15/(6S_ijij - 2S_iijj)", "kH": "K_VRH = (K_R+K_V)/2", "gH": "G_VRH = (G_R+G_V)/2"}
    for n in ("kV", "gV", "kR", "gR", "kH", "gH"):
        ok, err, _ = family_close(impl[n], exp[n], rtol=1e-9, scale=sc)
        if not ok:
            fails.append((label[n], impl[n].tolist(), exp[n].tolist()))
    # Reuss <= Hill <= Voigt
    eps = 1e-12 * sc
    for a, b, c, nm in ((impl["kR"], impl["kH"], impl["kV"], "K"), (impl["gR"], impl["gH"], impl["gV"], "G")):
        if not (numpy.all(a <= b + eps) and numpy.all(b <= c + eps) and numpy.all(a > 0)):
            fails.append((f"0 < {nm}_R <= {nm}_VRH <= {nm}_V", [a.tolist(), b.tolist(), c.tolist()], "ordered"))
    # reported compliances are the inverse of the reported stiffness: fourth-rank and 6x6
    I4 = numpy.zeros((3, 3, 3, 3))
    for i, j, m, n in itertools.product(range(3), repeat=4):
        I4[i, j, m, n] = 0.5 * ((i == m) * (j == n) + (i == n) * (j == m))
    prod = numpy.einsum("tvijkl,tvklmn->tvijmn", C4, S4)
    e4 = float(numpy.max(numpy.abs(prod - I4)))
    e6 = float(numpy.max(numpy.abs(numpy.einsum("tvij,tvjk->tvik", C6, S6) - numpy.eye(6))))
    # dropped entries are below 1e-8 in absolute value; their contribution to C.S is bounded by 6*max|C|*1e-8
    slack = 1e-9 + 6.0 * float(numpy.max(numpy.abs(C6))) * 1e-8 * (len(compl) < 21)
    if e4 > slack or e6 > slack:
        fails.append(("C_ijkl S_klmn = (d_im d_jn + d_in d_jm)/2", {"max_dev_4th_rank": e4, "max_dev_6x6": e6}, f"<= {slack:.2e}"))
    # a compliance reported under the ISOTHERMAL name (sIJt, s_IJt, sijklt) is the inverse of the isothermal stiffness cIJt — or nothing is
    # reported under that name (any exception)
    sijt = impl.get("sijt") or {}
    if sijt:
        iso = case.get("iso_fields")
        cd_iso = {tuple(sorted(k)): (numpy.array(f, dtype=float) if iso is not None else ISO_FACTOR * numpy.array(g, dtype=float))
                  for k, f, g in zip(case["keys"], iso if iso is not None else case["fields"], case["fields"])}
        C6i = numpy.zeros((nt, nv, 6, 6))
        for p, q in itertools.product(range(1, 7), repeat=2):
            key = (min(p, q), max(p, q))
            if key in cd_iso: C6i[:, :, p - 1, q - 1] = cd_iso[key]
        ok_pts = pdm & numpy.isfinite(C6i).all(axis=(-1, -2))
        ok_pts &= numpy.array([[abs(numpy.linalg.det(C6i[t, v])) > 0 if ok_pts[t, v] else False for v in range(nv)] for t in range(nt)])
        if ok_pts.any():
            C6i[~ok_pts] = numpy.eye(6)
            S6i = numpy.linalg.inv(C6i)
            sc_i = float(numpy.max(numpy.abs(S6i[ok_pts])))
            for name, (i, j, got) in sorted(sijt.items()):
                if isinstance(got, str): continue                                 # nothing reported under this name
                if got.shape != (nt, nv):
                    fails.append(("sIJt-wrong-array", {"name": name, "shape": list(got.shape)}, [nt, nv])); break
                want = S6i[:, :, i - 1, j - 1]
                if family_close(got[ok_pts], want[ok_pts], rtol=1e-9, scale=sc_i)[0]: continue
                adia = family_close(got[ok_pts], S6[:, :, i - 1, j - 1][ok_pts], rtol=1e-9, scale=sc_i)[0]
                fails.append((CLAUSE_SIJT if adia else "sIJt-wrong-array",
                              {"name": name, "returned": got.tolist(), "entry_of_inverse_of_adiabatic_stiffness": S6[:, :, i - 1, j - 1].tolist()},
                              {"entry_of_inverse_of_isothermal_stiffness": want.tolist(), "or": "AttributeError"}))
                break
    # velocities: rho v^2 identities in SI-derived units, CODATA constants typed in above
    V = numpy.array(case["v"], dtype=float)[None, :]
    rho = case["cellmass"] * 1e-3 / (N_A * V)                       # kg / bohr^3
    lhs_s = rho * impl["vs"] ** 2; rhs_s = impl["gH"] * RY_KG_KM2_S2
    lhs_p = rho * impl["vp"] ** 2; rhs_p = (impl["kH"] + 4.0 * impl["gH"] / 3.0) * RY_KG_KM2_S2
    for nm, l, r in (("rho v_s^2 = G_VRH", lhs_s, rhs_s), ("rho v_p^2 = K_VRH + 4 G_VRH/3", lhs_p, rhs_p)):
        ok, err, _ = family_close(l, r, rtol=1e-9)
        if not ok:
            fails.append((nm, l.tolist(), r.tolist()))
    m_exp = case["cellmass"] * 1e-3 / N_A
    if not abs(float(impl["mass"]) - m_exp) <= 1e-12 * m_exp:
        fails.append(("mass = cellmass[g/mol] 1e-3 / N_A kg", float(impl["mass"]), m_exp))
    return fails


def site_of(clause):
    if clause == CLAUSE_SIJT: return SITE_SIJT
    return SITE_FILTER if clause == "filter-dropped" else "C07:" + clause


def replay_payload(case):
    return {k: case[k] for k in ("kind", "system", "keys", "fields", "nt", "nv", "v", "t", "cellmass", "pd", "pre_reads", "read_order", "stub",
                                 "key_order", "unstable_points") if k in case}


def evaluate(ctx, cases, consts, res, with_model=True):
    """correspondence + oracle on a batch of cases"""
    impls = [run_impl(c) for c in cases]
    mods = reps = [None] * len(cases)
    if with_model:
        mods = [decode_model(m) for m in ctx.driver.ask([model_op(c, consts) for c in cases])]
        # second pass: the model's `report` with the implementation's compliances handed over as S
        ops, idx = [], []
        for n, (c, im) in enumerate(zip(cases, impls)):
            if isinstance(im["compl"], str) or not c.get("pd", True): continue
            _, _, _, S6 = full_tensors(c, im["compl"])
            ops.append(model_op(c, consts, S=S6)); idx.append(n)
        reps = [None] * len(cases)
        for n, m in zip(idx, ctx.driver.ask(ops)):
            reps[n] = decode_model(m)
    for c, im, mo, rp in zip(cases, impls, mods, reps):
        res.evaluations += 1
        notes = []
        if with_model:
            notes = compare(c, im, mo)
            # the model's assembled matrix and specification-side contractions against this file's own tensors
            compl = im["compl"] if not isinstance(im["compl"], str) else {}
            C4, S4, C6, S6 = full_tensors(c, compl)
            if not numpy.array_equal(mo["C"], C6):
                notes.append("assembled 6x6: model differs from symmetric fill")
            # the assembly and labelling loops evaluated from the index data extracted from the source on this run
            if not numpy.array_equal(mo["C_spec"], C6):
                notes.append("assembled 6x6 evaluated from the extracted index data differs from the symmetric fill")
            if set(mo["compl_spec"]) != set(mo["compl"]) or any(not numpy.array_equal(mo["compl_spec"][k], mo["compl"][k], equal_nan=True) for k in mo["compl"]):
                notes.append("compliance labels evaluated from the extracted index data differ from the model's dictionary")
            for nm, arr in (("C_iijj", numpy.einsum("tviijj->tv", C4)), ("C_ijij", numpy.einsum("tvijij->tv", C4))):
                r = _cmp("spec " + nm, arr, mo[nm], 1e-12)
                if r: notes.append(r)
            if rp is not None:
                notes += ["[S handed over] " + n for n in compare(c, im, rp, rtol=1e-12)]
                for nm, arr in (("S_iijj", numpy.einsum("tviijj->tv", S4)), ("S_ijij", numpy.einsum("tvijij->tv", S4))):
                    r = _cmp("spec " + nm, arr, rp[nm], 1e-12)
                    if r: notes.append(r)
            # contract of the external inverse, measured
            if c.get("pd", True) and compl:
                dev = float(numpy.max(numpy.abs(numpy.einsum("tvij,tvjk->tvik", C6, mo["S"]) - numpy.eye(6))))
                res.extra["max_CS_minus_1_model_inverse"] = max(res.extra.get("max_CS_minus_1_model_inverse", 0.0), dev)
                if len(compl) == 21 or all(k in compl for k in ORTHO9):
                    dev2 = float(numpy.max(numpy.abs(numpy.einsum("tvij,tvjk->tvik", C6, S6) - numpy.eye(6))))
                    res.extra["max_CS_minus_1_numpy_inverse"] = max(res.extra.get("max_CS_minus_1_numpy_inverse", 0.0), dev2)
                    if dev2 > 1e-9 + 6.0 * float(numpy.max(numpy.abs(C6))) * 1e-8:
                        res.contract_failures.append(f"numpy.linalg.inv: |C.S-1| = {dev2:.2e} ({c['kind']})")
            if notes:
                res.disagreements.append(Disagreement("c07.run", replay_payload(c), {k: jsonable(v) for k, v in im.items() if k in ("kV", "kR", "gV", "gR", "vp", "vs")},
                                                      {k: jsonable(mo[k]) for k in ("kV", "kR", "gV", "gR", "vp", "vs")}, "; ".join(notes[:6])))
            else:
                res.traces_validated += 1
        if im.get("wrong_lookup"):
            res.oracle_failures.append(OracleFailure(
                what=f"attribute lookup serves the wrong tensor after reads {c.get('pre_reads', [])}: {im['wrong_lookup'][:4]}",
                input=replay_payload(c), observed=im["wrong_lookup"][:8],
                expected="cIJ / cIJs = adiabatic, cIJt = isothermal, whatever was read before", site="lookup:adiabatic-isothermal-mixup"))
        for clause, obs, exp in oracle(c, im, consts):
            res.oracle_failures.append(OracleFailure(what=f"{clause} fails ({c['kind']}/{c.get('system', '')})",
                                                     input=replay_payload(c), observed=obs, expected=exp, site=site_of(clause)))
    return impls


# ------------------------------------------------------------------------------------------------ glue streams
def _same(a, b):
    """(identical bits, equal to rounding: 1e-12 of the scale)"""
    if isinstance(a, str) or isinstance(b, str):
        return (a == b if isinstance(a, str) and isinstance(b, str) else False,) * 2
    if a.shape != b.shape: return False, False
    bits = bool(numpy.array_equal(a, b, equal_nan=True))
    if bits: return True, True
    fin = numpy.isfinite(a) & numpy.isfinite(b)
    if not numpy.array_equal(numpy.isfinite(a), numpy.isfinite(b)): return False, False
    sc = float(numpy.max(numpy.abs(a[fin]))) if fin.any() else 0.0
    return False, bool(numpy.all(numpy.abs(a[fin] - b[fin]) <= 1e-12 * sc))


def fresh_values(case):
    """every quantity read ONCE on a fresh stub and a fresh interface object"""
    from cij.core.calculator import CijVolumeBaseInterface
    out = {}
    for name, attr in QUANT:
        stub, _, _ = make_stub(case)
        compute_compliances(stub, {})
        try:
            out[name] = read_quantity(CijVolumeBaseInterface(stub), attr)
        except Exception as e:
            out[name] = "error:" + type(e).__name__
    return out


def orders_failures(case, sequence):
    """read the quantities in the order `sequence` (indices into QUANT, repetitions allowed) on ONE object; every read must return what a
    fresh object returns"""
    from cij.core.calculator import CijVolumeBaseInterface
    ref = fresh_values(case)
    stub, _, _ = make_stub(case)
    compute_compliances(stub, {})
    vb = CijVolumeBaseInterface(stub)
    bad, bit_only = [], 0
    for pos, idx in enumerate(sequence):
        name, attr = QUANT[idx]
        try:
            got = read_quantity(vb, attr)
        except Exception as e:
            got = "error:" + type(e).__name__
        bits, close = _same(got, ref[name])
        if not close: bad.append({"position": pos, "quantity": name})
        elif not bits: bit_only += 1
    return bad, bit_only


def orders_stream(ctx, rng, res, cases, n_seq):
    fails = []
    stats = {"cases": 0, "sequences": 0, "reads": 0, "bit_differences_within_rounding": 0}
    for c in cases:
        if not c.get("pd", True): continue
        stats["cases"] += 1
        for _ in range(n_seq):
            L = int(rng.integers(9, 22))
            seq = [int(i) for i in rng.integers(0, 9, size=L)]
            # a Reuss value both before and after the Hill mean / a velocity, in both orders, at least once per sequence
            seq += [[1, 2, 1], [2, 1, 2], [4, 8, 4], [7, 1, 4], [5, 4, 5]][int(rng.integers(5))]
            bad, bit_only = orders_failures(c, seq)
            stats["sequences"] += 1; stats["reads"] += len(seq); stats["bit_differences_within_rounding"] += bit_only
            res.evaluations += 1
            if bad:
                fails.append(OracleFailure(
                    what=f"a reported quantity depends on what was read before ({c['kind']}/{c.get('system', '')}): {bad[:3]}",
                    input=dict(replay_payload(c), kind="orders", sequence=seq), observed=bad[:6],
                    expected="every read equals the value a fresh object reports", site="history:read-order"))
                break
    res.distribution["orders_stream"] = stats
    return fails


def pair_failures(a, b, consts):
    """two calculators alive at once: compliances for A, then for B, interfaces for both, quantities read alternately.  The statement
    is evaluated on what EACH reports in this history."""
    from cij.core.calculator import CijVolumeBaseInterface
    sa, _, _ = make_stub(a); sb, _, _ = make_stub(b)
    ia, ib = {}, {}
    compute_compliances(sa, ia); compute_compliances(sb, ib)
    # what each calculator holds NOW (after the other one was built)
    for st, out in ((sa, ia), (sb, ib)):
        try:
            out["compl"] = {tuple(int(x) for x in k.v): numpy.array(v, dtype=float) for k, v in st._compliances.items()}
        except Exception as e:
            out["compl"] = "error"; out["compl_exc"] = f"{type(e).__name__}: {e}"
    va, vb = CijVolumeBaseInterface(sa), CijVolumeBaseInterface(sb)
    for name, attr in QUANT:
        for vbx, out in ((va, ia), (vb, ib)):
            try:
                out[name] = read_quantity(vbx, attr)
            except Exception as e:
                out[name] = "error"; out[name + "_exc"] = f"{type(e).__name__}: {e}"
    fails = []
    for which, c, im in (("first", a, ia), ("second", b, ib)):
        im["changed_on_reread"] = []
        for clause, obs, exp in oracle(c, im, consts):
            fails.append((which, clause, obs, exp))
    return fails


def pairs_stream(ctx, rng, res, cases, consts, n_pairs):
    fails = []
    pd = [c for c in cases if c.get("pd", True) and c["kind"] == "spd"]
    stats = {"pairs": 0, "same_key_set": 0, "same_grid": 0}
    for _ in range(min(n_pairs, len(pd) // 2)):
        i, j = (int(x) for x in rng.choice(len(pd), size=2, replace=False))
        a, b = dict(pd[i], stub="instance"), dict(pd[j], stub="instance")
        stats["pairs"] += 1
        stats["same_key_set"] += int(sorted(map(tuple, a["keys"])) == sorted(map(tuple, b["keys"])))
        stats["same_grid"] += int((a["nt"], a["nv"]) == (b["nt"], b["nv"]))
        res.evaluations += 1
        pf = pair_failures(a, b, consts)
        if pf:
            which, clause, obs, exp = pf[0]
            fails.append(OracleFailure(
                what=f"two calculators alive at once: {clause} fails for the {which} one",
                input={"kind": "pair", "pair": [replay_payload(a), replay_payload(b)]}, observed=obs, expected=exp,
                site="history:two-calculators"))
            break
    res.distribution["pairs_stream"] = stats
    return fails


# ---- attribute lookups ---------------------------------------------------------------------------------------------------------
OWN_VOIGT = {(1, 1): 1, (2, 2): 2, (3, 3): 3, (2, 3): 4, (3, 2): 4, (1, 3): 5, (3, 1): 5, (1, 2): 6, (2, 1): 6}


def own_parse(name):
    """the documented spellings, parsed by hand (no `re`, no cij): prefix c|s, optional `_`, two Voigt digits 1-6 or four standard digits
    1-3, optional suffix s|t  ->  (prefix, canonical Voigt pair, suffix) or None"""
    if len(name) < 3 or name[0] not in "cs": return None
    rest = name[1:]
    if rest.startswith("_"): rest = rest[1:]
    suf = ""
    if rest and rest[-1] in "st": suf, rest = rest[-1], rest[:-1]
    if len(rest) == 2 and all(ch in "123456" for ch in rest):
        p, q = int(rest[0]), int(rest[1])
    elif len(rest) == 4 and all(ch in "123" for ch in rest):
        p, q = OWN_VOIGT[(int(rest[0]), int(rest[1]))], OWN_VOIGT[(int(rest[2]), int(rest[3]))]
    else:
        return None
    return name[0], (min(p, q), max(p, q)), suf


def lookup_names(rng, keys, n):
    std = {1: "11", 2: "22", 3: "33", 4: "23", 5: "13", 6: "12"}
    std_alt = {1: "11", 2: "22", 3: "33", 4: "32", 5: "31", 6: "21"}
    names = []
    for _ in range(n):
        r = rng.random()
        i, j = (int(x) for x in rng.integers(1, 7, size=2)) if r < 0.5 else keys[int(rng.integers(len(keys)))]
        if rng.random() < 0.3: i, j = j, i
        form = int(rng.integers(4))
        body = [f"{i}{j}", f"_{i}{j}", (std if rng.random() < 0.5 else std_alt)[i] + (std if rng.random() < 0.5 else std_alt)[j],
                "_" + std[i] + std_alt[j]][form]
        name = "cs"[int(rng.integers(2))] + body + ["", "", "s", "t"][int(rng.integers(4))]
        m = rng.random()
        if m < 0.06: name += "\n"
        elif m < 0.30:          # near misses
            k = int(rng.integers(12))
            name = [name + "x", name[:-1], "C" + name[1:], name + "\n\n", name.replace("1", "7", 1), "x" + name, name[0] + "__" + name[1:].lstrip("_"),
                    name + "st", name[0] + name[1:].replace("_", "-"), name + " ", name[0], name[0] + "1" + name[1:]][k]
        names.append(name)
    return names


def lookup_stream(ctx, rng, res, n_objects, n_names):
    """the real `__getattr__` on identity-tagged dictionaries against (a) the extracted pattern / dispatch run by the driver, (b) the own parser"""
    from cij.core.calculator import CijVolumeBaseInterface
    from cij.util import c_
    fails = []
    stats = {"objects": 0, "names": 0, "accepted_by_own_parser": 0, "served": 0, "attribute_error": 0, "other_error": 0,
             "four_digit": 0, "underscore": 0, "suffix_t": 0, "suffix_s": 0, "trailing_newline": 0, "s_prefix": 0,
             "key_not_in_modulus_keys": 0}
    all21 = [(i, j) for i in range(1, 7) for j in range(i, 7)]
    for _ in range(n_objects):
        k = int(rng.integers(3, 22))
        dict_keys = [all21[i] for i in rng.permutation(21)[:k]]
        # modulus_keys may list fewer keys than the dictionaries hold: membership is tested in modulus_keys
        mk = [p for p in dict_keys if rng.random() < 0.8] or dict_keys[:1]
        compl_keys = all21 if rng.random() < 0.8 else [p for p in all21 if rng.random() < 0.7]
        stub = types.SimpleNamespace()
        tag = {}
        def arr(store, p):
            a = numpy.array([float(len(tag))]); tag[id(a)] = (store, p); return a
        stub.modulus_keys = [c_(*p) for p in mk]
        stub.modulus_adiabatic = {c_(*p): arr("modulus_adiabatic", p) for p in dict_keys}
        stub.modulus_isothermal = {c_(*p): arr("modulus_isothermal", p) for p in dict_keys}
        stub._compliances = {c_(*p): arr("_compliances", p) for p in compl_keys}
        keep = [stub.modulus_adiabatic, stub.modulus_isothermal, stub._compliances]      # ids stay unique while these live
        vb = CijVolumeBaseInterface(stub)
        names = lookup_names(rng, dict_keys, n_names)
        impl = []
        for nm in names:
            try:
                got = getattr(vb, nm)
                impl.append(list(tag[id(got)]) if id(got) in tag else "untagged-object")
            except AttributeError:
                impl.append("AttributeError")
            except Exception as e:
                impl.append("error")
        mod = ctx.driver.ask([{"op": "c07.lookup", "keys": [list(p) for p in mk], "dict_keys": [list(p) for p in dict_keys],
                               "compl_keys": [list(p) for p in compl_keys], "names": names}])[0]
        stats["objects"] += 1
        payload = {"kind": "lookup", "modulus_keys": [list(p) for p in mk], "dict_keys": [list(p) for p in dict_keys],
                   "compl_keys": [list(p) for p in compl_keys]}
        notes = []
        for nm, im, mo in zip(names, impl, mod):
            res.evaluations += 1; stats["names"] += 1
            mo_c = [mo[0], tuple(mo[1])] if isinstance(mo, list) else mo
            im_c = [im[0], tuple(im[1])] if isinstance(im, list) else im
            if im_c != mo_c: notes.append(f"{nm!r}: impl={im_c} model={mo_c}")
            stats["served" if isinstance(im, list) else ("attribute_error" if im == "AttributeError" else "other_error")] += 1
            stats["trailing_newline"] += int(nm.endswith("\n"))
            op = own_parse(nm)
            if op is None: continue
            pre, key, suf = op
            stats["accepted_by_own_parser"] += 1
            body = nm[1:].lstrip("_").rstrip("st")
            stats["four_digit"] += int(len(body) == 4); stats["underscore"] += int("_" in nm)
            stats["suffix_t"] += int(suf == "t"); stats["suffix_s"] += int(suf == "s"); stats["s_prefix"] += int(pre == "s")
            exp = None
            if pre == "c":
                if key in mk: exp = ["modulus_isothermal" if suf == "t" else "modulus_adiabatic", key]
                else: stats["key_not_in_modulus_keys"] += 1
            elif suf != "t" and key in compl_keys:
                exp = ["_compliances", key]
            elif pre == "s" and suf == "t" and isinstance(im, list) and im[0] == "_compliances":
                # `_compliances` is the inverse of the ADIABATIC stiffness (Generated complSpec.store): not to be reported under the isothermal name
                fails.append(OracleFailure(
                    what=f"attribute {nm!r} (isothermal name) returns the adiabatic compliance {im_c}",
                    input=dict(payload, names=[nm]), observed=jsonable(im), expected="AttributeError, or the inverse of the isothermal stiffness",
                    site=SITE_SIJT))
            if exp is not None and im_c != exp:
                fails.append(OracleFailure(
                    what=f"attribute {nm!r} is served from {im_c} instead of {exp}",
                    input=dict(payload, names=[nm]), observed=jsonable(im), expected=jsonable(exp), site="lookup:wrong-store-or-key"))
        if notes:
            res.disagreements.append(Disagreement("c07.lookup", dict(payload, names=names[:40]), impl[:40], mod[:40], "; ".join(notes[:6])))
        else:
            res.traces_validated += 1
        if fails: break
    res.distribution["lookup_stream"] = stats
    return fails


def lookup_replay(payload):
    from cij.core.calculator import CijVolumeBaseInterface
    from cij.util import c_
    mk = [tuple(p) for p in payload["modulus_keys"]]; dk = [tuple(p) for p in payload["dict_keys"]]; ck = [tuple(p) for p in payload["compl_keys"]]
    stub = types.SimpleNamespace()
    tag = {}
    def arr(store, p):
        a = numpy.array([float(len(tag))]); tag[id(a)] = (store, p); return a
    stub.modulus_keys = [c_(*p) for p in mk]
    stub.modulus_adiabatic = {c_(*p): arr("modulus_adiabatic", p) for p in dk}
    stub.modulus_isothermal = {c_(*p): arr("modulus_isothermal", p) for p in dk}
    stub._compliances = {c_(*p): arr("_compliances", p) for p in ck}
    vb = CijVolumeBaseInterface(stub)
    out = []
    for nm in payload["names"]:
        op = own_parse(nm)
        if op is None: continue
        pre, key, suf = op
        exp = None
        if pre == "c" and key in mk: exp = ["modulus_isothermal" if suf == "t" else "modulus_adiabatic", key]
        elif pre == "s" and suf != "t" and key in ck: exp = ["_compliances", key]
        try:
            got = getattr(vb, nm); im = [tag[id(got)][0], tag[id(got)][1]] if id(got) in tag else "untagged-object"
        except Exception as e:
            im = type(e).__name__
        if pre == "s" and suf == "t":
            if isinstance(im, list) and im[0] == "_compliances":
                out.append(OracleFailure(what=f"attribute {nm!r} (isothermal name) returns the adiabatic compliance {im}", input=payload,
                                         observed=jsonable(im), expected="AttributeError, or the inverse of the isothermal stiffness", site=SITE_SIJT))
            continue
        if exp is None: continue
        if im != exp:
            out.append(OracleFailure(what=f"attribute {nm!r} is served from {im} instead of {exp}", input=payload, observed=jsonable(im),
                                     expected=jsonable(exp), site="lookup:wrong-store-or-key"))
    return out


# ---- normal attribute lookup versus __getattr__: the FULL language of REGEX_CIJ on the real classes ---------------------------------
def full_language():
    """every name the documented pattern accepts, spelled out by hand (no `re`, no cij): 2 prefixes x optional `_` x (36 Voigt + 81 standard
    digit strings) x suffix none|s|t x optional trailing newline = 2808 names"""
    import itertools
    digits = ["".join(d) for d in itertools.product("123456", repeat=2)] + ["".join(d) for d in itertools.product("123", repeat=4)]
    return [p + u + d + sf + nl for p in "cs" for u in ("", "_") for d in digits for sf in ("", "s", "t") for nl in ("", "\n")]


def translated_shape():
    """the per-class tables the translator wrote on THIS run (Lean list-of-pairs syntax is Python literal syntax)"""
    import ast as _ast, os as _os, re
    path = _os.path.join(_os.path.dirname(_os.path.dirname(_os.path.abspath(__file__))), "lean", "Generated", "CalcGlueSpec.lean")
    text = open(path).read()
    out = {}
    for nm in ("classNames", "initAttrs", "laterAttrs", "lazyCacheAttrs"):
        m = re.search(r"^def " + nm + r" : List \(String × List String\) :=\s*(\[.*?\])[ \t]*\n(?:\n|def )", text, re.S | re.M)
        if not m: return None
        out[nm] = dict(_ast.literal_eval(m.group(1)))
    return out


def shadow_stream(ctx, res):
    """`getattr(interface, name)` IS `__getattr__(name)` for every accepted name: (a) static lookup (`inspect.getattr_static`: class dict along the
    MRO, instance dict — before and after every explicit quantity has been read, so that LazyProperty caches exist) finds nothing under any of
    the 2808 names [correspondence with `calc_glue_accepted_names_reach_getattr`]; (b) the object `getattr` returns is the entry of the store
    the property names (identity-tagged dictionaries, all 21 keys) [oracle]; (c) the translated class shape is the real one, and whatever else
    `dir()` lists is spelled `__…` [the `builtin` hypothesis of the theorems]; (d) the pressure interface forwards exactly what reaches it."""
    import inspect
    from cij.core.calculator import CijVolumeBaseInterface, CijPressureBaseInterface
    from cij.util import c_
    fails, notes = [], []
    stats = {"names": 0, "statically_found": 0, "served_from_expected_store": 0, "attribute_error_expected": 0, "pressure_forwarded": 0,
             "class_shape_compared": 0}
    all21 = [(i, j) for i in range(1, 7) for j in range(i, 7)]
    names = full_language()
    missing = object()
    payload = {"kind": "lookup", "modulus_keys": [list(p) for p in all21], "dict_keys": [list(p) for p in all21],
               "compl_keys": [list(p) for p in all21]}
    for warm in (False, True):
        stub = types.SimpleNamespace()
        tag = {}
        def arr(store, p):
            a = numpy.array([[1.0 + len(tag)]]); tag[id(a)] = (store, p); return a
        stub.modulus_keys = [c_(*p) for p in all21]
        stub.modulus_adiabatic = {c_(*p): arr("modulus_adiabatic", p) for p in all21}
        stub.modulus_isothermal = {c_(*p): arr("modulus_isothermal", p) for p in all21}
        stub._compliances = {c_(*p): arr("_compliances", p) for p in all21}
        stub.qha_calculator = types.SimpleNamespace(volume_base=types.SimpleNamespace(v_array=numpy.array([100.0]), t_array=numpy.array([300.0]),
                                                                                      pressures=numpy.array([[0.0]])))
        stub.elast_data = types.SimpleNamespace(cellmass=100.0)
        vb = CijVolumeBaseInterface(stub)
        pb = CijPressureBaseInterface(stub)
        stub.volume_base, stub.pressure_base = vb, pb
        if warm:       # read every explicit quantity first: whatever cache attribute a (Lazy)property leaves on the instance is there now
            for _, attr in QUANT:
                for o in (vb,):
                    try:
                        with numpy.errstate(all="ignore"): getattr(o, attr)
                    except Exception: pass
        for nm in names:
            res.evaluations += 1; stats["names"] += 1
            found = [type(o).__name__ for o in (vb, pb) if inspect.getattr_static(o, nm, missing) is not missing]
            if found:
                stats["statically_found"] += 1
                notes.append(f"{nm!r} is an attribute of {found} (model: not defined, reaches __getattr__)")
            pre, key, suf = own_parse(nm.rstrip("\n"))
            exp = None if (pre == "s" and suf == "t") else ["modulus_isothermal" if suf == "t" else "modulus_adiabatic", key] if pre == "c" else ["_compliances", key]
            try:
                got = getattr(vb, nm)
                im = [tag[id(got)][0], tag[id(got)][1]] if id(got) in tag else "untagged-object"
            except AttributeError:
                im = None
            except Exception as e:
                im = type(e).__name__
            if exp is None:
                if isinstance(im, list) and im[0] == "_compliances":
                    fails.append(OracleFailure(what=f"attribute {nm!r} (isothermal name) returns the adiabatic compliance {im}", input=dict(payload, names=[nm]),
                                               observed=jsonable(im), expected="AttributeError, or the inverse of the isothermal stiffness", site=SITE_SIJT))
                stats["attribute_error_expected"] += 1
            elif im != exp:
                fails.append(OracleFailure(
                    what=f"getattr(volume_base, {nm!r}) is {im} instead of {exp}" + (f" — the name is an attribute of {found}, __getattr__ is not reached" if found else ""),
                    input=dict(payload, names=[nm]), observed=jsonable(im), expected=jsonable(exp), site="lookup:wrong-store-or-key"))
            else:
                stats["served_from_expected_store"] += 1
            if fails: break
        if fails: break
        # (d) the pressure interface: `self.v2p` replaced on the instance by a tagging function (a plain method: the instance attribute wins)
        pb.v2p = lambda x: ("v2p", x)
        for nm in names[::7] + ["v_array", "pressures"]:
            try: inner = getattr(vb, nm)
            except AttributeError: inner = missing
            try: outer = getattr(pb, nm)
            except AttributeError: outer = missing
            ok = (outer is missing and inner is missing) or (isinstance(outer, tuple) and len(outer) == 2 and outer[0] == "v2p" and outer[1] is inner)
            stats["pressure_forwarded"] += int(ok)
            if not ok: notes.append(f"getattr(pressure_base, {nm!r}) is not v2p(getattr(volume_base, {nm!r}))")
        del pb.v2p
        # (c) the translated shape against the real classes / instances
        shape = translated_shape()
        implicit_ok = lambda n: n.startswith("__")
        for o in (vb, pb):
            cls = type(o)
            if cls.__mro__ != (cls, object): notes.append(f"{cls.__name__} has base classes: {cls.__mro__}")
            listed = set(shape["classNames"].get(cls.__name__, [])) if shape else None
            real = set(cls.__dict__)
            if listed is not None:
                stats["class_shape_compared"] += 1
                if not listed <= real: notes.append(f"{cls.__name__}: translated names not in the class dict: {sorted(listed - real)}")
                extra = [n for n in real - listed if not implicit_ok(n)]
                if extra: notes.append(f"{cls.__name__}: class dict has names the translator does not list: {sorted(extra)}")
                inst = set(vars(o))
                init = set(shape["initAttrs"].get(cls.__name__, [])); may = init | set(shape["laterAttrs"].get(cls.__name__, [])) | set(shape["lazyCacheAttrs"].get(cls.__name__, []))
                if not init <= inst: notes.append(f"{cls.__name__}: attributes of __init__ missing on the instance: {sorted(init - inst)}")
                if not inst <= may: notes.append(f"{cls.__name__}: instance attributes the translator does not list: {sorted(inst - may)}")
            other = [n for n in dir(o) if n not in real and n not in vars(o) and not implicit_ok(n)]
            if other: notes.append(f"{cls.__name__}: dir() lists names from elsewhere not spelled __…: {other}")
    if notes:
        res.disagreements.append(Disagreement("c07.attr_shape", {"kind": "attr-shape"}, notes[:12], "accepted names are not attributes; translated shape = real shape",
                                              "; ".join(notes[:6])))
    else:
        res.traces_validated += 1
    res.distribution["shadow_stream"] = stats
    return fails


# ---- two real Calculators alive at once ----------------------------------------------------------------------------------------
def case_from_calculator(calc, kind):
    keys = [tuple(int(x) for x in k.v) for k in calc.modulus_keys]
    nt, nv = calc.dims
    return {"kind": kind, "system": "real", "keys": [list(k) for k in keys],
            "fields": [numpy.array(calc.modulus_adiabatic[k], dtype=float).tolist() for k in calc.modulus_keys], "nt": int(nt), "nv": int(nv),
            "v": numpy.array(calc.volume_base.v_array, dtype=float).tolist(), "t": numpy.array(calc.volume_base.t_array, dtype=float).tolist(),
            "cellmass": float(calc.elast_data.cellmass), "pd": True,
            "iso_fields": [numpy.array(calc.modulus_isothermal[k], dtype=float).tolist() for k in calc.modulus_keys]}


def real_pair_failures(seed, index, consts, stats=None):
    """two synthetic data sets (same file names and grid settings, different numbers, possibly different crystal systems) -> two real
    `Calculator` objects alive at once, read alternately; the statement on what each reports"""
    import cij.core.calculator as cc
    from harness import synth, e2e
    from harness.common import make_rng
    rng = make_rng(seed, f"C07-real-{index}")
    systems = ["cubic", "hexagonal", "orthorhombic", "tetragonal6", "trigonal6", "monoclinic"]
    # same file names, same grid settings; the numbers differ, and (every other pair) the number of atoms / q-points as well
    shapes = [(2, 2), (2, 2)] if index % 2 == 0 else [(2, 2), (3, 3)]
    dss = [synth.make_dataset(rng, nv=int(rng.integers(6, 9)), nq=nq, na=na, system=systems[int(rng.integers(len(systems)))]) for nq, na in shapes]
    fails = []
    with e2e.scratch_dir() as d, e2e.quiet():
        paths = [synth.write_all(os.path.join(d, f"run{n}"), ds) for n, ds in enumerate(dss)]
        calcs = []
        for n, path in enumerate(paths):
            try:
                calcs.append(cc.Calculator(path))
            except Exception as e:
                # is the data set processed when it is ALONE (a fresh interpreter: nothing of this process can interfere)?
                import subprocess, sys
                repo = os.environ.get("CIJ_REPO", "/repo")
                code = f"import sys; sys.path.insert(0, {repo!r}); import cij.core.calculator as cc; cc.Calculator({path!r})"
                alone = subprocess.run([sys.executable, "-c", code], stdout=subprocess.DEVNULL, stderr=subprocess.DEVNULL, timeout=600).returncode == 0
                if not alone:
                    if stats is not None: stats["skipped_not_constructible_alone"] = stats.get("skipped_not_constructible_alone", 0) + 1
                    return []
                return [(n, "not-reported", {"exception while other Calculator objects exist / existed in the process": f"{type(e).__name__}: {e}"[:300]},
                         "a data set that is processed in a fresh interpreter is processed as well after / next to another Calculator")]
        impls = [{}, {}]
        for im, calc in zip(impls, calcs):
            im["compl"] = {tuple(int(x) for x in k.v): numpy.array(v, dtype=float) for k, v in calc._compliances.items()}
        for name, attr in QUANT:
            for im, calc in zip(impls, calcs):
                try:
                    im[name] = read_quantity(calc.volume_base, attr)
                except Exception as e:
                    im[name] = "error"; im[name + "_exc"] = f"{type(e).__name__}: {e}"
        for n, (im, calc) in enumerate(zip(impls, calcs)):
            again = []
            for name, attr in QUANT:
                if isinstance(im[name], str): continue
                if not numpy.array_equal(read_quantity(calc.volume_base, attr), im[name], equal_nan=True): again.append(name)
            im["changed_on_reread"] = again
            im["sijt"] = read_sijt(calc.volume_base, [])
            c = case_from_calculator(calc, f"real:{dss[n].settings['elast']['settings'].get('symmetry', {}).get('system')}")
            if stats is not None:
                stats["calculators"] = stats.get("calculators", 0) + 1
                stats.setdefault("systems", {}); stats["systems"][c["kind"]] = stats["systems"].get(c["kind"], 0) + 1
                stats.setdefault("n_keys", {}); stats["n_keys"][str(len(c["keys"]))] = stats["n_keys"].get(str(len(c["keys"])), 0) + 1
            for clause, obs, exp in oracle(c, im, consts):
                fails.append((n, clause, obs, exp))
    return fails


def real_stream(ctx, res, consts, n_pairs):
    stats = {"pairs": 0}
    fails = []
    for index in range(n_pairs):
        if ctx.time_left() < 120: break
        stats["pairs"] += 1
        res.evaluations += 1
        rf = real_pair_failures(ctx.seed, index, consts, stats)
        if rf:
            n, clause, obs, exp = rf[0]
            fails.append(OracleFailure(what=f"two real Calculators alive at once: {clause} fails for calculator {n}",
                                       input={"kind": "real-pair", "seed": ctx.seed, "index": index}, observed=obs, expected=exp,
                                       site=SITE_SIJT if clause == CLAUSE_SIJT else "history:two-real-calculators"))
            break
    res.distribution["real_stream"] = stats
    return fails


def case_hash(c):
    return hashlib.sha256(json.dumps([c["keys"], c["fields"], c["v"], c["cellmass"]], sort_keys=True).encode()).hexdigest()


def check_constants(consts, res):
    na, ry = consts
    if abs(na - N_A) > 1e-12 * N_A:
        res.contract_failures.append(f"Avogadro constant used by the code {na!r} != CODATA {N_A!r}")
    if abs(ry - RY_KG_KM2_S2) > 1e-9 * RY_KG_KM2_S2:
        res.contract_failures.append(f"pint rydberg->kg km^2/s^2 {ry!r} != CODATA Ry[J]*1e-6 {RY_KG_KM2_S2!r}")
    res.extra["constants"] = {"avogadro_used": na, "ry_factor_used": ry, "ry_factor_codata": RY_KG_KM2_S2}


def make_rng_for(ctx, stream):
    from harness.common import make_rng
    return make_rng(ctx.seed, f"C07/{ctx.tier}/{stream}")


def run(ctx: Ctx) -> Result:
    res = Result()
    consts = _consts()
    check_constants(consts, res)
    rng = ctx.rng
    n_main = 1500 if ctx.thorough() else 220
    cases = []
    for c in ctx.corpus():
        cases.append(dict(c, kind=c.get("kind", "corpus")))
    # every crystal system at least a few times, then the mixed stream
    for system in EXTRA:
        for _ in range(6 if ctx.thorough() else 3):
            cases.append(make_case(rng, system=system))
    for _ in range(40 if ctx.thorough() else 12):
        cases.append(make_case(rng, nt=int(rng.integers(2, 4)), nv=int(rng.integers(2, 5)), unstable=True))
    while len(cases) < n_main:
        cases.append(make_case(rng))
    if ctx.thorough():
        for _ in range(20):
            cases.append(make_case(rng, nt=int(rng.integers(4, 9)), nv=int(rng.integers(5, 13))))
    edges = edge_cases(rng)
    B = 100
    for i in range(0, len(cases), B):
        evaluate(ctx, cases[i:i + B], consts, res)
        if ctx.time_left() < 60: break
    evaluate(ctx, edges, consts, res)
    # glue streams
    th = ctx.thorough()
    glue = make_rng_for(ctx, "glue")
    sub = [c for c in cases if c["kind"] == "spd"]
    pick = [sub[int(i)] for i in glue.choice(len(sub), size=min(len(sub), 120 if th else 30), replace=False)] if sub else []
    res.oracle_failures.extend(orders_stream(ctx, glue, res, pick, 4 if th else 2))
    res.oracle_failures.extend(pairs_stream(ctx, glue, res, sub, consts, 150 if th else 40))
    res.oracle_failures.extend(lookup_stream(ctx, glue, res, 60 if th else 12, 120 if th else 60))
    res.oracle_failures.extend(shadow_stream(ctx, res))
    res.oracle_failures.extend(real_stream(ctx, res, consts, 6 if th else 2))
    allc = cases + edges
    res.distinct_nontrivial = len({case_hash(c) for c in allc if c["kind"] == "spd" and len(c["keys"]) >= 9})
    res.rule = ("a case = one stiffness field on a (T,V) grid + key order + volumes + cell mass; SPD cases are generated per crystal-system "
                "sparsity pattern or a random superset of the nine orthotropic keys, min eigenvalue >= 0.04 max eigenvalue at every grid point; "
                "non-trivial = SPD case with >= 9 keys (every one has non-zero off-diagonal couplings); distinct = distinct sha256 of "
                "(keys, fields, volumes, mass)")
    dist = dict(res.distribution)
    dist.update({"by_system": {}, "by_grid": {}, "n_keys": {}, "edge_kinds": [e["kind"] for e in edges], "magnitude_decades": {},
                 "key_order": {}, "stub_kind": {}, "voigt_first_appearance_not_1_to_6": 0, "unstable_depth": {}})
    for c in cases:
        ko = c.get("key_order", "corpus"); dist["key_order"][ko] = dist["key_order"].get(ko, 0) + 1
        sk = c.get("stub", "namespace"); dist["stub_kind"][sk] = dist["stub_kind"].get(sk, 0) + 1
        if "unstable_depth" in c:
            ud = str(c["unstable_depth"]); dist["unstable_depth"][ud] = dist["unstable_depth"].get(ud, 0) + 1
        dist["voigt_first_appearance_not_1_to_6"] += int(first_appearance(c["keys"]) != sorted(first_appearance(c["keys"])))
        dist["by_system"][c.get("system", "?")] = dist["by_system"].get(c.get("system", "?"), 0) + 1
        g = f"{c['nt']}x{c['nv']}"; dist["by_grid"][g] = dist["by_grid"].get(g, 0) + 1
        nk = str(len(c["keys"])); dist["n_keys"][nk] = dist["n_keys"].get(nk, 0) + 1
        dec = str(int(numpy.floor(numpy.log10(abs(c["fields"][0][0][0]) + 1e-300))))
        dist["magnitude_decades"][dec] = dist["magnitude_decades"].get(dec, 0) + 1
    dist["grid_points_total"] = int(sum(c["nt"] * c["nv"] for c in allc))
    res.distribution = dist
    s = cases[len(ctx.corpus())]
    im = run_impl(s)
    res.samples = [{"system": s["system"], "keys": s["keys"], "grid": [s["nt"], s["nv"]], "v": s["v"], "cellmass": s["cellmass"],
                    "c11[0][0]": s["fields"][s["keys"].index([1, 1])][0][0],
                    "impl": {k: (jsonable(im[k]) if not isinstance(im[k], str) else im[k]) for k in ("kV", "kR", "kH", "gV", "gR", "gH", "vp", "vs")}},
                   {"edge": edges[0]["kind"], "keys": edges[0]["keys"], "values": [f[0][0] for f in edges[0]["fields"]]}]
    res.extra["max_observed_model_vs_code_deviation"] = {k: float(v) for k, v in sorted(NOISE.items())}
    res.notes.append("tolerances: model vs code 1e-9 of the family scale (own inverse), 1e-12 with S handed over; oracle 1e-9; "
                     "|C.S-1| contract 1e-9")
    return res


def search(ctx: Ctx, res: Result):
    """tie broken (proof or correspondence) and run() found no failing input: look harder with the oracle alone"""
    consts = _consts()
    out = Result()
    from harness.common import make_rng
    for k in range(1, 6):
        rng = make_rng(ctx.seed + 1000 * k, "C07-search")
        cases = [make_case(rng, system=s) for s in EXTRA for _ in range(4)] + [make_case(rng) for _ in range(60)]
        # neighbours of the disagreeing inputs: same pattern, fresh values
        for d in res.disagreements[:5]:
            try:
                cases.append(make_case(rng, system=d.input.get("system"), nt=d.input.get("nt"), nv=d.input.get("nv")))
            except Exception:
                pass
        evaluate(ctx, cases, consts, out, with_model=False)
        if out.oracle_failures or ctx.time_left() < 30: break
        spd = [c for c in cases if c["kind"] == "spd"]
        out.oracle_failures.extend(orders_stream(ctx, rng, out, spd[:40], 3))
        out.oracle_failures.extend(pairs_stream(ctx, rng, out, spd, consts, 60))
        try:
            out.oracle_failures.extend(lookup_stream(ctx, rng, out, 20, 120))
        except Exception:
            pass                                   # the driver may be unavailable when the model no longer builds
        if k == 1: out.oracle_failures.extend(shadow_stream(ctx, out))     # needs no driver
        if out.oracle_failures or ctx.time_left() < 60: break
        if k <= 2:
            st = {}
            for index in range(100 * k, 100 * k + 2):
                rf = real_pair_failures(ctx.seed, index, consts, st)
                if rf:
                    n, clause, obs, exp = rf[0]
                    out.oracle_failures.append(OracleFailure(what=f"two real Calculators alive at once: {clause} fails for calculator {n}",
                                                             input={"kind": "real-pair", "seed": ctx.seed, "index": index}, observed=obs,
                                                             expected=exp, site=SITE_SIJT if clause == CLAUSE_SIJT else "history:two-real-calculators"))
                    break
        if out.oracle_failures: break
    return out.oracle_failures


def replay(ctx: Ctx, payload):
    consts = _consts()
    kind = payload.get("kind")
    if kind == "lookup":
        return lookup_replay(payload)
    if kind == "pair":
        a, b = payload["pair"]
        return [OracleFailure(what=f"two calculators alive at once: {cl} fails for the {which} one", input=payload, observed=o, expected=e,
                              site="history:two-calculators") for which, cl, o, e in pair_failures(dict(a), dict(b), consts)]
    if kind == "real-pair":
        return [OracleFailure(what=f"two real Calculators alive at once: {cl} fails for calculator {n}", input=payload, observed=o, expected=e,
                              site=SITE_SIJT if cl == CLAUSE_SIJT else "history:two-real-calculators") for n, cl, o, e in real_pair_failures(payload["seed"], payload["index"], consts)]
    if kind == "orders":
        case = dict(payload, kind="spd")
        bad, _ = orders_failures(case, payload["sequence"])
        return [OracleFailure(what="a reported quantity depends on what was read before", input=payload, observed=bad[:6],
                              expected="every read equals the value a fresh object reports", site="history:read-order")] if bad else []
    case = dict(payload)
    im = run_impl(case)
    return [OracleFailure(what=f"{cl} fails", input=payload, observed=o, expected=e, site=site_of(cl))
            for cl, o, e in oracle(case, im, consts)]
