"""C09 — fill refuses exactly when under-determined or inconsistent; never distorts data.

A *case* is a JSON object (it is its own replay payload):
  {"family", "system", "columns", "values", "kw", ...family-specific fields}
generator      nine systems x random subsets of supplied components (sufficient AND insufficient, decided by an
               exact sympy rank on the ORACLE's invariant basis) x flag combinations; perturbations that put the exact
               least-squares residual a factor >= 10 below / above the tolerance; column order and letter case; integer
               vs float columns; a working directory that contains a directory named like the system; a user-written
               relations file; drop tolerance; a separate malformed stream (c21, c77, xc11, no modulus column,
               unknown system, system=None).
               In EVERY run (counts in `distribution`): supplied all-zero columns — symmetry-allowed (an independent
               component that vanishes at all volumes) and symmetry-forbidden; relations files given by a RELATIVE and by
               an ABSOLUTE path in other directories whose base name is a packaged system (other relations inside);
               non-default `drop_atol` / `residual_atol` through the library, `--drop-atol` through the command, both
               through the settings-driven caller `apply_symetry_on_elast_data`; component magnitudes BETWEEN the two
               tolerances; one column set presented in several orders within one process (histories).
correspondence real `fill_cij` vs the Lean model (`CijModel/Fill.lean`, exact over Rat): decision enum, column names
               and order, all values (1e-9 of the table's scale).
oracle         the property statement on the real code's outcome, per family (see `oracle`); independent of the
               Lean model and of numpy.linalg.lstsq (exact Fraction normal equations, sympy rank, sympy parser).
"""
from __future__ import annotations

import math
from fractions import Fraction

import numpy

from harness.common import Ctx, Result, Disagreement, OracleFailure
from harness import fillcommon as fc

ASSUMPTIONS = [
    "column names are ASCII and distinct; cells are finite; at least one volume row",
    "numpy's numerical rank (rcond=None) equals the exact rank: the stacked matrices have entries 0, ±1, ±1/2 and "
    "singular values separated from 0 by > 1e-2 (measured on every case by agreement with the exact model)",
    "perturbations keep the exact residual a factor >= 10 away from residual_atol; components are either 0 in exact "
    "arithmetic or a factor >= 10 away from drop_atol",
]
TRUSTED_EXTRA = ["harness/fillcommon.py: exact Fraction least squares (normal equations), sympy parser of the constraints "
                 "files, sympy rank on the oracle's invariant basis"]

RTOL = 1e-9
SITE_UNBOUND = fc.SITE_UNBOUND
SITE_INT = "fill_cij:int64-columns"
SITE_SKIP = "fill_cij:residual-test-skipped-when-rank-deficient"    # repaired /repo 6c1887e; kept for regressions
SITE_DROPNM = "fill_cij:zero-non-modulus-column-dropped"             # repaired /repo 8c26f17
SITE_TRICL = "fill_cij:triclinic-never-refuses"                      # repaired /repo a4e5038
FLAG_COMBOS = [(False, False), (True, False), (False, True), (True, True)]   # (ignore_residuals, ignore_rank)


# ----------------------------------------------------------------------------- helpers
def table(T, comps, with_v=True, names=None):
    cols, vals = [], []
    if with_v:
        cols.append("V"); vals.append((100.0 + 7.5 * numpy.arange(T.shape[0])).tolist())
    for i in comps:
        cols.append(names[i] if names else fc.SYMS[i]); vals.append([float(x) for x in T[:, i]])
    return cols, vals


def kw_of(ir=False, ik=False, **more):
    kw = {}
    if ir: kw["ignore_residuals"] = True
    if ik: kw["ignore_rank"] = True
    kw.update(more)
    return kw


def sel_of(columns):
    """(indices, positions) of the modulus columns of a well-formed table."""
    idx, pos = [], []
    for p, c in enumerate(columns):
        if c.lower() in fc.SYMS:
            idx.append(fc.SYMS.index(c.lower())); pos.append(p)
    return idx, pos


def exact_residual(case):
    """max over volume rows of the exact joint least-squares residual (None when rank-deficient)."""
    idx, pos = sel_of(case["columns"])
    worst = Fraction(0)
    nrows = len(case["values"][0])
    for r in range(nrows):
        full, x, ssq = fc.exact_joint_lsq(case["system"], idx, [case["values"][p][r] for p in pos])
        if not full: return None
        worst = max(worst, ssq)
    return worst


def constrained_misfit(system, idx, vals_rows):
    """min over invariant tensors t of sum_{s supplied} (t_s - v_s)^2, max over rows — how far the supplied values
    are from ANY symmetry-consistent tensor (float lstsq on the oracle's basis; only used with wide margins)."""
    B = fc.invariant_basis(system)["B"][idx, :]
    worst = 0.0
    for v in vals_rows:
        coef, *_ = numpy.linalg.lstsq(B, numpy.array(v), rcond=None)
        worst = max(worst, float(numpy.sum((B @ coef - numpy.array(v)) ** 2)))
    return worst


def relation_violation(system, out_map, nrows):
    """max |row . x - rhs| over the relations as packaged, on the output table (missing component = 0)."""
    worst = 0.0
    for co, rhs in fc.file_rows(system):
        for r in range(nrows):
            s = sum(float(c) * out_map.get(n, [0.0] * nrows)[r] for c, n in zip(co, fc.SYMS) if c != 0)
            worst = max(worst, abs(s - float(rhs)))
    return worst


# ----------------------------------------------------------------------------- the oracle (property statement)
def run_case(case, **over):
    return fc.run_impl(case["columns"], case["values"], case["system"], case.get("kw"), **over)


def run_by_path(case):
    """`fill_cij(table, PATH)` where PATH leads to a relations file in ANOTHER directory whose base name is a packaged
    crystal system (`path_name`), holding the relations of `case["system"]`.  variant userfile-rel: the working directory
    is a scratch directory and PATH is relative (`sub/dir/<name>`); userfile-abs: PATH is absolute, cwd untouched."""
    import os, shutil, tempfile
    from cij.util.fill import fill_cij
    df = fc.make_frame(case["columns"], case["values"])
    tmp = tempfile.mkdtemp(prefix="c09path_")
    old = os.getcwd()
    try:
        rel = os.path.join(*case["path_dirs"], case["path_name"])
        full = os.path.join(tmp, rel)
        os.makedirs(os.path.dirname(full), exist_ok=True)
        shutil.copyfile(os.path.join(fc.REPO, "cij", "data", "constraints", case["system"]), full)
        if case["variant"] == "userfile-dot":
            # the file lies IN the working directory, is named like a packaged system and is given as a PATH: "./name", "./sub/../name"
            os.makedirs(os.path.join(tmp, "sub"), exist_ok=True)
            os.chdir(tmp); arg = case["dot_arg"]
        elif case["variant"] == "userfile-rel":
            os.chdir(tmp); arg = rel
        else:
            arg = full
        try:
            out = fill_cij(df, arg, **dict(case.get("kw") or {}))
        except BaseException as e:
            if isinstance(e, (KeyboardInterrupt, SystemExit)): raise
            return {"status": fc.classify(e), "detail": str(e)[:200]}
        return {"status": "ok", "columns": [str(c) for c in out.columns],
                "values": [out[c].to_numpy(dtype=float).tolist() for c in out.columns]}
    finally:
        os.chdir(old)
        shutil.rmtree(tmp, ignore_errors=True)


def oracle(case, impl=None):
    """Evaluate the property on the real code for this case.  Returns (impl_outcome, [(what, observed, expected, site)])."""
    fam = case["family"]
    system, kw = case["system"], case.get("kw", {})
    cols, vals = case.get("columns", []), case.get("values", [])
    if impl is None and fam != "history":
        impl = run_case(case, int_cols=case.get("int_cols", ()))
    fails = []
    st = impl["status"] if impl is not None else None
    atol = kw.get("residual_atol", 0.1)
    datol = kw.get("drop_atol", 1e-8)
    ir, ik = kw.get("ignore_residuals", False), kw.get("ignore_rank", False)
    nrows = len(vals[0]) if vals else 0

    def generic_accept_checks():
        out = fc.as_map(impl)
        idx, pos = sel_of(cols)
        # non-modulus columns pass through untouched
        for p, c in enumerate(cols):
            if p in pos: continue
            if c.lower() not in out:
                site = SITE_DROPNM if all(abs(x) <= datol for x in vals[p]) else "c09:passthrough:missing"
                fails.append((f"non-modulus column {c} did not pass through", "dropped", vals[p], site))
            elif out[c.lower()] != [float(x) for x in vals[p]]:
                fails.append((f"non-modulus column {c} changed", out[c.lower()], vals[p], "c09:passthrough:changed"))
        # supplied values do not move / relations are not violated by more than sqrt(atol) (when the test is on)
        if not ir:
            bound = math.sqrt(atol) * (1 + 1e-9) + 1e-12
            for p, i in zip(pos, idx):
                got = out.get(fc.SYMS[i], [0.0] * nrows)
                mv = max(abs(a - b) for a, b in zip(got, vals[p]))
                if mv > bound:
                    site = SITE_SKIP if (ik and not case.get("sufficient", True)) else "c09:bounds:supplied-moved"
                    fails.append((f"supplied {cols[p]} moved by {mv:.6g} > sqrt(residual_atol)", mv, bound, site)); break
            rv = relation_violation(system, out, nrows)
            if rv > bound:
                site = SITE_SKIP if (ik and not case.get("sufficient", True)) else "c09:bounds:relation-violated"
                fails.append((f"a symmetry relation is violated by {rv:.6g} > sqrt(residual_atol)", rv, bound, site))
        # drop tolerance: components far below it are omitted, far above it are kept (moduli only)
        for s in fc.SYMS:
            if s in out:
                m = max(abs(x) for x in out[s])
                if m <= datol / 10:
                    fails.append((f"component {s} (max |x| = {m:.3g}) below drop_atol was not omitted", m, "omitted", "c09:drop:kept"))

    if fam in ("subset", "flags", "perturb", "drop"):
        suff = case["sufficient"]
        contradiction = case.get("contradiction", "none")       # none | small | large
        expect_refuse = (not suff and not ik) or (contradiction == "large" and not ir)
        if expect_refuse:
            if not st.startswith("refuse:"):
                site = "c09:decision:not-refused"
                if suff is False and ik and contradiction == "large": site = SITE_SKIP
                if system == "triclinic": site = SITE_TRICL
                fails.append((f"{'under-determined' if not suff and not ik else 'contradictory'} table was not refused",
                              st, "refuse:*", site))
            elif suff and st != "refuse:residual":
                fails.append(("sufficient but contradictory table refused for the wrong reason", st, "refuse:residual",
                              "c09:decision:wrong-reason"))
            elif not suff and not ik and contradiction != "large" and st != "refuse:rank":
                fails.append(("under-determined consistent table refused for the wrong reason", st, "refuse:rank",
                              "c09:decision:wrong-reason"))
        else:
            if st != "ok":
                fails.append(("a table that must be accepted was not", st, "ok", "c09:decision:refused"))
        if st == "ok":
            generic_accept_checks()
            if suff and contradiction == "none" and "tensor" in case:      # consistent + sufficient: the invariant tensor
                T = numpy.array(case["tensor"]); out = fc.as_map(impl)
                scale = float(numpy.max(numpy.abs(T))) or 1.0
                for i, s in enumerate(fc.SYMS):
                    tgt = T[:, i]
                    if numpy.max(numpy.abs(tgt)) >= 10 * datol:
                        if s not in out or float(numpy.max(numpy.abs(numpy.array(out[s]) - tgt))) > RTOL * scale:
                            fails.append((f"component {s} of the filled table is not the invariant tensor's value",
                                          out.get(s), tgt.tolist(), "c09:values:wrong")); break
                    elif s in out and numpy.max(numpy.abs(tgt)) <= datol / 10:
                        fails.append((f"component {s} below drop_atol was not omitted", out[s], "omitted", "c09:drop:kept"))
    elif fam == "variant":
        # outcome must equal the baseline's, as a map lower-cased name -> values
        base = fc.run_impl(case["base_columns"], case["base_values"], system, kw)
        kind = case["variant"]
        site = {"int": SITE_INT, "cwd": SITE_UNBOUND, "userfile": SITE_UNBOUND, "userfile-named": "c09:variant:userfile-named",
                "userfile-rel": "c09:variant:userfile-by-path", "userfile-abs": "c09:variant:userfile-by-path",
                "userfile-dot": "c09:variant:userfile-dot"}.get(kind, f"c09:variant:{kind}")
        if kind == "cwd":
            impl = run_case(case, cwd_dir=system)
        elif kind == "userfile":
            impl = run_case(case, user_file=True)
        elif kind == "userfile-named":
            impl = run_case(case, user_file=case["user_file_name"])
        elif kind in ("userfile-rel", "userfile-abs", "userfile-dot"):
            impl = run_by_path(case)
        st = impl["status"]
        if st != base["status"]:
            fails.append((f"outcome depends on {kind}", st, base["status"], site))
        elif st == "ok":
            a, b = fc.as_map(impl), fc.as_map(base)
            scale = max(fc.table_scale(impl["values"]), 1.0)
            if set(a) != set(b):
                fails.append((f"set of columns depends on {kind}", sorted(a), sorted(b), site))
            else:
                for k in a:
                    if max(abs(x - y) for x, y in zip(a[k], b[k])) > RTOL * scale:
                        fails.append((f"values of {k} depend on {kind}", a[k], b[k], site)); break
    elif fam == "history":
        impl = None
        for n, pres in enumerate(case["presentations"]):
            one = fc.run_impl(pres["columns"], pres["values"], system, kw)
            if impl is None: impl = one
            if one["status"] != "ok":
                fails.append((f"presentation {n + 1} of one column set (order {pres['columns']}) was not accepted", one["status"], "ok",
                              "c09:history:status")); break
            T = numpy.array(pres["tensor"]); out = fc.as_map(one)
            scale = float(numpy.max(numpy.abs(T))) or 1.0
            bad = [s_ for i, s_ in enumerate(fc.SYMS) if numpy.max(numpy.abs(T[:, i])) >= 10 * datol
                   and (s_ not in out or float(numpy.max(numpy.abs(numpy.array(out[s_]) - T[:, i]))) > RTOL * scale)]
            if bad:
                fails.append((f"presentation {n + 1} of one column set in one process (order {pres['columns']}): components {bad[:4]} are "
                              f"not the invariant tensor's values", {b_: out.get(b_) for b_ in bad[:2]},
                              {b_: T[:, fc.SYMS.index(b_)].tolist() for b_ in bad[:2]}, "c09:history:values")); break
    elif fam == "malformed":
        pass    # correspondence only: the property does not say which exception
    else:
        raise ValueError(fam)
    return impl, fails


# ----------------------------------------------------------------------------- generators
def gen_subset_cases(rng, n_per_system):
    cases = []
    for system in fc.SYSTEMS:
        info = fc.invariant_basis(system)
        mins = fc.minimal_sufficient_subsets(system)
        for t in range(n_per_system):
            nrows = int(rng.integers(1, 13))
            T = fc.random_invariant(system, nrows, rng)
            mode = t % 4
            if mode == 0:      # sufficient: minimal + extras
                S = set(mins[int(rng.integers(0, len(mins)))])
                S |= {int(x) for x in rng.choice(21, size=int(rng.integers(0, 6)), replace=False)}
            elif mode == 1:    # a minimal subset with one member removed: insufficient by one
                S = list(mins[int(rng.integers(0, len(mins)))])
                S.pop(int(rng.integers(0, len(S))))
                S = set(S) | {i for i in range(21) if i not in info["nonzero"] and rng.integers(0, 2)}
            elif mode == 2:    # random subset of the non-zero components
                nz = info["nonzero"]
                S = {int(x) for x in rng.choice(nz, size=int(rng.integers(1, len(nz) + 1)), replace=False)}
            else:              # random subset of everything
                S = {int(x) for x in rng.choice(21, size=int(rng.integers(1, 22)), replace=False)}
            S = sorted(S)
            if not S: S = [0]
            suff = fc.sufficient(system, S)
            ir, ik = FLAG_COMBOS[int(rng.integers(0, 4))]
            cols, vals = table(T, S, with_v=bool(rng.integers(0, 2)))
            cases.append({"family": "subset", "system": system, "columns": cols, "values": vals, "kw": kw_of(ir, ik),
                          "sufficient": bool(suff), "contradiction": "none", "tensor": T.tolist()})
    return cases


def gen_sweep_cases(rng, cap=600):
    """thorough tier: EVERY subset of the pivot (independent) components of each system, one volume row — the
    decision for each is fixed by the exact rank oracle (sufficient iff all pivots are supplied... decided by sympy)."""
    import itertools
    cases = []
    for system in fc.SYSTEMS:
        if system == "triclinic": continue
        info = fc.invariant_basis(system)
        piv = info["pivots"]
        subsets = [S for r in range(1, len(piv) + 1) for S in itertools.combinations(piv, r)]
        if len(subsets) > cap:
            idx = rng.choice(len(subsets), size=cap, replace=False)
            subsets = [subsets[i] for i in sorted(idx)] + [tuple(piv)]
        T = fc.random_invariant(system, 1, rng)
        for S in subsets:
            # add one dependent (non-pivot, non-zero) component at random: it may or may not repair the rank
            extra = [i for i in info["nonzero"] if i not in piv]
            S2 = sorted(set(S) | ({int(rng.choice(extra))} if extra and rng.integers(0, 2) else set()))
            cols, vals = table(T, S2, with_v=False)
            cases.append({"family": "subset", "system": system, "columns": cols, "values": vals, "kw": {},
                          "sufficient": bool(fc.sufficient(system, S2)), "contradiction": "none", "tensor": T.tolist(),
                          "sweep": True})
    return cases


def gen_perturb_cases(rng, n_per_system):
    """sufficient + redundant table, one supplied value perturbed so that the exact residual hits a target."""
    cases = []
    for system in fc.SYSTEMS:
        if system == "triclinic": continue
        info = fc.invariant_basis(system)
        mins = fc.minimal_sufficient_subsets(system)
        tries = 0
        made = 0
        while made < n_per_system and tries < 20 * n_per_system:
            tries += 1
            nrows = int(rng.integers(1, 5))
            target_factor = float(rng.choice([1e-3, 0.1, 0.8, 1.25, 3.0, 10.0, 1e3]))   # 0.8 / 1.25: 20 % off the threshold (the measure is exact)
            if made == 0: target_factor = 1.25          # every system, every run: just above the threshold, no flag -> must refuse
            if made == 1: target_factor = 0.8           # ... and just below -> must accept
            if target_factor == 3.0:
                # a contradiction confined to ONE of many volumes, 3x above the tolerance there (the refusal is per
                # volume: it must not be diluted by the clean volumes)
                nrows = int(rng.integers(6, 13))
            T = fc.random_invariant(system, nrows, rng)
            S = set(mins[int(rng.integers(0, len(mins)))])
            S |= {int(x) for x in rng.choice(21, size=int(rng.integers(2, 10)), replace=False)}
            S = sorted(S)
            atol = float(rng.choice([0.1, 0.1, 1e-3, 5.0]))
            if made < 2: atol = 0.1                     # ... with the DEFAULT tolerance, the keyword not passed at all
            j = int(rng.integers(0, len(S)))
            row = int(rng.integers(0, nrows))
            # residual is quadratic in the perturbation of a consistent table: rho(delta) = rho(1) * delta^2
            unit = numpy.zeros((1, 21)); unit[0, S[j]] = 1.0
            full, _, rho1 = fc.exact_joint_lsq(system, S, [float(unit[0, i]) for i in S])
            if not full or rho1 == 0: continue
            delta = math.sqrt(atol * target_factor / float(rho1))
            Tp = T.copy(); Tp[row, S[j]] += delta
            cols, vals = table(Tp, S, with_v=True)
            ir, ik = FLAG_COMBOS[int(rng.integers(0, 4))]
            if made < 2: ir, ik = False, False
            kwp = kw_of(ir, ik, residual_atol=atol)
            if atol == 0.1 and (made < 2 or rng.integers(0, 2)): kwp.pop("residual_atol")     # the signature's default decides
            case = {"family": "perturb", "system": system, "columns": cols, "values": vals,
                    "kw": kwp, "sufficient": True,
                    "target_factor": target_factor, "perturbed": fc.SYMS[S[j]], "delta": delta}
            rho = exact_residual(case)
            ratio = float(rho) / atol
            if not (ratio >= 1.2 or ratio <= 0.84): continue
            case["contradiction"] = "large" if ratio > 1 else "small"
            case["exact_residual_over_atol"] = ratio
            cases.append(case); made += 1
    return cases


def gen_flag_cases(rng, n_per_system):
    """under-determined AND grossly contradictory: two members of one equality class disagree, another class missing."""
    cases = []
    for system in fc.SYSTEMS:
        if system in ("triclinic", "monoclinic", "orthorhombic"):
            continue                              # no two supplied components are tied by a relation
        info = fc.invariant_basis(system)
        B = info["B"]
        for t in range(n_per_system):
            T = fc.random_invariant(system, int(rng.integers(1, 4)), rng)
            # a pair of components proportional to the same single basis vector
            pairs = [(a, b) for a in info["nonzero"] for b in info["nonzero"] if a < b
                     and numpy.count_nonzero(B[a]) == 1 and numpy.count_nonzero(B[b]) == 1
                     and numpy.argmax(numpy.abs(B[a])) == numpy.argmax(numpy.abs(B[b]))]
            a, b = pairs[int(rng.integers(0, len(pairs)))]
            others = [i for i in info["nonzero"] if i not in (a, b)]
            S = sorted({a, b} | {int(x) for x in rng.choice(others, size=int(rng.integers(0, len(others))), replace=False)})
            # make it under-determined: drop components until the exact rank test says so
            while fc.sufficient(system, S):
                cand = [i for i in S if i not in (a, b)]
                if not cand: break
                S.remove(cand[int(rng.integers(0, len(cand)))])
            if fc.sufficient(system, S): continue
            Tp = T.copy(); Tp[:, b] += 40.0 * (1 if rng.integers(0, 2) else -1)
            cols, vals = table(Tp, S, with_v=True)
            idx, pos = sel_of(cols)
            mis = constrained_misfit(system, idx, [[vals[p][r] for p in pos] for r in range(len(vals[0]))])
            for ir, ik in FLAG_COMBOS:
                cases.append({"family": "flags", "system": system, "columns": cols, "values": vals, "kw": kw_of(ir, ik),
                              "sufficient": False, "contradiction": "large" if mis >= 100 * 0.1 else "none",
                              "constrained_misfit": mis})
    return cases


def gen_variant_cases(rng, n_per_system):
    cases = []
    for system in fc.SYSTEMS:
        mins = fc.minimal_sufficient_subsets(system)
        for t in range(n_per_system):
            nrows = int(rng.integers(1, 5))
            # integer-valued invariant tensor (even coefficients so that (c11-c12)/2 stays integral)
            info = fc.invariant_basis(system)
            coef = 4.0 * rng.integers(10, 100, size=(nrows, info["k"]))
            T = coef @ info["B"].T
            if not numpy.allclose(T, numpy.round(T)): continue
            S = sorted(set(mins[int(rng.integers(0, len(mins)))]) | {int(x) for x in rng.choice(21, size=3, replace=False)})
            suff = True
            if t % 3 == 2:       # an insufficient one as well (outcome = refusal must be independent too)
                S = S[:max(1, len(S) // 2)]; suff = fc.sufficient(system, S)
            kw = kw_of(*FLAG_COMBOS[int(rng.integers(0, 4))]) if t % 2 else {}
            bcols, bvals = table(T, S, with_v=True)
            base = {"system": system, "kw": kw, "base_columns": bcols, "base_values": bvals, "family": "variant",
                    "sufficient": bool(suff)}
            # order
            perm = list(rng.permutation(len(bcols)))
            cases.append(dict(base, variant="order", columns=[bcols[i] for i in perm], values=[bvals[i] for i in perm]))
            # letter case
            up = [c.upper() if rng.integers(0, 2) else c for c in bcols]
            if up == bcols: up = [c.upper() for c in bcols]
            cases.append(dict(base, variant="case", columns=up, values=bvals))
            # integer columns
            cases.append(dict(base, variant="int", columns=bcols, values=bvals,
                              int_cols=[c for c, v in zip(bcols, bvals) if all(float(x).is_integer() for x in v)]))
            # ... ONE integer-typed column (whole numbers only in the FIRST tensor column: e.g. c11 tabulated as 312, 305, …) next to
            # float columns; a minimal sufficient subset stays consistent whatever its independent values are
            Sm = list(mins[int(rng.integers(0, len(mins)))])
            T2 = numpy.array(T, dtype=float).copy()
            T2[:, Sm[0]] = numpy.round(T2[:, Sm[0]]); T2[:, Sm[0]][T2[:, Sm[0]] == 0] = 1.0
            for j_ in Sm[1:]:                                   # the other supplied columns carry decimals (T itself is integer-valued)
                T2[:, j_] = T2[:, j_] + 0.37 + 0.25 * (j_ % 3) + 0.011 * numpy.arange(T2.shape[0])
            b2cols, b2vals = table(T2, Sm, with_v=bool(t % 2))
            first = next(c for c in b2cols if c.lower() in fc.SYMS)
            cases.append(dict(base, base_columns=b2cols, base_values=b2vals, sufficient=True, variant="int", columns=b2cols, values=b2vals,
                              int_cols=[first], int_first=True))
            # working directory containing a directory named like the system / a user-written relations file
            cases.append(dict(base, variant="cwd", columns=bcols, values=bvals))
            cases.append(dict(base, variant="userfile", columns=bcols, values=bvals))
            # ... and a user-written relations file that happens to be NAMED like another packaged system, in a sub-directory:
            # "a path to a relations file given in place of a system name is used as the relations"
            other = [x for x in fc.SYSTEMS if x != system][int(rng.integers(0, len(fc.SYSTEMS) - 1))]
            cases.append(dict(base, variant="userfile-named", columns=bcols, values=bvals, user_file_name=f"relations/{other}"))
            # ... and in the working directory itself under a bare name that differs from a packaged name only in letter case
            cases.append(dict(base, variant="userfile-named", columns=bcols, values=bvals,
                              user_file_name="cwd:" + (other.capitalize() if t % 2 else other.upper())))
            # ... the same by a RELATIVE path from a scratch working directory and by an ABSOLUTE path (other directories, the base
            # name is a packaged system whose own relations differ)
            other2 = [x for x in fc.SYSTEMS if x != system][int(rng.integers(0, len(fc.SYSTEMS) - 1))]
            dirs = [["relations"], ["data", "constraints"], ["elsewhere"], ["a", "b", "c"]][int(rng.integers(0, 4))]
            cases.append(dict(base, variant="userfile-rel" if t % 2 == 0 else "userfile-abs", columns=bcols, values=bvals,
                              path_dirs=dirs, path_name=other2))
            cases.append(dict(base, variant="userfile-abs" if t % 2 == 0 else "userfile-rel", columns=bcols, values=bvals,
                              path_dirs=["constraints"], path_name=other))
            # ... and IN the working directory, given as a path with a directory part: "./cubic" is a path, not the system `cubic`
            other3 = [x for x in fc.SYSTEMS if x != system][int(rng.integers(0, len(fc.SYSTEMS) - 1))]
            cases.append(dict(base, variant="userfile-dot", columns=bcols, values=bvals, path_dirs=[], path_name=other3,
                              dot_arg=("./" + other3) if t % 2 == 0 else ("./sub/../" + other3)))
    return cases


def gen_drop_cases(rng, n):
    cases = []
    systems = list(fc.SYSTEMS)
    for t in range(n):
        system = systems[int(rng.integers(0, len(systems)))]
        info = fc.invariant_basis(system)
        datol = float(rng.choice([1e-8, 1e-3, 5.0]))
        nrows = int(rng.integers(1, 6))
        for _ in range(50):
            coef = rng.uniform(200.0, 900.0, size=(nrows, info["k"]))
            j = int(rng.integers(0, info["k"]))
            mode = int(rng.integers(0, 3))
            if mode == 0: coef[:, j] = datol * 0.05                       # far below at all rows -> omitted
            elif mode == 1:
                coef[:, j] = datol * 0.05; coef[int(rng.integers(0, nrows)), j] = datol * 50 + 1  # one row far above -> kept
            T = coef @ info["B"].T
            mx = numpy.max(numpy.abs(T), axis=0)
            if all((m <= datol / 10 * 1.0000001) or (m >= 10 * datol) for m in mx): break
        else:
            continue
        S = sorted(info["nonzero"])
        cols, vals = table(T, S, with_v=True)
        if t % 4 == 0:
            cols.append("P"); vals.append([0.0] * nrows)               # an all-zero NON-modulus column
        kwd = {} if datol == 1e-8 and t % 2 else {"drop_atol": datol}      # the default drop tolerance, keyword not passed
        cases.append({"family": "drop", "system": system, "columns": cols, "values": vals, "kw": kwd,
                      "sufficient": True, "contradiction": "none", "tensor": T.tolist()})
    return cases


def gen_zero_cases(rng, n_per_system):
    """supplied ALL-ZERO columns.  symmetry-allowed: an independent component (and what is proportional to it) vanishes at every
    volume and its column is supplied — an explicit zero is data: it counts for the rank and is reproduced (then omitted as a
    vanishing component); symmetry-forbidden: a component the relations force to 0, supplied as 0.0.  Family `subset`."""
    cases = []
    for system in fc.SYSTEMS:
        info = fc.invariant_basis(system); B = info["B"]; k = info["k"]
        mins = fc.minimal_sufficient_subsets(system)
        forbidden = [i for i in range(21) if i not in info["nonzero"]]
        for t in range(n_per_system):
            nrows = int(rng.integers(1, 6))
            for _ in range(200):
                coef = rng.uniform(20.0, 500.0, size=(nrows, k)) * rng.choice([-1.0, 1.0], size=(1, k))
                coef[:, int(rng.integers(0, k))] = 0.0
                T = coef @ B.T
                zero_allowed = [i for i in info["nonzero"] if not numpy.any(T[:, i])]
                if zero_allowed and all(numpy.all(numpy.abs(T[:, i]) >= 1.0) for i in info["nonzero"] if i not in zero_allowed): break
            else:
                continue
            cand = [m for m in mins if set(m) & set(zero_allowed)] or mins
            S = set(cand[int(rng.integers(0, len(cand)))])
            if not (S & set(zero_allowed)): S.add(zero_allowed[int(rng.integers(0, len(zero_allowed)))])
            if forbidden:
                S |= {int(x) for x in rng.choice(forbidden, size=min(len(forbidden), int(rng.integers(1, 4))), replace=False)}
            if t % 3 == 2 and system != "triclinic":
                # ... and an INSUFFICIENT one: a needed non-zero class is left out (a zero column is no substitute for it)
                nzs = [i for i in sorted(S) if i in info["nonzero"] and i not in zero_allowed]
                while nzs and fc.sufficient(system, sorted(S)):
                    S.discard(nzs.pop(int(rng.integers(0, len(nzs)))))
            S = sorted(S)
            ir, ik = (False, False) if t % 2 == 0 else FLAG_COMBOS[int(rng.integers(0, 4))]
            cols, vals = table(T, S, with_v=bool(rng.integers(0, 2)))
            if rng.integers(0, 2): cols = [c.upper() if c != "V" and rng.integers(0, 2) else c for c in cols]
            cases.append({"family": "subset", "system": system, "columns": cols, "values": vals, "kw": kw_of(ir, ik),
                          "sufficient": bool(fc.sufficient(system, S)), "contradiction": "none", "tensor": T.tolist(),
                          "zero": {"allowed": [fc.SYMS[i] for i in S if i in zero_allowed],
                                   "forbidden": [fc.SYMS[i] for i in S if i in forbidden]}})
    return cases


def gen_midmag_cases(rng, n):
    """one independent component has a magnitude BETWEEN the two tolerances at every volume (>= 10 drop_atol, <= residual_atol/5):
    it must be kept and reproduced — through the library with default and non-default tolerances, through `--drop-atol`, and
    through the settings-driven caller (a caller that confuses the two tolerances drops it).  Family `drop`."""
    cases = []
    settings = [({}, 0.01), ({"drop_atol": 1e-3}, 0.02), ({"drop_atol": 1e-3, "residual_atol": 10.0}, 0.5),
                ({"residual_atol": 2.0}, 0.2), ({"drop_atol": 1e-5, "residual_atol": 0.5}, 0.05)]
    systems = list(fc.SYSTEMS)
    for t in range(n):
        system = systems[int(rng.integers(0, len(systems)))]
        info = fc.invariant_basis(system); k = info["k"]
        kw, mag = settings[t % len(settings)]
        datol = kw.get("drop_atol", 1e-8)
        nrows = int(rng.integers(1, 5))
        for _ in range(100):
            coef = rng.uniform(200.0, 900.0, size=(nrows, k))
            coef[:, int(rng.integers(0, k))] = mag * rng.uniform(1.0, 1.5, size=nrows) * (1 if rng.integers(0, 2) else -1)
            T = coef @ info["B"].T
            mx = numpy.max(numpy.abs(T), axis=0)
            if all(m == 0 or m >= 10 * datol for m in mx): break
        else:
            continue
        cols, vals = table(T, sorted(info["nonzero"]), with_v=bool(t % 2))
        cases.append({"family": "drop", "system": system, "columns": cols, "values": vals, "kw": dict(kw), "sufficient": True,
                      "contradiction": "none", "tensor": T.tolist(), "midmag": mag})
    return cases


def gen_history_cases(rng, n):
    """ONE column set presented several times within this process, in different column orders and with fresh values each time
    (a cache keyed by the column set, a remembered row order, …): every presentation must give its own invariant tensor."""
    cases = []
    systems = [x for x in fc.SYSTEMS if x != "triclinic"]
    for t in range(n):
        system = systems[(t + int(rng.integers(0, len(systems)))) % len(systems)]
        mins = fc.minimal_sufficient_subsets(system)
        S = sorted(set(mins[int(rng.integers(0, len(mins)))]) | {int(x) for x in rng.choice(21, size=int(rng.integers(1, 5)), replace=False)})
        pres = []
        for n_ in range(int(rng.integers(3, 6))):
            T = fc.random_invariant(system, int(rng.integers(1, 4)), rng)
            cols, vals = table(T, S, with_v=True)
            perm = list(range(len(cols))) if n_ == 0 else [int(i) for i in rng.permutation(len(cols))]
            if n_ == 1 and perm == list(range(len(cols))): perm = perm[::-1]
            pres.append({"columns": [cols[i] for i in perm], "values": [vals[i] for i in perm], "tensor": T.tolist()})
        cases.append({"family": "history", "system": system, "kw": {}, "presentations": pres})
    return cases


def gen_fixed_cases():
    """deterministic cases: triclinic never refuses; residual test skipped when rank-deficient; malformed stream."""
    one = [[300.0, 280.0], [100.0, 90.0], [80.0, 70.0]]
    cases = [
        {"family": "subset", "system": "triclinic", "columns": ["V", "c11", "c12", "c44"],
         "values": [[100.0, 110.0]] + one, "kw": {}, "sufficient": False, "contradiction": "none"},
        {"family": "flags", "system": "cubic", "columns": ["V", "c11", "c22", "c12"],
         "values": [[100.0, 110.0], [300.0, 280.0], [400.0, 380.0], [100.0, 90.0]], "kw": {"ignore_rank": True},
         "sufficient": False, "contradiction": "large"},
    ]
    bad = [("c21", "cubic"), ("c77", "cubic"), ("xc11", "hexagonal"), ("c111", "cubic"), ("C21", "trigonal7"),
           ("cc11", "cubic"), ("1c23x", "cubic"), ("c1", "cubic"), ("c", "cubic"), ("C10", "cubic"), ("c07", "triclinic")]
    for name, system in bad:
        cases.append({"family": "malformed", "system": system, "columns": ["V", "c11", "c12", "c44", name],
                      "values": [[100.0, 110.0]] + one + [[1.0, 2.0]], "kw": {}})
    cases.append({"family": "malformed", "system": "cubic", "columns": ["V", "P"], "values": [[1.0, 2.0], [3.0, 4.0]], "kw": {}})
    cases.append({"family": "malformed", "system": "triclinic", "columns": ["V", "P"], "values": [[1.0, 2.0], [0.0, 0.0]], "kw": {}})
    cases.append({"family": "subset", "system": "triclinic", "columns": ["c11", "P"], "values": [[300.0, 280.0], [0.0, 0.0]],
                  "kw": {"ignore_rank": True}, "sufficient": False, "contradiction": "none"})
    cases.append({"family": "malformed", "system": "rhombic", "columns": ["V", "c11"], "values": [[1.0, 2.0], [3.0, 4.0]], "kw": {}})
    cases.append({"family": "malformed", "system": None, "columns": ["V", "c21"], "values": [[1.0, 2.0], [3.0, 4.0]], "kw": {}})
    cases.append({"family": "malformed", "system": "triclinic", "columns": ["V", "c11"], "values": [[1.0, 2.0], [0.0, 0.0]], "kw": {}})
    cases.append({"family": "malformed", "system": "cubic", "columns": ["c11", "C11", "c12", "c44"],
                  "values": [[300.0], [300.0], [100.0], [80.0]], "kw": {}})
    return cases


# ----------------------------------------------------------------------------- run
def model_for(case):
    fam = case["family"]
    exists = fam == "variant" and case["variant"] in ("cwd", "userfile", "userfile-named", "userfile-rel", "userfile-abs", "userfile-dot")
    user_rows = None
    if fam == "variant" and case["variant"] in ("userfile", "userfile-named", "userfile-rel", "userfile-abs", "userfile-dot"):
        user_rows = []
        for co, rhs in fc.file_rows(case["system"]):
            den = 1
            for v in list(co) + [rhs]: den = den * v.denominator // math.gcd(den, v.denominator)
            user_rows.append(([int(c * den) for c in co], int(rhs * den), den))
    # the user-file variant hands the real code a PATH (not a packaged system name); the model gets the same kind of name
    sysname = (case.get("user_file_name") or "my_relations.txt") if user_rows is not None else case["system"]
    if fam == "variant" and case["variant"] in ("userfile-rel", "userfile-abs"):
        sysname = "/".join((["/scratch"] if case["variant"] == "userfile-abs" else []) + list(case["path_dirs"]) + [case["path_name"]])
    if fam == "variant" and case["variant"] == "userfile-dot":
        sysname = case["dot_arg"]
    return model_op_kw(case["columns"], case["values"], sysname, case.get("kw"), exists=exists, user_rows=user_rows)


def model_op_kw(columns, values, system, kw, **more):
    """the wire op with ONLY the keywords the case passes: absent ones take the signature's defaults inside the model
    (`CijModel/FillCall.lean`, proved equal to the translated defaults), as they do in the real call"""
    op = fc.model_op(columns, values, system, kw, **more)
    for k in ("ignore_residuals", "ignore_rank", "drop_atol", "residual_atol"):
        if k not in (kw or {}): op.pop(k, None)
    return op


def ops_of(case):
    """wire ops of a case: one, or one per presentation of a history"""
    if case["family"] == "history":
        return [model_op_kw(p["columns"], p["values"], case["system"], case.get("kw")) for p in case["presentations"]]
    return [model_for(case)]


def count(d, group, key, n=1):
    d.setdefault(group, {}).setdefault(key, 0); d[group][key] += n


def evaluate(ctx: Ctx, res: Result, cases):
    per_case = [ops_of(c) for c in cases]
    flat = [o for ops in per_case for o in ops]
    answers = ctx.driver.ask(flat) if flat else []
    pos = 0
    for case, ops in zip(cases, per_case):
        models = [fc.decode_model(m) for m in answers[pos:pos + len(ops)]]; pos += len(ops)
        if ctx.time_left() < 30: break
        model = models[0]
        impl, fails = oracle(case)
        res.evaluations += 1
        fam = case["family"] + (":" + case["variant"] if "variant" in case else "")
        d = res.distribution
        count(d, "families", fam)
        count(d, "impl_status", impl["status"])
        count(d, "systems", str(case["system"]))
        if "sufficient" in case:
            count(d, "rank", "sufficient" if case["sufficient"] else "insufficient")
        # what the strengthened generators must deliver in every run
        kw = case.get("kw") or {}
        if case.get("zero"):
            count(d, "supplied_all_zero_columns", "cases")
            count(d, "supplied_all_zero_columns", "symmetry_allowed", len(case["zero"]["allowed"]))
            count(d, "supplied_all_zero_columns", "symmetry_forbidden", len(case["zero"]["forbidden"]))
        if case.get("variant") in ("userfile-rel", "userfile-abs", "userfile-named", "userfile-dot"):
            count(d, "relations_by_path_named_like_a_packaged_system",
                  {"userfile-rel": "relative", "userfile-abs": "absolute", "userfile-named": "absolute",
                   "userfile-dot": "in_cwd_given_as_./name"}[case["variant"]])
        if "drop_atol" in kw and kw["drop_atol"] != 1e-8: count(d, "nondefault_tolerances", "library_drop_atol")
        if "residual_atol" in kw and kw["residual_atol"] != 0.1: count(d, "nondefault_tolerances", "library_residual_atol")
        if "midmag" in case: count(d, "nondefault_tolerances", "component_between_the_tolerances")
        if not kw: count(d, "nondefault_tolerances", "no_keyword_at_all(defaults_of_signature_vs_model)")
        if case["family"] == "perturb" and "residual_atol" not in kw:
            count(d, "nondefault_tolerances", "default_residual_atol_within_25pct_of_threshold" if case.get("target_factor") in (0.8, 1.25)
                  else "default_residual_atol_other")
        if case["family"] == "history":
            count(d, "column_set_histories", "histories")
            count(d, "column_set_histories", "presentations", len(case["presentations"]))
            count(d, "column_set_histories", "distinct_orders", len({tuple(p["columns"]) for p in case["presentations"]}))
        # (the model has no dtype: an integer-typed table is sent as the same numbers)
        if case["family"] == "history":
            ok, note = True, ""
            for n_, (pres, m) in enumerate(zip(case["presentations"], models)):
                one = fc.run_impl(pres["columns"], pres["values"], case["system"], case.get("kw"))
                ok, note = fc.compare_outcomes(one, m, RTOL)
                if not ok:
                    note = f"presentation {n_ + 1}: {note}"; impl, model = one, m; break
        else:
            ok, note = fc.compare_outcomes(impl, model, RTOL)
        if ok: res.traces_validated += 1
        else: res.disagreements.append(Disagreement("c09.fill", case, impl.get("status"), model.get("status"), note))
        for what, obs, exp, site in fails:
            res.oracle_failures.append(OracleFailure(what=what, input=case, observed=obs, expected=exp, site=site))
        if len(res.samples) < 5 and fam not in [s.get("family") for s in res.samples]:
            res.samples.append({"family": fam, "system": case["system"], "columns": case.get("columns"), "kw": case.get("kw"),
                                "impl_status": impl["status"], "model_status": model.get("status"),
                                "impl_columns": impl.get("columns")})



# ----------------------------------------------------------------------------- the same through `cij fill` (second observation point)
def run_cli(case):
    """`cij fill -s SYSTEM [--ignore-residuals] [--ignore-rank] [--drop-atol X] FILE` through click's CliRunner on a file that
    holds the case's table (17 significant digits).  Returns an outcome in the format of fc.run_impl."""
    import io, os, tempfile, shutil, warnings
    import pandas
    from click.testing import CliRunner
    from cij.cli.cij import main          # the documented command: `cij fill …` (the group, as installed)
    kw = case.get("kw", {})
    cols, vals = case["columns"], case["values"]
    n = len(vals[0]) if vals else 0
    lines = ["V_0 N cellmass test", "100.0 %d 10.0" % n, " ".join(cols)]
    for r in range(n):
        lines.append(" ".join(repr(float(vals[c][r])) for c in range(len(cols))))
    # the rest of the file (lattice parameters) must be echoed untouched
    rest = ["", "lattice parameters"] + ["%d.5 %d.25 %d.125" % (r + 1, r + 2, r + 3) for r in range(n)]
    tmp = tempfile.mkdtemp(prefix="c09cli_")
    try:
        path = os.path.join(tmp, "elast.dat")
        with open(path, "w") as fp: fp.write("\n".join(lines + rest) + "\n")
        args = ["fill", "-s", case["system"]]
        if kw.get("ignore_residuals"): args.append("--ignore-residuals")
        if kw.get("ignore_rank"): args.append("--ignore-rank")
        if "drop_atol" in kw: args += ["--drop-atol", repr(float(kw["drop_atol"]))]
        with warnings.catch_warnings():
            warnings.simplefilter("ignore")
            r = CliRunner().invoke(main, args + [path])
        if r.exit_code != 0:
            if r.exception is not None and not isinstance(r.exception, SystemExit):
                return {"status": fc.classify(r.exception), "detail": str(r.exception)[:200]}
            return {"status": "error:exit%d" % r.exit_code}
        out = r.stdout.split("\n")
        # what the command printed is an OBSERVATION: header lines and the rest of the file echoed, N + 1 table lines in between
        if out[:2] != lines[:2]:
            return {"status": "error:cli-header-not-echoed", "detail": repr(out[:2])[:200]}
        if out[2 + n + 1:] != rest + [""]:
            return {"status": "error:cli-rest-of-file-not-echoed", "detail": repr(out[2 + n + 1:])[:200]}
        try:
            df = pandas.read_table(io.StringIO("\n".join(out[2:2 + n + 1]) + "\n"), header=0, index_col=None, sep=r"\s+")
            vals = [df[c].to_numpy(dtype=float).tolist() for c in df.columns]
            if len(df) != n or any(not math.isfinite(x) for v in vals for x in v): raise ValueError(f"{len(df)} complete rows, expected {n}")
        except Exception as e:
            return {"status": "error:cli-table-not-N-rows", "detail": f"{type(e).__name__}: {e}"[:200]}
        return {"status": "ok", "columns": [str(c) for c in df.columns], "values": vals}
    finally:
        shutil.rmtree(tmp, ignore_errors=True)


def cli_cases(ctx: Ctx, res: Result, cases, cap):
    """status (accept / refuse:rank / refuse:residual) of the command = status the statement prescribes for the same table and
    flags; the prescribed status is the one the property oracle accepts for the library call (oracle(case) without failures),
    so only cases on which the library call itself satisfies the statement are used as reference"""
    n = 0
    for case in cases:
        if n >= cap or ctx.time_left() < 30: break
        kw = case.get("kw", {})
        if case["system"] is None or case["family"] not in ("flags", "subset", "perturb", "drop"): continue
        if any(k not in ("ignore_residuals", "ignore_rank", "drop_atol") for k in kw): continue      # no CLI option for residual_atol
        if not all(isinstance(c, str) and c.strip() and " " not in c for c in case["columns"]): continue
        if case.get("int_cols") or case.get("variant"): continue
        lib, fails = oracle(case)
        if fails: continue
        cli = run_cli(case)
        n += 1
        res.evaluations += 1
        if "drop_atol" in kw and kw["drop_atol"] != 1e-8: count(res.distribution, "nondefault_tolerances", "cli_drop_atol")
        if case.get("zero"): count(res.distribution, "supplied_all_zero_columns", "through_cli")
        if cli["status"] != lib["status"]:
            res.oracle_failures.append(OracleFailure(
                what=f"`cij fill` with flags {sorted(k for k in ('ignore_residuals', 'ignore_rank') if kw.get(k))}: status {cli['status']}, "
                     f"the statement prescribes {lib['status']} for this table",
                input=dict(case, cli=True), observed=cli["status"], expected=lib["status"], site="c09:cli:status"))
        elif cli["status"] == "ok":
            a, b = fc.as_map(cli), fc.as_map(lib)
            scale = fc.table_scale(case["values"])
            # the command prints with pandas' default 6 significant digits
            if set(a) != set(b) or any(float(numpy.max(numpy.abs(numpy.array(a[k]) - numpy.array(b[k])))) > 1e-5 * max(scale, 1.0) for k in a):
                res.oracle_failures.append(OracleFailure(what="`cij fill` prints a different table than fill_cij returns for the same input",
                                                         input=dict(case, cli=True), observed={k: a[k][:2] for k in sorted(a)[:6]},
                                                         expected={k: b[k][:2] for k in sorted(b)[:6]}, site="c09:cli:table"))
            else:
                res.traces_validated += 1
        else:
            res.traces_validated += 1
    res.distribution["cli_cases"] = res.distribution.get("cli_cases", 0) + n


# ----------------------------------------------------------------------------- third observation point: the settings-driven caller
def run_settings_caller(case):
    """`apply_symetry_on_elast_data(data, {"system": …, **kw})` (what `cij run` does with the `symmetry` block of the settings) on an
    ElastData holding the modulus columns of the case.  Returns an outcome in the format of fc.run_impl."""
    from cij.io.traditional.elast_dat import ElastData, ElastVolumeData, apply_symetry_on_elast_data
    from cij.util import c_
    idx, pos = sel_of(case["columns"])
    n = len(case["values"][0])
    vols = [ElastVolumeData(100.0 + r, dict((c_(fc.SYMS[i][1:]), float(case["values"][p][r])) for i, p in zip(idx, pos))) for r in range(n)]
    data = ElastData(100.0, n, 10.0, vols, [])
    try:
        apply_symetry_on_elast_data(data, dict(case.get("kw") or {}, system=case["system"]))
    except BaseException as e:
        if isinstance(e, (KeyboardInterrupt, SystemExit)): raise
        return {"status": fc.classify(e), "detail": str(e)[:200]}
    keys = list(data.volumes[0].static_elastic_modulus.keys())
    return {"status": "ok", "columns": [f"c{k.v[0]}{k.v[1]}" for k in keys],
            "values": [[float(v.static_elastic_modulus[k]) for v in data.volumes] for k in keys]}


def caller_cases(ctx: Ctx, res: Result, cases, cap):
    """outcome of the settings-driven caller = outcome the statement prescribes for the same moduli and the same settings (status,
    set of components, values): only cases on which the library call itself satisfies the statement are used as reference"""
    n = 0
    for case in cases:
        if n >= cap or ctx.time_left() < 30: break
        if case["system"] is None or case["family"] not in ("flags", "subset", "perturb", "drop"): continue
        if case.get("int_cols") or case.get("variant"): continue
        idx, pos = sel_of(case["columns"])
        if not idx or len(idx) != len([c for c in case["columns"] if c.lower() in fc.SYMS]): continue
        _, fails = oracle(case)
        if fails: continue
        mcols = [fc.SYMS[i] for i in idx]; mvals = [case["values"][p] for p in pos]
        lib = fc.run_impl(mcols, mvals, case["system"], case.get("kw"))
        got = run_settings_caller(case)
        n += 1
        res.evaluations += 1
        kw = case.get("kw") or {}
        count(res.distribution, "nondefault_tolerances", "settings_caller_cases")
        if ("drop_atol" in kw and kw["drop_atol"] != 1e-8) or ("residual_atol" in kw and kw["residual_atol"] != 0.1):
            count(res.distribution, "nondefault_tolerances", "settings_caller_nondefault")
        payload = dict(case, caller=True)
        if got["status"] != lib["status"]:
            res.oracle_failures.append(OracleFailure(
                what=f"apply_symetry_on_elast_data with settings {kw}: status {got['status']}, the statement prescribes {lib['status']}",
                input=payload, observed=got["status"], expected=lib["status"], site="c09:caller:status"))
        elif got["status"] == "ok":
            a, b = fc.as_map(got), fc.as_map(lib)
            scale = max(fc.table_scale(case["values"]), 1.0)
            if set(a) != set(b):
                res.oracle_failures.append(OracleFailure(
                    what=f"apply_symetry_on_elast_data with settings {kw}: components {sorted(set(a) ^ set(b))} kept/omitted differently "
                         f"from what the tolerances of these settings prescribe",
                    input=payload, observed=sorted(a), expected=sorted(b), site="c09:caller:components"))
            elif any(max(abs(x - y) for x, y in zip(a[k], b[k])) > RTOL * scale for k in a):
                res.oracle_failures.append(OracleFailure(what=f"apply_symetry_on_elast_data with settings {kw}: different values",
                                                         input=payload, observed={k: a[k][:2] for k in sorted(a)[:6]},
                                                         expected={k: b[k][:2] for k in sorted(b)[:6]}, site="c09:caller:values"))
            else:
                res.traces_validated += 1
        else:
            res.traces_validated += 1


def run(ctx: Ctx) -> Result:
    res = Result()
    rng = ctx.rng
    res.rule = ("a case = one table + system + flags (+ environment variant); distinct by construction (fresh random tensor and "
                "subset); non-trivial = cases whose outcome is not the trivial pass-through (system None / triclinic)")
    for payload in ctx.corpus():
        for f in replay(ctx, payload.get("input", payload)): res.oracle_failures.append(f)
    big = ctx.thorough()
    cases = gen_fixed_cases()
    cases += gen_subset_cases(rng, 40 if big else 8)
    cases += gen_perturb_cases(rng, 16 if big else 4)
    cases += gen_flag_cases(rng, 6 if big else 2)
    cases += gen_variant_cases(rng, 6 if big else 2)
    cases += gen_drop_cases(rng, 60 if big else 12)
    zero = gen_zero_cases(rng, 6 if big else 2)
    mid = gen_midmag_cases(rng, 30 if big else 10)
    hist = gen_history_cases(rng, 24 if big else 6)
    cases += zero + mid + hist
    if big:
        sweep = gen_sweep_cases(rng)
        res.distribution["pivot_subset_sweep_cases"] = len(sweep)
        cases += sweep
    evaluate(ctx, res, cases)
    flagged = [c for c in cases if c["family"] == "flags"] + [c for c in cases if c["family"] in ("subset", "perturb")]
    cli_cases(ctx, res, flagged, 160 if big else 40)
    # non-default --drop-atol, magnitudes between the tolerances and supplied all-zero columns through the command as well
    dropc = [c for c in cases if c["family"] == "drop"]
    cli_cases(ctx, res, mid + zero[::2] + dropc, 80 if big else 22)
    # ... and through the settings-driven caller (both tolerances)
    pert = [c for c in cases if c["family"] == "perturb"]
    caller_cases(ctx, res, mid + dropc[:8] + pert[:8] + zero[1::2], 120 if big else 34)
    floor = {"supplied_all_zero_columns": ("symmetry_allowed", "symmetry_forbidden"),
             "relations_by_path_named_like_a_packaged_system": ("relative", "absolute"),
             "nondefault_tolerances": ("library_drop_atol", "library_residual_atol", "cli_drop_atol", "settings_caller_nondefault",
                                       "component_between_the_tolerances"),
             "column_set_histories": ("histories",)}
    missing = [f"{g}.{k}" for g, ks in floor.items() for k in ks if not res.distribution.get(g, {}).get(k)]
    if missing:
        res.notes.append("GENERATOR FLOOR NOT REACHED (time budget?): " + ", ".join(missing))
    res.distinct_nontrivial = sum(1 for c in cases if c["system"] not in (None, "triclinic"))
    res.notes.append("op `c09.fill` receives only the keywords a case passes; absent ones are the defaults of CijModel/FillCall.lean "
                     "(theorem fill_model_is_source_defaults: = the signature's), as in the real call")
    res.notes.append("the model has no dtype: integer-typed tables are sent to it as the same numbers; the int-vs-float clause "
                     "is evaluated by the oracle on the real code")
    return res


def search(ctx: Ctx, res: Result):
    found = Result()
    rng = numpy.random.Generator(numpy.random.PCG64([ctx.seed, 9009]))
    cases = gen_subset_cases(rng, 12) + gen_perturb_cases(rng, 6) + gen_flag_cases(rng, 3) + gen_drop_cases(rng, 20)
    extra = gen_zero_cases(rng, 3) + gen_midmag_cases(rng, 15)
    cases += extra + gen_history_cases(rng, 9) + [c for c in gen_variant_cases(rng, 2) if c["variant"].startswith("userfile")]
    # around the disagreements: the same tables under all four flag combinations
    for d in res.disagreements[:10]:
        c = d.input
        if isinstance(c, dict) and c.get("family") in ("subset", "perturb", "flags", "drop"):
            for ir, ik in FLAG_COMBOS:
                kw = dict(c.get("kw", {})); kw.pop("ignore_residuals", None); kw.pop("ignore_rank", None)
                cases.append(dict(c, kw=dict(kw, **kw_of(ir, ik))))
    evaluate(ctx, found, cases)
    cli_cases(ctx, found, [c for c in cases if c["family"] == "flags"] + extra, 60)
    caller_cases(ctx, found, extra + [c for c in cases if c["family"] in ("drop", "perturb")], 60)
    return found.oracle_failures


def replay(ctx: Ctx, payload):
    if payload.get("cli"):
        r = Result()
        case = {k: v for k, v in payload.items() if k != "cli"}
        cli_cases(ctx, r, [case], 1)
        return r.oracle_failures
    if payload.get("caller"):
        r = Result()
        caller_cases(ctx, r, [{k: v for k, v in payload.items() if k != "caller"}], 1)
        return r.oracle_failures
    _, fails = oracle(payload)
    return [OracleFailure(what=w, input=payload, observed=o, expected=e, site=s) for w, o, e, s in fails]
