"""C20 — eigenvector tools: evec_sort recovers the planted permutation, evec_disp2eig restores an orthonormal basis,
evec_load returns the printed numbers.

Streams (each: the REAL function in-process, the Lean model through the driver, and an oracle that uses neither):
  sort     : unitary bases (QR of Gaussian matrices, real and complex), dimensions 2-60, a random permutation,
             random phases (±1 / e^{iθ}), perturbation of norm <= 5 %; ORACLE = the planted permutation
             (sorted[i] must be the item of the target vector built from base vector i) and "is a permutation".
  disp2eig : rows c_i M^{-1/2} e_i for orthonormal e_i, |c_i| over 6 decades, positive masses over 2 decades;
             ORACLE = unit norm, rows equal (c_i/|c_i|) e_i, ||A A† - 1||.
  load     : synthetic matdyn files (1-6 q-points, 3-60 modes) printed by the harness in the Fortran layout of the
             shipped test files; ORACLE = float() of the very strings that were printed.
  mismatch : wrong dimensions must raise (both tools).
  rx       : the backtracking matcher of CijModel/EvecSrc.lean, run by the driver on the regex AST translated from evec_load.py on THIS
             run, against Python's `re` on the compiled patterns of the module (q / freq lines, damaged lines, adversarial strings).
  *_src    : the interpreters of the translated description (`runSort`, `runDisp`, `evecLoadS`) against the real functions.
Every quick run contains: q-points printed exactly `0.000000 0.000000 0.000000` (also `0.0000`, `-0.0000`, `0 0 0`, not first in the
file) with genuinely complex vectors; mismatched shapes whose element count is a multiple of 3N (3N×(3N±1), transposed layouts, M×6N,
wrong mass count with 3(N±1) | M·K); second bases in which several row maxima exceed 0.5 and two rows share their strongest partner.
Outside the quantifier, model-vs-code only: duplicated target vectors (None entries), vector components that fill
all ten columns (first character lost), truncated files.
"""
from __future__ import annotations

import os
import shutil
import tempfile
from fractions import Fraction

import numpy

from harness.common import Ctx, Result, Disagreement, OracleFailure, f2b, b2f

ASSUMPTIONS = [
    "sort: base = rows of a unitary matrix (||QQ†-1|| measured per case), target = permuted rows times unit phases plus a perturbation of 2-norm <= 0.05 per vector (the property's 5 %)",
    "sort: the model computes the overlap matrix with a left fold, numpy with BLAS; both pick the same argmax because planted entries are separated by >= 0.9 (ties only among exact zeros, where both return the first index)",
    "disp2eig: positive masses, non-zero rows; complex sqrt of a norm with zero imaginary part equals the real sqrt (numpy)",
    "load: files in matdyn's layout as printed by the shipped tests/data/pwscf.eig (the harness' printer reproduces that file byte for byte from its parsed values — checked on every run); |component| < 10",
    "every Python exception type counts as 'rejected'",
    "rx / load: ASCII text; Python's \\s and \\d also match non-ASCII blanks and digits, the model's classes are the six ASCII blanks and 0-9",
]
TRUSTED_EXTRA = [
    "C20: float rounding is outside the theorems (greedy loop proved over any linear order, margins over exact inner products); the Float run of the model is compared with numpy on every case",
    "C20: float() is outside the Lean model (exact decimals in the driver; compared with the real loader on every file); Python's `re` is modelled by a backtracking matcher for the grammar of the two patterns (ASCII classes) and compared with `re` on every run (stream rx)",
    "C20: tools/gens/evec_src.py (translator of evec_sort.py / evec_disp2eig.py / evec_load.py into Generated/EvecSpec.lean) and the meaning CijModel/EvecSrc.lean gives to the extracted data (numpy.argmax = first maximum in row-major order, numpy.repeat, broadcasting, @)",
]

STARS = " " + "*" * 74
SRC_MAX_DIM = 8          # the interpreters of the translated description keep arrays as index functions: small dimensions only


# ===================================================================================== helpers
def unitary(rng, n, complex_):
    a = rng.normal(size=(n, n))
    if complex_: a = a + 1j * rng.normal(size=(n, n))
    q, r = numpy.linalg.qr(a)
    d = numpy.diag(r)
    q = q * (d / numpy.abs(d))[None, :]         # Haar measure
    return q


def enc_c(m):
    return [[[f2b(complex(z).real), f2b(complex(z).imag)] for z in row] for row in m]


def to_json_c(m):
    return [[[float(complex(z).real), float(complex(z).imag)] for z in row] for row in m]


def from_json_c(j):
    return [[complex(z[0], z[1]) for z in row] for row in j]


def present(rows, how, real):
    """the same vectors handed over as list of lists / tuple of tuples / ndarray"""
    rows = [[(z.real if real else z) for z in r] for r in rows]
    if how == "list": return [list(r) for r in rows]
    if how == "tuple": return tuple(tuple(r) for r in rows)
    return numpy.array(rows)


# ===================================================================================== sort
def gen_sort_case(rng, n, complex_, eps):
    q = unitary(rng, n, complex_)
    sigma = rng.permutation(n)                                  # target j is built from base sigma[j]
    if complex_: ph = numpy.exp(2j * numpy.pi * rng.random(n))
    else: ph = rng.choice([-1.0, 1.0], size=n).astype(complex)
    t = ph[:, None] * q[sigma]
    if eps > 0:
        d = rng.normal(size=(n, n)) + (1j * rng.normal(size=(n, n)) if complex_ else 0)
        d = d / numpy.linalg.norm(d, axis=1)[:, None] * (eps * rng.random(n))[:, None]
        t = t + d
    return {"n": n, "complex": bool(complex_), "eps": float(eps), "base": to_json_c(q.astype(complex)),
            "target": to_json_c(t.astype(complex)), "sigma": [int(s) for s in sigma],
            "items": [f"item{int(k)}" for k in rng.permutation(n)]}


def real_sort(case, how="list"):
    if len(case["items"]) % 2:
        from cij.misc import evec_sort            # the re-export of cij/misc/__init__.py
    else:
        from cij.misc.evec_sort import evec_sort
    real = not case["complex"]
    b = present(from_json_c(case["base"]), how, real)
    t = present(from_json_c(case["target"]), how, real)
    try:
        return list(evec_sort(list(case["items"]), t, b))
    except Exception as e:
        return "error:" + type(e).__name__


def oracle_sort(case, got):
    n = case["n"]
    if isinstance(got, str): return [("evec_sort raised", got, "a sorted list")]
    pi = [None] * n
    for j, s in enumerate(case["sigma"]): pi[s] = j
    want = [case["items"][pi[i]] for i in range(n)]
    bad = []
    if sorted(map(str, got)) != sorted(case["items"]):
        bad.append(("result is not a permutation of the items", [g for g in got][:8], sorted(case["items"])[:8]))
    if got != want:
        i = next(k for k in range(n) if k >= len(got) or got[k] != want[k])
        bad.append((f"item at position {i} is not the one matching base vector {i}", got[i] if i < len(got) else None, want[i]))
    return bad


def run_sort(ctx: Ctx, res: Result, n_cases):
    rng = ctx.rng
    dist = res.distribution.setdefault("sort", {"cases": 0, "dims": {}, "complex": 0, "real": 0, "eps_bins": {}, "presentation": {},
                                                "max_unitarity_defect": 0.0, "min_margin": 1.0, "outside_quantifier": 0})
    dims = [2, 3, 60, 59, 4, 5, 6, 30]
    for ci in range(n_cases):
        if ctx.time_left() < 60: res.notes.append("sort stream cut short"); break
        n = dims[ci] if ci < len(dims) else int(rng.integers(2, 61))
        cx = bool(ci % 2)
        eps = [0.0, 0.05, 0.01, 0.05][ci % 4] if ci < 16 else float(rng.choice([0.0, 0.05, rng.uniform(0, 0.05)]))
        case = gen_sort_case(rng, n, cx, eps)
        how = ["list", "tuple", "ndarray"][ci % 3]
        got = real_sort(case, how)
        res.evaluations += 1
        dist["cases"] += 1; dist["dims"][n] = dist["dims"].get(n, 0) + 1
        dist["complex" if cx else "real"] += 1
        b = "0" if eps == 0 else "<=0.01" if eps <= 0.01 else "<=0.05"
        dist["eps_bins"][b] = dist["eps_bins"].get(b, 0) + 1
        dist["presentation"][how] = dist["presentation"].get(how, 0) + 1
        B = numpy.array(from_json_c(case["base"])); T = numpy.array(from_json_c(case["target"]))
        defect = float(numpy.abs(B @ B.conj().T - numpy.eye(n)).max())
        dist["max_unitarity_defect"] = max(dist["max_unitarity_defect"], defect)
        if defect > 1e-10: res.contract_failures.append(f"QR basis not unitary: {defect:.2e}")
        mag = numpy.abs(B.conj() @ T.T)
        pi = numpy.argsort(case["sigma"])
        planted = mag[numpy.arange(n), pi]
        other = mag.copy(); other[numpy.arange(n), pi] = 0
        dist["min_margin"] = min(dist["min_margin"], float((planted - other.max(axis=1)).min()))
        for what, obs, exp in oracle_sort(case, got):
            res.oracle_failures.append(OracleFailure(what=f"evec_sort: {what.split(' at position')[0]}",
                                                     input={"kind": "sort", "case": case}, observed=obs, expected=exp,
                                                     site="evec_sort:" + what.split(" at position")[0][:40]))
            break
        m = ctx.driver.ask([{"op": "c20.sort", "target": enc_c(T), "base": enc_c(B), "n_items": n}])[0]
        gi = got if isinstance(got, str) else [case["items"].index(g) if g is not None else None for g in got]
        if (m if m != "error" else "error") != (gi if not isinstance(gi, str) else "error"):
            res.disagreements.append(Disagreement("c20.sort", {"kind": "sort", "case": case}, gi, m))
        else:
            res.traces_validated += 1
        if n <= SRC_MAX_DIM:
            ms = ctx.driver.ask([{"op": "c20.sort_src", "target": enc_c(T), "base": enc_c(B), "n_items": n}])[0]
            dist["source_interpreter"] = dist.get("source_interpreter", 0) + 1
            if ms != (gi if not isinstance(gi, str) else "error"):
                res.disagreements.append(Disagreement("c20.sort_src", {"kind": "sort", "case": case}, gi, ms,
                                                      note="interpreter of the translated evec_sort (EvecSrc.runSort)"))
            else:
                res.traces_validated += 1
        if ci < 2:
            res.samples.append({"stream": "sort", "n": n, "complex": cx, "eps": eps, "sigma": case["sigma"][:6],
                                "result": got[:6] if not isinstance(got, str) else got, "items": case["items"][:6]})
    # "its result is ALWAYS a permutation of its input": second bases that are NOT close to a permutation of the first — an
    # unrelated unitary basis, and a basis in which three modes are strongly mixed (avoided crossing: overlaps 0.5–0.8 shared
    # between rows).  Generic (all overlap magnitudes non-zero and pairwise distinct beyond rounding), so the elimination is
    # unambiguous; only the permutation clause and the correspondence are checked here (no position is prescribed).
    n_arb = 0
    arb = dist.setdefault("arbitrary", {"rows_with_max_gt_half>=2": 0, "all_rows_max_gt_half": 0, "two_rows_share_strongest_partner": 0,
                                        "all_rows_gt_half_and_shared_partner": 0})
    n_loop = 40 if ctx.thorough() else 12
    k = -1
    while True:
        k += 1
        # at least three cases per run in which EVERY row maximum exceeds 1/2 and two rows share their strongest partner
        if k >= n_loop and (arb["all_rows_gt_half_and_shared_partner"] >= 3 or k >= n_loop + 40): break
        if ctx.time_left() < 60: break
        n = [3, 4, 5, 8, 12, 3, 6, 30, 3, 10, 60, 7][k % 12]
        if k >= n_loop: n = [5, 3, 7][k % 3]
        cx = bool(k % 2)
        case = gen_sort_case(rng, n, cx, 0.0)
        B = numpy.array(from_json_c(case["base"]))
        if k % 2 == 0 and k < n_loop:
            T = unitary(rng, n, cx)                              # unrelated basis
        else:
            T = numpy.array(from_json_c(case["target"]))
            i3 = rng.permutation(n)[:3]
            M = unitary(rng, 3, cx)
            # strong mixing; in every second such case two base vectors have their LARGEST overlap with the same target
            # (both above 1/2): a row-wise arg-max is then not an assignment, the elimination must resolve it
            shared = (k % 4 == 1) or k >= n_loop
            for _ in range(20000):
                A = numpy.abs(M)
                if A.max() <= 0.85 and (not shared or (A.max(axis=0).min() > 0.5 and len(set(A.argmax(axis=0))) < 3)): break
                M = unitary(rng, 3, cx)
            T[i3] = M @ T[i3]                                    # three targets become strong mixtures of three base vectors
        case["target"] = to_json_c(T.astype(complex)); case["sigma"] = None
        mag = numpy.sort(numpy.abs(B.conj() @ T.T).ravel())
        if mag[0] < 1e-9 or numpy.min(numpy.diff(mag)) < 1e-12: continue
        magm = numpy.abs(B.conj() @ T.T)
        rows_gt = int((magm.max(axis=1) > 0.5).sum()); share = len(set(magm.argmax(axis=1))) < n
        arb["rows_with_max_gt_half>=2"] += rows_gt >= 2; arb["all_rows_max_gt_half"] += rows_gt == n
        arb["two_rows_share_strongest_partner"] += bool(share); arb["all_rows_gt_half_and_shared_partner"] += bool(share and rows_gt == n)
        got = real_sort(case, ["list", "tuple", "ndarray"][k % 3])
        res.evaluations += 1; n_arb += 1
        if isinstance(got, str) or sorted(map(str, got)) != sorted(case["items"]):
            res.oracle_failures.append(OracleFailure(what="evec_sort: result is not a permutation of the items (second basis not close to a permutation of the first)",
                                                     input={"kind": "sort-arbitrary", "case": case}, observed=got if isinstance(got, str) else [str(g) for g in got][:10],
                                                     expected=sorted(case["items"])[:10], site="evec_sort:result is not a permutation of the items"))
        m = ctx.driver.ask([{"op": "c20.sort", "target": enc_c(T), "base": enc_c(B), "n_items": n}])[0]
        gi = got if isinstance(got, str) else [case["items"].index(g) if g is not None else None for g in got]
        if (m if m != "error" else "error") != (gi if not isinstance(gi, str) else "error"):
            res.disagreements.append(Disagreement("c20.sort:arbitrary", {"kind": "sort-arbitrary", "case": case}, gi, m))
        else:
            res.traces_validated += 1
        if n <= SRC_MAX_DIM:
            ms = ctx.driver.ask([{"op": "c20.sort_src", "target": enc_c(T), "base": enc_c(B), "n_items": n}])[0]
            dist["source_interpreter"] = dist.get("source_interpreter", 0) + 1
            if ms != (gi if not isinstance(gi, str) else "error"):
                res.disagreements.append(Disagreement("c20.sort_src:arbitrary", {"kind": "sort-arbitrary", "case": case}, gi, ms,
                                                      note="interpreter of the translated evec_sort (EvecSrc.runSort)"))
            else:
                res.traces_validated += 1
    dist["arbitrary_second_basis"] = n_arb
    # outside the quantifier: duplicated / zero target vectors (None entries) — model vs code only
    for k in range(6):
        n = int(rng.integers(2, 9))
        case = gen_sort_case(rng, n, bool(k % 2), 0.0)
        t = from_json_c(case["target"])
        if k % 3 == 2: t[0] = [0j] * n
        else: t[1] = list(t[0])
        case["target"] = to_json_c(t)
        got = real_sort(case)
        res.evaluations += 1; dist["outside_quantifier"] += 1
        # the loop itself is compared on numpy's own magnitude matrix (rounding noise of an exactly-zero overlap decides here)
        real = not case["complex"]
        mag = numpy.abs(numpy.conj(numpy.array(present(from_json_c(case["base"]), "list", real)))
                        @ numpy.array(present(t, "list", real)).T)
        m = ctx.driver.ask([{"op": "c20.sort_mag", "a": [[f2b(x) for x in row] for row in mag]}])[0]
        gi = got if isinstance(got, str) else [case["items"].index(g) if g is not None else None for g in got]
        if m != gi:
            res.disagreements.append(Disagreement("c20.sort:degenerate", {"kind": "sort-degenerate", "case": case}, gi, m))
        else:
            res.traces_validated += 1
        if not isinstance(got, str) and None in got and not any("None entries" in x for x in res.notes):
            res.notes.append(f"outside the quantifier (a zero target vector, n={n}): evec_sort returned {got} — None entries, "
                             "not a permutation: the reason for the dominance hypothesis (theorem greedy_not_perm_without_dominance)")


# ===================================================================================== dimension mismatch
def mismatch_cases(rng):
    out = []
    for k in range(10):
        n = int(rng.integers(2, 12)); cx = bool(k % 2)
        case = gen_sort_case(rng, n, cx, 0.0)
        t = from_json_c(case["target"]); b = from_json_c(case["base"]); items = list(case["items"])
        kind = ["items-short", "items-long", "target-row-missing", "base-row-missing", "one-target-component-missing",
                "one-base-component-extra", "all-vectors-one-longer", "empty-items", "base-empty", "target-extra-row"][k]
        if kind == "items-short": items = items[:-1]
        elif kind == "items-long": items = items + ["extra"]
        elif kind == "target-row-missing": t = t[:-1]
        elif kind == "base-row-missing": b = b[:-1]
        elif kind == "one-target-component-missing": t[n // 2] = t[n // 2][:-1]
        elif kind == "one-base-component-extra": b[0] = b[0] + [0j]
        elif kind == "all-vectors-one-longer": t = [r + [0j] for r in t]; b = [r + [0j] for r in b]
        elif kind == "empty-items": items = []
        elif kind == "base-empty": b = []
        elif kind == "target-extra-row": t = t + [t[0]]
        out.append(("sort", kind, {"items": items, "target": to_json_c(t), "base": to_json_c(b)}))
    for k in range(6):
        na = int(rng.integers(1, 8)); m = 3 * na
        a = rng.normal(size=(int(rng.integers(1, m + 1)), m)) + 1j * rng.normal(size=(1, m))
        mass = list(rng.uniform(1, 50, na))
        kind = ["mass-one-short", "mass-one-long", "row-length-3N+1", "row-length-3N-1", "mass-empty", "mass-3N-entries"][k]
        if kind == "mass-one-short": mass = mass[:-1]
        elif kind == "mass-one-long": mass = mass + [12.0]
        elif kind == "row-length-3N+1": a = numpy.hstack([a, a[:, :1]])
        elif kind == "row-length-3N-1": a = a[:, :-1]
        elif kind == "mass-empty": mass = []
        elif kind == "mass-3N-entries": mass = list(numpy.repeat(mass, 3)) if na > 1 else mass + [1.0]
        out.append(("disp2eig", kind, {"a": to_json_c(a), "mass": [float(x) for x in mass]}))
    # shapes whose ELEMENT COUNT is a multiple of 3N although the row length is not 3N (a reshape would swallow them)
    for k in range(6):
        na = int(rng.integers(2, 6)); m = 3 * na
        mass = list(rng.uniform(1, 50, na))
        kind = ["3N-rows-of-3N+1", "3N-rows-of-3N-3", "one-column-per-atom-3NxN", "two-vectors-per-row-Mx6N", "3N-rows-of-3N+3", "2x(3N/2)-or-3x2N"][k]
        shape = {"3N-rows-of-3N+1": (m, m + 1), "3N-rows-of-3N-3": (m, m - 3), "one-column-per-atom-3NxN": (m, na),
                 "two-vectors-per-row-Mx6N": (int(rng.integers(1, 4)), 2 * m), "3N-rows-of-3N+3": (m, m + 3), "2x(3N/2)-or-3x2N": (3, 2 * na)}[kind]
        a = rng.normal(size=shape) + 1j * rng.normal(size=shape)
        out.append(("disp2eig", kind, {"a": to_json_c(a), "mass": [float(x) for x in mass]}))
    for k in range(6):
        na = int(rng.integers(2, 6)); m = 3 * na
        kind = ["transposed-Mx3N-given-as-3NxM", "transposed-6Nx3N-given-as-3Nx6N", "mass-N+1-with-3(N+1)|MK", "mass-N-1-with-3(N-1)|MK",
                "3N-rows-of-3N-1", "mass-2N-with-6N|MK"][k]
        nm = na
        if kind == "transposed-Mx3N-given-as-3NxM": shape = (m, int(rng.choice([x for x in (1, 2, 4, 5, 7) if x != m])))
        elif kind == "transposed-6Nx3N-given-as-3Nx6N": shape = (m, 2 * m)
        elif kind == "mass-N+1-with-3(N+1)|MK": shape = (na + 1, m); nm = na + 1
        elif kind == "mass-N-1-with-3(N-1)|MK": shape = (na - 1, m); nm = na - 1
        elif kind == "3N-rows-of-3N-1": shape = (m, m - 1)
        else: shape = (2, m); nm = 2 * na
        mass = list(rng.uniform(1, 50, nm))
        a = rng.normal(size=shape) + 1j * rng.normal(size=shape)
        out.append(("disp2eig", kind, {"a": to_json_c(a), "mass": [float(x) for x in mass]}))
    return out


def real_mismatch(tool, payload):
    try:
        if tool == "sort":
            from cij.misc.evec_sort import evec_sort
            r = evec_sort(list(payload["items"]), from_json_c(payload["target"]), from_json_c(payload["base"]))
        else:
            from cij.misc.evec_disp2eig import evec_disp2eig
            r = evec_disp2eig(numpy.array(from_json_c(payload["a"])), list(payload["mass"]))
        return "accepted: " + str(r)[:80]
    except Exception:
        return "error"


def run_mismatch(ctx: Ctx, res: Result):
    dist = res.distribution.setdefault("mismatch", {})
    for tool, kind, payload in mismatch_cases(ctx.rng):
        got = real_mismatch(tool, payload)
        res.evaluations += 1
        dist[f"{tool}:{kind}"] = dist.get(f"{tool}:{kind}", 0) + 1
        if tool == "disp2eig" and payload["mass"] and payload["a"] and len({len(r) for r in payload["a"]}) == 1:
            M, K, N3 = len(payload["a"]), len(payload["a"][0]), 3 * len(payload["mass"])
            if K != N3 and (M * K) % N3 == 0:
                dist["disp2eig:element_count_divisible_by_3N_but_columns_differ"] = dist.get("disp2eig:element_count_divisible_by_3N_but_columns_differ", 0) + 1
        if got != "error":
            res.oracle_failures.append(OracleFailure(what=f"{tool}: dimension mismatch ({kind}) not rejected",
                                                     input={"kind": "mismatch", "tool": tool, "which": kind, "payload": payload},
                                                     observed=got, expected="an exception", site=f"mismatch:{tool}:{kind}"))
        if tool == "sort":
            m = ctx.driver.ask([{"op": "c20.sort", "target": enc_c(from_json_c(payload["target"])),
                                 "base": enc_c(from_json_c(payload["base"])), "n_items": len(payload["items"])}])[0]
        else:
            m = ctx.driver.ask([{"op": "c20.disp2eig", "a": enc_c(from_json_c(payload["a"])),
                                 "mass": [f2b(x) for x in payload["mass"]]}])[0]
        if (m == "error") != (got == "error"):
            res.disagreements.append(Disagreement(f"c20.{tool}:mismatch", {"kind": "mismatch", "tool": tool, "which": kind,
                                                                            "payload": payload}, got, str(m)[:100]))
        else:
            res.traces_validated += 1
        # the interpreter of the translated description must reject as well
        if tool == "sort":
            ms = ctx.driver.ask([{"op": "c20.sort_src", "target": enc_c(from_json_c(payload["target"])),
                                  "base": enc_c(from_json_c(payload["base"])), "n_items": len(payload["items"])}])[0]
        else:
            ms = ctx.driver.ask([{"op": "c20.disp2eig_src", "a": enc_c(from_json_c(payload["a"])),
                                  "mass": [f2b(x) for x in payload["mass"]]}])[0]
        if (ms == "error") != (got == "error"):
            res.disagreements.append(Disagreement(f"c20.{tool}_src:mismatch", {"kind": "mismatch", "tool": tool, "which": kind,
                                                                                "payload": payload}, got, str(ms)[:100],
                                                  note="interpreter of the translated description"))
        else:
            res.traces_validated += 1


# ===================================================================================== disp2eig
def gen_disp_case(rng, na, complex_, rows):
    m = 3 * na
    e = unitary(rng, m, complex_)[:rows]
    mass = 10.0 ** rng.uniform(0.0, 2.4, size=na)
    if na > 1 and rng.random() < 0.3: mass[1] = mass[0]
    mag = 10.0 ** rng.uniform(-3.0, 3.0, size=rows)
    c = mag * (numpy.exp(2j * numpy.pi * rng.random(rows)) if complex_ else rng.choice([-1.0, 1.0], size=rows))
    a = c[:, None] * e / numpy.sqrt(numpy.repeat(mass, 3))[None, :]
    return {"na": na, "complex": bool(complex_), "rows": rows, "mass": [float(x) for x in mass],
            "e": to_json_c(e.astype(complex)), "c": [[float(complex(z).real), float(complex(z).imag)] for z in c],
            "a": to_json_c(a.astype(complex))}


def real_disp(case):
    from cij.misc.evec_disp2eig import evec_disp2eig
    a = numpy.array(from_json_c(case["a"]))
    if not case["complex"]: a = a.real.copy()
    try:
        return numpy.asarray(evec_disp2eig(a, list(case["mass"])))
    except Exception as e:
        return "error:" + type(e).__name__


def oracle_disp(case, out):
    if isinstance(out, str): return [("evec_disp2eig raised", out, "an array")]
    e = numpy.array(from_json_c(case["e"])); c = numpy.array([complex(z[0], z[1]) for z in case["c"]])
    bad = []
    if out.shape != e.shape: return [("shape", out.shape, e.shape)]
    nrm = numpy.sqrt((numpy.abs(out) ** 2).sum(axis=1))
    if not numpy.all(numpy.abs(nrm - 1) < 1e-12): bad.append(("row norm", float(nrm[numpy.argmax(numpy.abs(nrm - 1))]), 1.0))
    want = (c / numpy.abs(c))[:, None] * e
    err = float(numpy.abs(out - want).max())
    if not err < 1e-12: bad.append(("rows are not (c_i/|c_i|) e_i", err, "< 1e-12"))
    g = float(numpy.abs(out @ out.conj().T - numpy.eye(out.shape[0])).max())
    if not g < 1e-11: bad.append(("orthonormality ||A A† - 1||", g, "< 1e-11"))
    return bad


def run_disp(ctx: Ctx, res: Result, n_cases):
    rng = ctx.rng
    dist = res.distribution.setdefault("disp2eig", {"cases": 0, "atoms": {}, "complex": 0, "real": 0, "full_basis": 0,
                                                    "single_row": 0, "mass_ratio_max": 0.0, "max_model_diff": 0.0})
    for ci in range(n_cases):
        if ctx.time_left() < 45: res.notes.append("disp2eig stream cut short"); break
        na = [1, 20, 2, 7][ci] if ci < 4 else int(rng.integers(1, 21))
        cx = bool(ci % 2)
        rows = 3 * na if ci % 3 != 2 else int(rng.integers(1, 3 * na + 1))
        case = gen_disp_case(rng, na, cx, rows)
        out = real_disp(case)
        res.evaluations += 1
        dist["cases"] += 1; dist["atoms"][na] = dist["atoms"].get(na, 0) + 1
        dist["complex" if cx else "real"] += 1
        dist["full_basis"] += rows == 3 * na; dist["single_row"] += rows == 1
        dist["mass_ratio_max"] = max(dist["mass_ratio_max"], max(case["mass"]) / min(case["mass"]))
        for what, obs, exp in oracle_disp(case, out):
            res.oracle_failures.append(OracleFailure(what=f"evec_disp2eig: {what}", input={"kind": "disp2eig", "case": case},
                                                     observed=obs, expected=exp, site="evec_disp2eig:" + what[:30]))
            break
        a = numpy.array(from_json_c(case["a"]))
        m = ctx.driver.ask([{"op": "c20.disp2eig", "a": enc_c(a), "mass": [f2b(x) for x in case["mass"]]}])[0]
        if isinstance(out, str) or m == "error":
            if not (isinstance(out, str) and m == "error"):
                res.disagreements.append(Disagreement("c20.disp2eig", {"kind": "disp2eig", "case": case}, str(out)[:100], str(m)[:100]))
            continue
        mo = numpy.array([[complex(b2f(z[0]), b2f(z[1])) for z in r] for r in m])
        d = float(numpy.abs(mo - out).max()) if mo.shape == out.shape else float("inf")
        dist["max_model_diff"] = max(dist["max_model_diff"], d)
        if not d <= 1e-13:
            res.disagreements.append(Disagreement("c20.disp2eig", {"kind": "disp2eig", "case": case}, "max|Δ|", d))
        else:
            res.traces_validated += 1
        if na <= 3:
            ms = ctx.driver.ask([{"op": "c20.disp2eig_src", "a": enc_c(a), "mass": [f2b(x) for x in case["mass"]]}])[0]
            dist["source_interpreter"] = dist.get("source_interpreter", 0) + 1
            ok = ms != "error"
            if ok:
                mso = numpy.array([[complex(b2f(z[0]), b2f(z[1])) for z in r] for r in ms])
                ok = mso.shape == out.shape and float(numpy.abs(mso - out).max()) <= 1e-13
            if not ok:
                res.disagreements.append(Disagreement("c20.disp2eig_src", {"kind": "disp2eig", "case": case}, "real result", str(ms)[:100],
                                                      note="interpreter of the translated evec_disp2eig (EvecSrc.runDisp)"))
            else:
                res.traces_validated += 1
        if ci < 1:
            res.samples.append({"stream": "disp2eig", "atoms": na, "masses": case["mass"][:4], "|c|": [abs(complex(*z)) for z in case["c"][:4]],
                                "row norms before": [float(numpy.linalg.norm(r)) for r in a[:4]],
                                "row norms after": [float(numpy.linalg.norm(r)) for r in out[:4]]})


# ===================================================================================== load
def fmt_vec_line(comps):
    """(1x,'(',3 (f10.6,1x,f10.6,3x),')') with the numbers given as already formatted 10-character strings"""
    return " (" + "".join(f"{comps[2 * k]} {comps[2 * k + 1]}   " for k in range(3)) + ")"


def dec(rng, lo, hi, d, neg_zero=True):
    """a decimal number as the STRING that gets printed (d decimals)"""
    x = rng.uniform(lo, hi)
    u = rng.random()
    if u < 0.08: x = 0.0
    elif u < 0.12 and neg_zero: x = -0.0
    elif u < 0.16: x = round(x)
    return "%.*f" % (d, x)


def gen_eig_file(rng, nq, nat, wide=False, force_q=None, tight=False):
    """force_q: {q-point index: [three strings]} printed instead of random coordinates; tight: single blanks between the coordinates"""
    np_ = 3 * nat
    lines, expect = [], []
    # the branch numbers as PRINTED: 1..3N as matdyn numbers them, or — in some files — another numbering (acoustic branches cut:
    # 4..3N+3, a window 61.., branches listed in another order): the loader returns the printed number, not the position
    u_num = rng.random()
    for iq in range(nq):
        if u_num < 0.6: numbers = list(range(1, np_ + 1))
        elif u_num < 0.75: numbers = list(range(4, np_ + 4))
        elif u_num < 0.9: numbers = list(range(61, 61 + np_))
        else: numbers = [int(x) + 1 for x in rng.permutation(np_)]
        q = [dec(rng, -1.0, 1.0, 4) for _ in range(3)]
        if (iq == 0 and rng.random() < 0.6) or rng.random() < 0.1:
            # the Γ point as matdyn prints it (0.0000, sometimes -0.0000); its eigenvectors are printed complex like all others
            q = [("-0.0000" if rng.random() < 0.2 else "0.0000") for _ in range(3)]
        if force_q and iq in force_q: q = list(force_q[iq])
        qline = " q = " + (" ".join(q) if tight else "".join("%12s" % t for t in q))
        lines += ["     diagonalizing the dynamical matrix ...", "", qline, STARS]
        modes = []
        for im in range(np_):
            thz = dec(rng, -5.0, 60.0, 6); cm = dec(rng, -150.0, 2000.0, 6)
            lines.append("     freq (%5d) =%15s [THz] =%15s [cm-1]" % (numbers[im], thz, cm))
            vec = []
            for ia in range(nat):
                lim = 99.0 if wide else 1.0
                comps = [dec(rng, -lim, lim, 6) for _ in range(6)]
                lines.append(fmt_vec_line(["%10s" % t for t in comps]))
                vec += comps
            modes.append([numbers[im], thz, cm, vec])
        lines.append(STARS)
        expect.append([q, modes])
    return {"nq": nq, "np": np_, "text": "\n".join(lines) + "\n", "expect": expect}


def real_load(text, nq, np_, tmp):
    from cij.misc.evec_load import evec_load
    p = os.path.join(tmp, "matdyn.eig")
    with open(p, "w") as fp: fp.write(text)
    try:
        return evec_load(p, nq, np_)
    except Exception as e:
        return "error:" + type(e).__name__


def canon_load(r):
    if isinstance(r, str): return "error"
    return [[[float(x) for x in q], [[int(h[0]), float(h[1]), float(h[2]), [[float(z.real), float(z.imag)] for z in v]] for h, v in ms]]
            for q, ms in r]


def canon_load_model(m):
    if m == "error": return "error"
    fr = lambda r: float(Fraction(int(r[0]), int(r[1])))
    return [[[fr(x) for x in q], [[h[0], fr(h[1]), fr(h[2]), [[fr(x), fr(y)] for x, y in v]] for h, v in ms]] for q, ms in m]


def oracle_load(case, r):
    if isinstance(r, str): return [("evec_load raised", r, "parsed data")]
    if len(r) != case["nq"]: return [("number of q-points", len(r), case["nq"])]
    for iq, ((q, ms), (eq, ems)) in enumerate(zip(r, case["expect"])):
        if tuple(q) != tuple(float(t) for t in eq): return [(f"q coordinates of q-point {iq}", q, eq)]
        if len(ms) != len(ems): return [(f"number of modes of q-point {iq}", len(ms), len(ems))]
        for (h, v), (i, thz, cm, vec) in zip(ms, ems):
            if (h[0], h[1], h[2]) != (i, float(thz), float(cm)):
                return [(f"mode header", list(h), [i, thz, cm])]
            want = [complex(float(vec[2 * k]), float(vec[2 * k + 1])) for k in range(len(vec) // 2)]
            if len(v) != len(want): return [("number of vector components", len(v), len(want))]
            for k, (a, b) in enumerate(zip(v, want)):
                if a != b:
                    return [(f"vector component", [a.real, a.imag], [vec[2 * k], vec[2 * k + 1]])]
    return []


def reprint_eig(parsed):
    """the harness' printer applied to parsed values (layout check against the shipped file)"""
    lines = []
    for q, ms in parsed:
        lines += ["     diagonalizing the dynamical matrix ...", "", " q = " + "".join("%12.4f" % x for x in q), STARS]
        for (i, thz, cm), v in ms:
            lines.append("     freq (%5d) =%15.6f [THz] =%15.6f [cm-1]" % (i, thz, cm))
            for a in range(len(v) // 3):
                comps = []
                for z in v[3 * a: 3 * a + 3]: comps += ["%10.6f" % z.real, "%10.6f" % z.imag]
                lines.append(fmt_vec_line(comps))
        lines.append(STARS)
    return "\n".join(lines) + "\n"


def run_load(ctx: Ctx, res: Result, tmp, n_cases):
    rng = ctx.rng
    dist = res.distribution.setdefault("load", {"cases": 0, "nq": {}, "np": {}, "numbers": 0, "variants": {}, "layout_check": None,
                                                "gamma_qpoints": {}, "gamma_with_complex_vectors": 0, "source_interpreter": 0})
    # layout: the printer reproduces the shipped file from what the real loader parsed
    shipped = os.path.join(os.environ.get("CIJ_REPO", "/repo"), "tests", "data", "pwscf.eig")
    if os.path.exists(shipped):
        txt = open(shipped).read()
        r = real_load(txt, 2, 60, tmp)
        # the sign of a printed negative zero is not kept by `x + y * 1j` (0.0 + -0.0 = 0.0): compared modulo that sign
        nz = lambda t: t.replace("-0.000000", " 0.000000").rstrip()     # (the shipped file ends with a blank and no newline)
        same = (not isinstance(r, str)) and nz(reprint_eig(r)) == nz(txt)
        dist["layout_check"] = "printer reproduces tests/data/pwscf.eig byte for byte (modulo the sign of -0.000000)" if same else "DIFFERS from tests/data/pwscf.eig"
        if not same: res.contract_failures.append("harness printer does not reproduce tests/data/pwscf.eig (or the loader failed on it)")
        m = ctx.driver.ask([{"op": "c20.load", "lines": txt.split("\n")[:-1], "nq": 2, "np": 60}])[0]
        res.evaluations += 1
        if canon_load_model(m) != canon_load(r):
            res.disagreements.append(Disagreement("c20.load", {"kind": "load-shipped"}, "real parse of pwscf.eig", "model differs"))
        else:
            res.traces_validated += 1
    for ci in range(n_cases):
        if ctx.time_left() < 30: res.notes.append("load stream cut short"); break
        nq = [1, 6, 2, 3][ci] if ci < 4 else int(rng.integers(1, 7))
        nat = [1, 20, 3, 2][ci] if ci < 4 else int(rng.integers(1, 21))
        if nq * nat * nat > 900 and ci >= 4: nat = max(1, nat // 2)
        # Γ as different programs print it — in every run, first / in the middle / last in the file; the vectors stay complex
        Z6, Z4, M4, Z0 = ["0.000000"] * 3, ["0.0000"] * 3, ["-0.0000", "0.0000", "-0.0000"], ["0", "0", "0"]
        force = [{0: Z6}, {0: Z4, 2: Z6, 3: M4, 5: Z0}, {1: Z6}, {0: Z0, 2: Z6}][ci] if ci < 4 else None
        case = gen_eig_file(rng, nq, nat, force_q=force, tight=(ci in (0, 3)))
        for iq, (eq, ems) in enumerate(case["expect"]):
            if all(float(t) == 0.0 for t in eq):
                key = " ".join(eq)
                dist["gamma_qpoints"][key] = dist["gamma_qpoints"].get(key, 0) + 1
                if any(float(x) != 0.0 for _, _, _, vec in ems for x in vec[1::2]): dist["gamma_with_complex_vectors"] += 1
        r = real_load(case["text"], case["nq"], case["np"], tmp)
        res.evaluations += 1
        dist["cases"] += 1; dist["nq"][nq] = dist["nq"].get(nq, 0) + 1; dist["np"][3 * nat] = dist["np"].get(3 * nat, 0) + 1
        dist["numbers"] += nq * (3 + 3 * nat * (3 + 6 * nat))
        for what, obs, exp in oracle_load(case, r):
            res.oracle_failures.append(OracleFailure(what=f"evec_load: {what}", input={"kind": "load", "case": case},
                                                     observed=obs, expected=exp, site="evec_load:" + what.split(" of q-point")[0][:30]))
            break
        lines = case["text"].split("\n")[:-1]
        variants = [("valid", lines, case["nq"], case["np"])]
        if ci % 2 == 0:
            variants += [("closing-line-missing", lines[:-1], case["nq"], case["np"]),
                         ("one-q-point-too-many", lines, case["nq"] + 1, case["np"]),
                         ("np-three-less", lines, case["nq"], max(case["np"] - 3, 0)),
                         ("np-three-more", lines, case["nq"], case["np"] + 3),
                         ("first-line-missing", lines[1:], case["nq"], case["np"]),
                         ("vector-line-cut", [l[:40] if l.startswith(" (") else l for l in lines], case["nq"], case["np"]),
                         ("nq-zero", lines, 0, case["np"]),
                         ("wide-components", gen_eig_file(rng, 1, nat, wide=True)["text"].split("\n")[:-1], 1, case["np"])]
        ms = ctx.driver.ask([{"op": "c20.load", "lines": l, "nq": a, "np": b} for _, l, a, b in variants])
        if case["np"] <= 30:
            # the loader driven by the translated description (regexes by the backtracking matcher, slices, converters, steps)
            mss = ctx.driver.ask([{"op": "c20.load_src", "lines": l, "nq": a, "np": b} for _, l, a, b in variants])
            for (kind, l, a, b), m1, m2 in zip(variants, ms, mss):
                dist["source_interpreter"] += 1
                if m1 != m2:
                    res.disagreements.append(Disagreement("c20.load_src", {"kind": "load-text", "variant": kind, "text": "\n".join(l) + "\n",
                                                                           "nq": a, "np": b}, str(m1)[:200], str(m2)[:200],
                                                          note="interpreter of the translated evec_load (EvecSrc.evecLoadS) vs the model"))
                else:
                    res.traces_validated += 1
        for (kind, l, a, b), m in zip(variants, ms):
            rr = r if kind == "valid" else real_load("\n".join(l) + "\n", a, b, tmp)
            if kind != "valid":
                res.evaluations += 1; dist["variants"][kind] = dist["variants"].get(kind, 0) + 1
            if canon_load_model(m) != canon_load(rr):
                res.disagreements.append(Disagreement("c20.load", {"kind": "load-text", "variant": kind, "text": "\n".join(l) + "\n",
                                                                   "nq": a, "np": b}, str(canon_load(rr))[:200], str(canon_load_model(m))[:200]))
            else:
                res.traces_validated += 1
        if ci == 0:
            res.samples.append({"stream": "load", "nq": nq, "np": 3 * nat, "file lines": lines[2:6],
                                "parsed": str(r[0][0]) + " " + str(r[0][1][0][0]) if not isinstance(r, str) else r})


# ===================================================================================== regex semantics
def rx_strings(rng, n):
    """q lines, freq lines, damaged copies, adversarial strings for the backtracking order (ASCII only)"""
    out = []
    good = ["0.1258", "-0.0347", "0.0000", "-0.0000", "0", "12", "1.", "-7.", "3.25", "007", "4.50", "27.039414", "-0.626714"]
    bad = ["-", ".5", "1.2.3", "--1", "1e5", "", "+1", "1,5"]
    num = lambda: str(rng.choice(good if rng.random() < 0.9 else bad))
    pick = lambda ok, others: ok if rng.random() < 0.85 else str(rng.choice(others))
    sp = lambda lo=0: " " * int(rng.integers(lo, 4)) if rng.random() < 0.85 else rng.choice(["\t", " \t ", "\x0b", "\x0c", "\r"])
    for _ in range(n):
        u = rng.random()
        if u < 0.35:
            s = sp() + "q" + sp() + "=" + sp() + num() + sp(1) + num() + sp(1) + num() + rng.choice(["", " ", "x", ".5", "7", " 9 9"])
        elif u < 0.7:
            s = sp() + "freq" + sp() + "(" + sp() + pick(str(rng.integers(0, 200)), ["007", "", "3 4", "-1"]) + pick(")", [" )", ""]) + sp() + "=" + sp() \
                + num() + sp() + pick("[THz]", ["[THz", "[ THz]", "[thz]", "THz"]) + sp() + "=" + sp() + num() + sp() \
                + pick("[cm-1]", ["[cm-1", "[cm1]", "[cm -1]", "[cm-1]]"])
        else:
            s = "".join(rng.choice(list("q= -.0123fre()[]THzcm1\t"), size=int(rng.integers(0, 30))))
        if rng.random() < 0.3 and s:
            i = int(rng.integers(0, len(s)))
            s = s[:i] + rng.choice(["", s[i] * 2, "q=", " ", ".", "-", "freq("]) + s[i + 1:]
        if rng.random() < 0.15: s = s + " q = 1 2 3"
        out.append(s)
    out += ["q=1 2 3", "q = 1. 2.5.3 7", "q=-1.-2 -3", "qq==1 2 3", "q = 1 2", "q = 1 2 3.4.5", "q=1\t2\x0b3", "", "q",
            "freq(1)=1[THz]=2[cm-1]", "freq ( 1 ) = 1 [THz] = 2 [cm-1]", "freqfreq(2)=3.[THz]=-4.5[cm-1]x", "freq(1)=1.2.3[THz]=2[cm-1]"]
    return [str(x) for x in out]


def run_rx(ctx: Ctx, res: Result, n):
    import importlib
    EL = importlib.import_module("cij.misc.evec_load")     # `cij.misc.evec_load` the attribute is the re-exported function
    dist = res.distribution.setdefault("rx", {"strings": 0, "q_matches": 0, "mode_matches": 0, "no_match": 0})
    ss = rx_strings(ctx.rng, n)
    for which, pat in (("q", EL.Q_COORDS_REGEX), ("mode", EL.MODE_INDEX_REGEX)):
        got = ctx.driver.ask([{"op": "c20.rx", "which": which, "strings": ss}])[0]
        for s_, g in zip(ss, got):
            m = pat.search(s_)
            want = list(m.groups()) if m else None
            res.evaluations += 1; dist["strings"] += 1
            if want is None: dist["no_match"] += 1
            else: dist["q_matches" if which == "q" else "mode_matches"] += 1
            if g != want:
                res.disagreements.append(Disagreement("c20.rx", {"kind": "rx", "which": which, "string": s_, "pattern": pat.pattern}, want, g,
                                                      note="Python re on the module's compiled pattern vs the Lean backtracking matcher on the translated pattern"))
            else:
                res.traces_validated += 1


# ===================================================================================== entry points
def run(ctx: Ctx) -> Result:
    res = Result()
    res.rule = ("a case is one call of a tool on freshly drawn data: (sort) one basis + permutation + phases + perturbation, dimension 2-60 "
                "with 2, 3, 59, 60 always included; (disp2eig) one basis + masses + factors; (load) one synthetic file; (mismatch) one "
                "malformed argument set. All are random draws, hence distinct; non-trivial = every case (n >= 2, non-identity "
                "permutation with probability 1 - 1/n!).")
    tmp = tempfile.mkdtemp(prefix="cij_c20_")
    try:
        th = ctx.thorough()
        run_sort(ctx, res, 400 if th else 60)
        run_mismatch(ctx, res)
        run_disp(ctx, res, 300 if th else 40)
        run_load(ctx, res, tmp, 80 if th else 12)
        run_rx(ctx, res, 3000 if th else 400)
    finally:
        shutil.rmtree(tmp, ignore_errors=True)
    res.distinct_nontrivial = res.evaluations
    res.extra["tolerances"] = {"sort": "exact (items compared)", "disp2eig": "1e-12 absolute on unit-norm rows (oracle), 1e-13 model vs numpy",
                               "load": "exact equality with float(printed string)"}
    return res


def search(ctx: Ctx, res: Result):
    extra = Result()
    tmp = tempfile.mkdtemp(prefix="cij_c20s_")
    try:
        for d in res.disagreements[:10]:
            extra.oracle_failures.extend(replay(ctx, d.input))
        if not extra.oracle_failures:
            run_sort(ctx, extra, 150); run_mismatch(ctx, extra); run_disp(ctx, extra, 100); run_load(ctx, extra, tmp, 20)
    finally:
        shutil.rmtree(tmp, ignore_errors=True)
    return extra.oracle_failures


def replay(ctx: Ctx, payload):
    kind = payload.get("kind")
    if kind == "sort":
        case = payload["case"]
        return [OracleFailure(what=f"evec_sort: {w}", input=payload, observed=o, expected=e)
                for w, o, e in oracle_sort(case, real_sort(case))]
    if kind == "sort-arbitrary":
        case = payload["case"]
        got = real_sort(case)
        if isinstance(got, str) or sorted(map(str, got)) != sorted(case["items"]):
            return [OracleFailure(what="evec_sort: result is not a permutation of the items", input=payload,
                                  observed=got if isinstance(got, str) else [str(g) for g in got][:10], expected=sorted(case["items"])[:10])]
        return []
    if kind == "disp2eig":
        case = payload["case"]
        return [OracleFailure(what=f"evec_disp2eig: {w}", input=payload, observed=o, expected=e)
                for w, o, e in oracle_disp(case, real_disp(case))]
    if kind == "mismatch":
        got = real_mismatch(payload["tool"], payload["payload"])
        return [] if got == "error" else [OracleFailure(what=f"{payload['tool']}: dimension mismatch ({payload['which']}) not rejected",
                                                        input=payload, observed=got, expected="an exception")]
    if kind == "load":
        tmp = tempfile.mkdtemp(prefix="cij_c20r_")
        try:
            case = payload["case"]
            r = real_load(case["text"], case["nq"], case["np"], tmp)
            return [OracleFailure(what=f"evec_load: {w}", input=payload, observed=o, expected=e) for w, o, e in oracle_load(case, r)]
        finally:
            shutil.rmtree(tmp, ignore_errors=True)
    return []
