"""C06 — (T,V) → (T,P) conversion evaluates each quantity at the volume where P(T,V)=P.

Real `Calculator` runs on synthetic data sets (harness/tvdata.py, the quantifier of C05).

* correspondence (model = lean/CijModel/V2P.lean run at Float): every pressure-base quantity — both modulus
  dictionaries for every key, the six VRH averages, both velocities, V(T,P), and `__getattr__` names
  (cij, cijs, cijt, sij, pressures) — against the model's `pressureBase` applied to the real volume-base arrays,
  the real P(T,V) and the real p_array (rel 1e-10); the requested grid (`arange`); the range check on accepted
  and on overshooting grids.
* oracle (independent: numpy only, no qha / cij / model code): the requested grid from the settings with CODATA;
  `v2p(P_tv) == requested pressures` (1e-9); for every quantity the value on the isotherm at the volume V* where a
  6-point local polynomial of P(T,·) equals P (bisection), evaluated with a 6-point local polynomial in V —
  must agree within the cubic-interpolation error bound  C·max|f[P_i…P_{i+4}]|·|Π(P−P_i)|  derived from the grid;
  `P(T, V(T,P)) == P`; V(T,P) strictly decreasing in P; the error shrinks when the grid is refined (NTV → 2NTV−1,
  DELTA_P → DELTA_P/2); overshooting grids (P_MIN, DELTA_P, NTV) raise ValueError from the range check before any
  conversion (v2p call counter), grids just inside are accepted.
  Numerical-analysis clauses (error size, monotone V(T,P)) are monitored here, not proved.
"""
from __future__ import annotations

import contextlib
import time
from typing import Dict, List, Optional

import numpy

from harness import tvdata
from harness.common import Ctx, Result, Disagreement, OracleFailure, enc, dec_arr, family_close, jsonable

ASSUMPTIONS = [
    "P(T,V), the fine grids and the volume-base arrays are taken from the real run (qha / C05 / C07 produce them); C06 owns the conversion and its wiring",
    "interpolation-accuracy clauses are checked against a higher-order (6-point) local reference within the divided-difference error bound of cubic interpolation, max over the isotherm of |f[P_i..P_i+4]| times |prod(P-P_i)| over the bracketing 4-node window, plus 1e-9 of the family scale: monitored, not proved (measured worst err/bound is reported as max_err_over_bound)",
    "numba-compiled qha.v2p evaluates the same IEEE double expression as the model up to contraction/rounding (tolerance 1e-10 of the family scale)",
]
TRUSTED_EXTRA = ["harness/tvdata.py (own parsers, CODATA factor)", "the 6-point local-polynomial reference in harness/c06.py"]

TOL_MODEL = 1e-10
PROPS = ["bulk_modulus_voigt", "bulk_modulus_reuss", "bulk_modulus_voigt_reuss_hill", "shear_modulus_voigt",
         "shear_modulus_reuss", "shear_modulus_voigt_reuss_hill", "primary_velocities", "secondary_velocities"]
C_BOUND = 3.0
END_FACTOR = 10.0


def kstr(k) -> str:
    return "%d%d" % tuple(k)


# ----------------------------------------------------------------------------- observing the real run
def observe(calc, max_keys: Optional[int] = None) -> dict:
    keys = list(calc.modulus_keys)
    if max_keys: keys = keys[:max_keys]
    vb, pb = calc.volume_base, calc.pressure_base
    ob = {"keys": [tuple(k.v) for k in keys]}
    with tvdata.quiet():
        ob["p_tv"] = numpy.array(vb.pressures)
        ob["p_tv_gpa"] = numpy.array(calc.qha_calculator.calculator.p_tv_gpa)
        ob["p_array"] = numpy.array(pb.p_array)
        ob["desired_gpa"] = numpy.array(calc.qha_calculator.calculator.desired_pressures_gpa)
        ob["v_array"] = numpy.array(vb.v_array)
        ob["t_array"] = numpy.array(vb.t_array)
        vol, prs = {}, {}
        for n in PROPS:
            vol[n] = numpy.array(getattr(vb, n)); prs[n] = numpy.array(getattr(pb, n))
        prs["volumes"] = numpy.array(pb.volumes)
        # names that fall to __getattr__
        k0 = keys[0]
        extra = ["c%d%d" % k0.v, "c%d%ds" % k0.v, "c%d%dt" % k0.v, "pressures"]
        if len(keys) > 1: extra.append("c%d%dt" % keys[-1].v)
        extra.append("s11")
        for n in extra:
            try:
                vol[n] = numpy.array(getattr(vb, n))
            except AttributeError:
                continue
            prs[n] = numpy.array(getattr(pb, n))
        ob["vol"], ob["prs"] = vol, prs
        ob["mod_vol"] = {"adiabatic": {tuple(k.v): numpy.array(calc.modulus_adiabatic[k]) for k in keys},
                         "isothermal": {tuple(k.v): numpy.array(calc.modulus_isothermal[k]) for k in keys}}
        ob["mod_prs"] = {"adiabatic": {tuple(k.v): numpy.array(pb.modulus_adiabatic[k]) for k in keys},
                         "isothermal": {tuple(k.v): numpy.array(pb.modulus_isothermal[k]) for k in keys}}
        ob["v2p_of_p"] = numpy.array(pb.v2p(vb.pressures))
    return ob


# ----------------------------------------------------------------------------- correspondence
def model_ops(ob: dict, st: dict) -> List[dict]:
    q = {"v_array": enc(ob["v_array"]), "p_tv_au": enc(ob["p_tv"]), "p_array": enc(ob["p_array"])}
    names = [n for n in ob["prs"]]
    ops = [dict(q, op="c06.pressure_base", names=names, volume_base={n: enc(a) for n, a in ob["vol"].items()})]
    for kind in ("adiabatic", "isothermal"):
        ops.append(dict(q, op="c06.pressure_base_modulus", keys=[kstr(k) for k in ob["keys"]],
                        modulus={kstr(k): enc(a) for k, a in ob["mod_vol"][kind].items()}))
    ops.append({"op": "c06.desired", "p_min": enc(st["P_MIN"]), "delta_p": enc(st["DELTA_P"]), "ntv": st["NTV"]})
    ops.append({"op": "c06.status", "p_tv_gpa": enc(ob["p_tv_gpa"]), "p_min": enc(st["P_MIN"]),
                "delta_p": enc(st["DELTA_P"]), "ntv": st["NTV"]})
    return ops


def compare_model(ob: dict, ans: List, res: Result, label: dict) -> int:
    n_ok = 0
    a_pb, a_ad, a_it, a_des, a_status = ans

    def cmp(op, name, impl, model):
        nonlocal n_ok
        if isinstance(model, str):
            res.disagreements.append(Disagreement(op, label, jsonable(impl[:1]), model, f"{name}: model {model}")); return
        m = dec_arr(model)
        ok, err, _ = family_close(impl, m, rtol=TOL_MODEL)
        if ok: n_ok += 1
        else: res.disagreements.append(Disagreement(op, label, jsonable(impl[:2]), jsonable(m[:2]), f"{name}: relerr {err:.3e}"))

    for n, impl in ob["prs"].items():
        cmp("c06.pressure_base", n, impl, a_pb[n])
    for kind, a in (("adiabatic", a_ad), ("isothermal", a_it)):
        for k in ob["keys"]:
            cmp("c06.pressure_base_modulus", f"{kind}[{kstr(k)}]", ob["mod_prs"][kind][k], a[kstr(k)])
    cmp("c06.desired", "desired_pressures_gpa", ob["desired_gpa"], a_des)
    if a_status == "ok": n_ok += 1
    else: res.disagreements.append(Disagreement("c06.status", label, "accepted", a_status, "range check on an accepted grid"))
    return n_ok


# ----------------------------------------------------------------------------- independent reference
def _lagrange_weights(xn: numpy.ndarray, x: numpy.ndarray) -> numpy.ndarray:
    """xn: (..., m) nodes, x: (...) points -> (..., m) Lagrange basis values"""
    m = xn.shape[-1]
    w = numpy.ones(xn.shape)
    for a in range(m):
        for b in range(m):
            if a != b:
                w[..., a] *= (x - xn[..., b]) / (xn[..., a] - xn[..., b])
    return w


def isotherm_reference(p_row: numpy.ndarray, v: numpy.ndarray, targets: numpy.ndarray, npts: int = 6):
    """For one isotherm: volumes V* with P(V*) = target (local `npts`-point polynomial of P in V, bisection inside
    the tabulated bracket), window start indices and the Lagrange weights in V at V* (to evaluate any quantity)."""
    n = len(v)
    k = numpy.searchsorted(p_row, targets, side="right")            # p_row[k-1] <= target < p_row[k]
    k = numpy.clip(k, 1, n - 1)
    start = numpy.clip(k - npts // 2, 0, n - npts)
    idx = start[:, None] + numpy.arange(npts)[None, :]
    vn, pn = v[idx], p_row[idx]
    lo, hi = v[k].copy(), v[k - 1].copy()                            # volumes decrease with index: v[k] < v[k-1]
    for _ in range(70):
        mid = 0.5 * (lo + hi)
        pm = numpy.sum(_lagrange_weights(vn, mid) * pn, axis=-1)
        up = pm > targets                                            # pressure too high -> volume must grow
        lo = numpy.where(up, mid, lo); hi = numpy.where(up, hi, mid)
    vstar = 0.5 * (lo + hi)
    return vstar, idx, _lagrange_weights(vn, vstar), k


def divided_diff4(f: numpy.ndarray, p: numpy.ndarray) -> numpy.ndarray:
    """|f[P_i,…,P_{i+4}]| for every 5-node window, per row (f, p: (nt, n)) -> (nt, n-4)"""
    d = f.copy()
    for order in range(1, 5):
        d = (d[:, 1:] - d[:, :-1]) / (p[:, order:] - p[:, :-order])
    return numpy.abs(d)


def cubic_window_product(p_row: numpy.ndarray, targets: numpy.ndarray, k: numpy.ndarray) -> numpy.ndarray:
    """|Π (P − P_i)| over the natural 4-node window around the bracket [k-1, k] (shifted inside at the ends)"""
    n = len(p_row)
    s = numpy.clip(k - 2, 0, n - 4)
    nodes = p_row[s[:, None] + numpy.arange(4)[None, :]]
    return numpy.abs(numpy.prod(targets[:, None] - nodes, axis=1))


def quantities(ob: dict) -> Dict[str, tuple]:
    out = {}
    for n in PROPS:
        out[n] = (ob["vol"][n], ob["prs"][n])
    for kind in ("adiabatic", "isothermal"):
        for k in ob["keys"]:
            out[f"modulus_{kind}[{kstr(k)}]"] = (ob["mod_vol"][kind][k], ob["mod_prs"][kind][k])
    nt = ob["p_tv"].shape[0]
    out["volumes"] = (numpy.repeat(ob["v_array"][None, :], nt, axis=0), ob["prs"]["volumes"])
    return out


def interpolation_errors(ob: dict, p_req: numpy.ndarray):
    """per quantity: (max err / scale, max err / tolerance, worst (t, j)); plus the round-trip / monotonic data"""
    nt, ntv = ob["p_tv"].shape
    qs = quantities(ob)
    ref = {n: numpy.full((nt, len(p_req)), numpy.nan) for n in qs}
    tol = {n: numpy.zeros((nt, len(p_req))) for n in qs}
    roundtrip = numpy.zeros((nt, len(p_req)))
    d4 = {n: (divided_diff4(fv, ob["p_tv"]) if numpy.all(numpy.isfinite(fv)) else None) for n, (fv, _) in qs.items()}
    for t in range(nt):
        vstar, idx, w, k = isotherm_reference(ob["p_tv"][t], ob["v_array"], p_req)
        wp = cubic_window_product(ob["p_tv"][t], p_req, k)
        # in the two outermost intervals at either end of the volume grid the tabulated P(T,V) itself carries the
        # first-order one-sided end difference of numpy.gradient (a kink in the data): bound widened there
        wp = wp * numpy.where((k <= 2) | (k >= ntv - 2), END_FACTOR, 1.0)
        for n, (fv, _) in qs.items():
            if d4[n] is None: continue
            ref[n][t] = numpy.sum(w * fv[t][idx], axis=-1)
            tol[n][t] = C_BOUND * d4[n][t].max() * wp
        # P(T, V(T,P)) with the same local polynomial, at the *reported* volume
        vrep = ob["prs"]["volumes"][t]
        vn, pn = ob["v_array"][idx], ob["p_tv"][t][idx]
        roundtrip[t] = numpy.sum(_lagrange_weights(vn, vrep) * pn, axis=-1)
    return qs, ref, tol, roundtrip, d4


def requested_grid(st: dict) -> numpy.ndarray:
    return (st["P_MIN"] + st["DELTA_P"] * numpy.arange(st["NTV"])) * tvdata.gpa_in_au()


@contextlib.contextmanager
def count_v2p(counter: dict):
    """count every call of qha's v2p through the three names it is reachable by"""
    import cij.core.calculator as cc
    import qha.calculator as qc
    import qha.thermodynamics as qt
    saved = [(m, m.v2p) for m in (cc, qc, qt)]

    def wrap(fn):
        def inner(*a, **kw):
            counter["n"] = counter.get("n", 0) + 1
            return fn(*a, **kw)
        return inner
    try:
        for m, fn in saved:
            m.v2p = wrap(fn)
        yield
    finally:
        for m, fn in saved:
            m.v2p = fn


def oracle(files: Dict[str, str], refine: bool = False, variants: Optional[List[dict]] = None,
           max_keys: Optional[int] = None) -> List[dict]:
    fails: List[dict] = []

    def fail(check, observed, expected, what=None, variant=None):
        fails.append({"check": check, "what": what, "observed": jsonable(observed), "expected": jsonable(expected),
                      "variant": variant})

    st = tvdata.parse_settings(files["settings.yaml"])
    run = tvdata.Run(files)
    if run.error is not None:
        fail("in_range_accepted", f"{type(run.error).__name__}: {run.error} (raised in {run.traceback_functions[-2:]})",
             "a grid inside the computed pressure range is accepted and computed")
        return fails
    try:
        ob = observe(run.calc, max_keys)
    except Exception as e:
        fail("in_range_accepted", f"pressure-base access failed: {type(e).__name__}: {e}", "every pressure-base quantity is produced")
        return fails
    nt, ntv = ob["p_tv"].shape
    p_req = requested_grid(st)
    K = tvdata.gpa_in_au()
    # --- the relation must survive the calculation's own output step: write the (T,V) pressure table and the (T,P) volume table
    #     (the two tables that are qha's cached arrays), then read again; every read must return what it returned before
    try:
        import tempfile, shutil, os as _os
        d = tempfile.mkdtemp(prefix="c06w_"); cwd = _os.getcwd()
        try:
            _os.chdir(d)
            with tvdata.quiet():
                run.calc.volume_base.write_variables(["p"])
                run.calc.pressure_base.write_variables(["v"])
            # the (T,P) table just written is labelled with the requested pressures (what `cij extract` / `extract-geotherm` and any
            # reader use as the abscissa): "pressure-base quantity AT (T,P)" also on paper
            labels = None
            for fn in sorted(_os.listdir(d)):
                if fn.startswith("v_tp"):
                    with open(_os.path.join(d, fn)) as fp:
                        labels = numpy.array([float(x) for x in fp.readline().split()[1:]])
            written_labels = labels
        finally:
            _os.chdir(cwd); shutil.rmtree(d, ignore_errors=True)
        if written_labels is None or written_labels.shape != p_req.shape or \
                float(numpy.max(numpy.abs(written_labels * K - p_req))) > 1e-7 * K * max(1.0, float(numpy.max(numpy.abs(p_req))) / K):
            fail("written_grid", None if written_labels is None else written_labels[:5], (p_req / K)[:5], what="column labels of the written (T,P) volume table")
        with tvdata.quiet():
            vb, pb = run.calc.volume_base, run.calc.pressure_base
            k0 = list(run.calc.modulus_keys)[0]
            again = {"volume_base.pressures": (numpy.array(vb.pressures), ob["p_tv"]),
                     "pressure_base.volumes": (numpy.array(pb.volumes), ob["prs"]["volumes"]),
                     "pressure_base.v2p(volume_base.pressures)": (numpy.array(pb.v2p(vb.pressures)), ob["v2p_of_p"]),
                     "pressure_base.modulus_adiabatic[%s]" % kstr(k0.v): (numpy.array(pb.modulus_adiabatic[k0]), ob["mod_prs"]["adiabatic"][tuple(k0.v)]),
                     "pressure_base.bulk_modulus_voigt_reuss_hill": (numpy.array(pb.bulk_modulus_voigt_reuss_hill), ob["prs"]["bulk_modulus_voigt_reuss_hill"])}
        for n, (a, b) in again.items():
            if a.shape != b.shape or not numpy.array_equal(a, b, equal_nan=True):
                fail("stable_after_write", {"quantity": n, "after": a.reshape(len(a), -1)[-1, :3]}, {"before": b.reshape(len(b), -1)[-1, :3]}, what=n)
                break
    except Exception as e:
        fail("stable_after_write", f"{type(e).__name__}: {e}", "tables are written and quantities can be read again")
    # quantifier: requested pressures inside the computed range at every temperature, pressures increasing
    if not (numpy.all(numpy.diff(ob["p_tv"], axis=1) > 0) and ob["p_tv"][:, 0].max() <= p_req.min()
            and ob["p_tv"][:, -1].min() > p_req.max()):
        return [{"check": "outside_quantifier", "what": None, "observed": None, "expected": None, "variant": None}]
    # --- the target grid
    if ob["p_array"].shape != p_req.shape:
        fail("target_grid", {"points": int(ob["p_array"].size), "last": ob["p_array"][-2:]}, {"points": int(p_req.size), "last": p_req[-2:]},
             what="number of pressures on the (T,P) grid")
        return fails                                   # nothing below is comparable on a grid of another size
    if not family_close(ob["p_array"], p_req, rtol=1e-11)[0]:
        fail("target_grid", ob["p_array"][:4], p_req[:4])
    # --- converting the pressure field returns the requested pressures
    exp = numpy.repeat(p_req[None, :], nt, axis=0)
    if ob["v2p_of_p"].shape != exp.shape or not family_close(ob["v2p_of_p"], exp, rtol=1e-9)[0]:
        fail("pressure_field_roundtrip", ob["v2p_of_p"][-1, :4], p_req[:4])
    if "pressures" in ob["prs"] and (ob["prs"]["pressures"].shape != exp.shape or
                                     not family_close(ob["prs"]["pressures"], exp, rtol=1e-9)[0]):
        fail("pressure_field_roundtrip", ob["prs"]["pressures"][-1, :4], p_req[:4], what="pressure_base.pressures")
    # --- every quantity on the isotherm at the volume where P(T,V) = P
    qs, ref, tol, roundtrip, d4 = interpolation_errors(ob, p_req)
    worst = {}
    for n, (fv, fp) in qs.items():
        if d4[n] is None:
            continue                       # NaN quantity (e.g. adiabatic with no phonons): compared by the model only
        if fp.shape != ref[n].shape:
            fail("isotherm_value", fp.shape, ref[n].shape, what=n); continue
        sc = float(numpy.max(numpy.abs(fv)))
        err = numpy.abs(fp - ref[n])
        lim = tol[n] + 1e-9 * sc
        worst[n] = float(numpy.max(err / lim))
        if not numpy.all(err <= lim):
            t, j = numpy.unravel_index(int(numpy.argmax(err / lim)), err.shape)
            fail("isotherm_value", {"t": int(t), "j": int(j), "value": float(fp[t, j]), "err": float(err[t, j]), "tol": float(lim[t, j])},
                 float(ref[n][t, j]), what=n)
    # --- P(T, V(T,P)) = P and V(T,P) strictly decreasing in P
    vtp = ob["prs"]["volumes"]
    if d4["volumes"] is not None and vtp.shape == exp.shape:
        dpdv = numpy.max(numpy.abs(numpy.diff(ob["p_tv"], axis=1) / numpy.diff(ob["v_array"])[None, :]), axis=1)
        limp = dpdv[:, None] * (tol["volumes"] + 1e-9 * float(ob["v_array"].max())) + 1e-9 * float(numpy.abs(p_req).max())
        errp = numpy.abs(roundtrip - exp)
        if not numpy.all(errp <= limp):
            t, j = numpy.unravel_index(int(numpy.argmax(errp / limp)), errp.shape)
            fail("volume_roundtrip", {"t": int(t), "j": int(j), "P_of_V": float(roundtrip[t, j]), "err": float(errp[t, j]), "tol": float(limp[t, j])},
                 float(p_req[j]))
        if not numpy.all(numpy.diff(vtp, axis=1) < 0):
            fail("volume_decreasing", numpy.diff(vtp, axis=1).max(), "< 0")
    # --- refinement: the distance to the reference shrinks when the grid is refined
    if refine:
        f2 = tvdata.with_settings(files, {"qha": {"settings": {"NTV": 2 * st["NTV"] - 1, "DELTA_P": st["DELTA_P"] / 2,
                                                                "DELTA_P_SAMPLE": st["DELTA_P"] / 2}}})
        run2 = tvdata.Run(f2)
        if run2.error is not None:
            fail("refinement", f"{type(run2.error).__name__}: {run2.error}", "refined grid computes")
        else:
            ob2 = observe(run2.calc, max_keys)
            st2 = tvdata.parse_settings(f2["settings.yaml"])
            p2 = requested_grid(st2)
            qs2, ref2, tol2, _, d42 = interpolation_errors(ob2, p2)
            for n in qs:
                if d4[n] is None or d42.get(n) is None: continue
                sc = float(numpy.max(numpy.abs(qs[n][0])))
                e1 = float(numpy.max(numpy.abs(qs[n][1] - ref[n]))) / sc
                e2 = float(numpy.max(numpy.abs(qs2[n][1][:, ::2] - ref2[n][:, ::2]))) / sc
                if not (e2 <= max(0.6 * e1, 2e-9)):
                    fail("refinement", {"err_NTV": e1, "err_2NTV-1": e2}, "error shrinks", what=n)
    # --- overshooting / just-inside grids
    p_last_gpa = float(ob["p_tv"][:, -1].min()) / K
    for var in variants or []:
        upd = dict(var["settings"])
        upd.setdefault("DELTA_P_SAMPLE", upd.get("DELTA_P", st["DELTA_P"]))
        fv = tvdata.with_settings(files, {"qha": {"settings": upd}})
        stv = tvdata.parse_settings(fv["settings.yaml"])
        top = stv["P_MIN"] + stv["DELTA_P"] * (stv["NTV"] - 1)
        counter = {"n": 0}
        rv = tvdata.Run(fv, hook=count_v2p(counter))
        if var["expect"] == "reject":
            ok = (isinstance(rv.error, ValueError) and "desired_pressure_status" in rv.traceback_functions and counter["n"] == 0)
            if not ok:
                obs = "accepted" if rv.error is None else f"{type(rv.error).__name__}: {rv.error} in {rv.traceback_functions[-2:]}"
                fail("overshoot_rejected", {"result": obs, "v2p_calls_before": counter["n"], "top_gpa": top, "p_last_min_gpa": p_last_gpa},
                     "ValueError from the range check before any conversion", variant=var)
        else:
            if rv.error is not None:
                fail("inside_accepted", f"{type(rv.error).__name__}: {rv.error}", {"top_gpa": top, "p_last_min_gpa": p_last_gpa}, variant=var)
    if not fails:
        fails.append({"check": "_stats", "worst": worst})
    return fails


def make_variants(rng: numpy.random.Generator, st: dict, p_last_gpa: float, p_last_max_gpa: Optional[float] = None) -> List[dict]:
    """(P_MIN, DELTA_P, NTV) grids that overshoot the range, and grids just inside it (same volume grid → same P(T,V))"""
    ntv = st["NTV"]
    out = []
    over = float(rng.uniform(1.02, 1.6))
    out.append({"expect": "reject", "kind": "DELTA_P", "settings": {"DELTA_P": (over * p_last_gpa - st["P_MIN"]) / (ntv - 1)}})
    pm = float(rng.uniform(0.3, 0.9)) * p_last_gpa
    out.append({"expect": "reject", "kind": "P_MIN", "settings": {"P_MIN": pm, "DELTA_P": (1.05 * p_last_gpa - pm) / (ntv - 1) + 0.01}})
    # larger NTV changes the volume grid too: leave a margin for the one-sided end difference of P(T,V)
    ntv2 = ntv + int(rng.integers(1, 6))
    out.append({"expect": "reject", "kind": "NTV", "settings": {"NTV": ntv2, "DELTA_P": 1.35 * p_last_gpa / (ntv2 - 1), "P_MIN": 0.0}})
    if p_last_max_gpa is not None and p_last_max_gpa > p_last_gpa * (1 + 1e-4):
        # above the pressure reachable at the coldest isotherm but below the one reachable at the hottest:
        # "reachable at every temperature" is violated -> must be rejected
        mid = p_last_gpa + float(rng.uniform(0.3, 0.7)) * (p_last_max_gpa - p_last_gpa)
        out.append({"expect": "reject", "kind": "between_T", "settings": {"DELTA_P": (mid - st["P_MIN"]) / (ntv - 1)}})
    # only the LAST requested pressure overshoots (by half a step), and the output sampling stride DELTA_P_SAMPLE / DELTA_P does not
    # land on it: the requested grid — all NTV pressures, which is what cij converts — still overshoots and must be rejected
    ks = [k for k in (2, 3, 7, 5) if (ntv - 1) % k != 0]
    if ks and ntv >= 4:
        dp = (p_last_gpa - st["P_MIN"]) / (ntv - 1.5)
        if dp > 0:
            out.append({"expect": "reject", "kind": "sample_stride", "settings": {"DELTA_P": dp, "DELTA_P_SAMPLE": ks[0] * dp}})
    # a DESCENDING requested grid (DELTA_P < 0 is schema-valid): its highest pressure is its FIRST entry; starting above the reachable
    # pressure it overshoots and must be rejected like any other overshooting grid
    top_d = float(rng.uniform(1.05, 1.5)) * p_last_gpa
    out.append({"expect": "reject", "kind": "descending", "settings": {"P_MIN": top_d, "DELTA_P": -(top_d - max(st["P_MIN"], 0.0)) / (ntv - 1)}})
    inside = float(rng.uniform(0.85, 0.995))
    out.append({"expect": "accept", "kind": "DELTA_P", "settings": {"DELTA_P": (inside * p_last_gpa - st["P_MIN"]) / (ntv - 1)}})
    return out


# ----------------------------------------------------------------------------- cases
def decimal_grid(rng) -> dict:
    cands = []
    for dp in (0.1, 0.2, 0.3, 0.7, 1.1, 0.05):
        for pm in (0.0, 0.3, 1.0):
            for n in range(8, 41):
                if pm + n * dp < 12.0 and len(numpy.arange(pm, pm + n * dp, dp)) != n:
                    cands.append((pm, dp, n))
    pm, dp, n = cands[int(rng.integers(len(cands)))]
    return {"P_MIN": pm, "DELTA_P": dp, "NTV": n}


def run_cases(ctx: Ctx, res: Result, n_cases: int, small: bool, budget_s: float):
    t0 = time.time()
    dist = res.distribution
    for name in ("system", "lattice", "nv", "NT", "NTV"):
        dist.setdefault(name, {})
    dist.setdefault("variants", {"reject": 0, "accept": 0})
    dist.setdefault("outside_quantifier", 0)
    opts = [None] + tvdata.SYSTEMS
    pend, seen = [], set()
    worst_all: Dict[str, float] = {}
    for i in range(n_cases):
        if time.time() - t0 > budget_s or ctx.time_left() < 30:
            res.notes.append(f"stopped after {res.evaluations} cases (time budget)"); break
        sub = numpy.random.Generator(numpy.random.PCG64(int(ctx.rng.integers(0, 2 ** 62))))
        force = {"system": opts[i % len(opts)]} if i < len(opts) else {}
        if i % 5 == 2:
            # decimal pressure steps with NTV chosen where P_MIN + NTV*DELTA_P is not exactly representable: a grid rebuilt with
            # floating-point `arange(start, start + n*step, step)` gains or loses a point exactly here
            force.update(decimal_grid(sub))
        ds, desc = tvdata.draw_case(sub, small=small, force=force)
        files = tvdata.case_files(ds)
        label = {k: desc[k] for k in ("system", "lattice", "nv", "nq", "na", "NT", "DT", "NTV", "volume_ratio", "P_MIN", "DELTA_P")}
        st = tvdata.parse_settings(files["settings.yaml"])
        run = tvdata.Run(files)
        res.evaluations += 1
        variants = []
        if run.error is None:
            plast = numpy.array(run.calc.volume_base.pressures)[:, -1] / tvdata.gpa_in_au()
            variants = make_variants(sub, st, float(plast.min()), float(plast.max()))
        fails = oracle(files, refine=(i % 3 == 0), variants=variants, max_keys=None if not small else 6)
        if fails and fails[0]["check"] == "outside_quantifier":
            dist["outside_quantifier"] += 1; continue
        for name in ("system", "lattice", "nv", "NT", "NTV"):
            key = str(desc[name]); dist[name][key] = dist[name].get(key, 0) + 1
        for v in variants: dist["variants"][v["expect"]] += 1
        seen.add((desc["system"], desc["lattice"], desc["nv"], desc["NT"], desc["NTV"], round(desc["DELTA_P"], 6)))
        per_check = set()
        for f in fails:
            if f["check"] == "_stats":
                for n, w in f["worst"].items():
                    g = n.split("[")[0]; worst_all[g] = max(worst_all.get(g, 0.0), w)
                continue
            if f["check"] in per_check or len(res.oracle_failures) >= 12: continue
            per_check.add(f["check"])
            res.oracle_failures.append(OracleFailure(
                what=f"C06 {f['check']}" + (f" {f['what']}" if f.get("what") else ""),
                input={"files": files, "check": f["check"], "refine": (i % 3 == 0), "variants": [f["variant"]] if f.get("variant") else [],
                       "desc": label},
                observed=f["observed"], expected=f["expected"], site=f"c06:{f['check']}"))
        if run.error is None:
            try:
                ob = observe(run.calc, None if not small else 6)
            except Exception as e:       # reported by the oracle above as a failing input
                res.notes.append(f"pressure-base access failed: {type(e).__name__}")
                continue
            pend.append((label, ob, st, variants))
            if len(res.samples) < 4:
                res.samples.append({"case": label, "p_array[0:3]": ob["p_array"][:3], "V(T,P)[last T][0:3]": ob["prs"]["volumes"][-1, :3],
                                    "K_VRH(T,P)[last T][0:3]": ob["prs"]["bulk_modulus_voigt_reuss_hill"][-1, :3]})
        if len(pend) >= 10:
            flush(ctx, res, pend); pend = []
    flush(ctx, res, pend)
    res.distinct_nontrivial += len(seen)
    res.extra["max_err_over_bound"] = {k: round(v, 4) for k, v in worst_all.items()}


def flush(ctx: Ctx, res: Result, pend):
    if not pend: return
    ops, spans = [], []
    for label, ob, st, variants in pend:
        o = model_ops(ob, st)
        # the range check of the model on the overshooting / inside variants that keep the volume grid
        for v in variants:
            if "NTV" in v["settings"]: continue
            s = dict(st); s.update(v["settings"])
            o.append({"op": "c06.status", "p_tv_gpa": enc(ob["p_tv_gpa"]), "p_min": enc(s["P_MIN"]), "delta_p": enc(s["DELTA_P"]),
                      "ntv": s["NTV"], "_expect": v["expect"]})
        spans.append((len(ops), len(o))); ops.extend(o)
    ans = ctx.driver.ask([{k: v for k, v in o.items() if not k.startswith("_")} for o in ops])
    for (label, ob, st, variants), (a, n) in zip(pend, spans):
        res.traces_validated += compare_model(ob, ans[a:a + 5], res, label)
        for o, r in zip(ops[a + 5:a + n], ans[a + 5:a + n]):
            want = "ok" if o["_expect"] == "accept" else "error:ValueError"
            # what the real code did on this variant was established by the oracle; here: the model's verdict
            if r == want: res.traces_validated += 1
            else: res.disagreements.append(Disagreement("c06.status", label, want, r, "range check on a variant grid"))


def run(ctx: Ctx) -> Result:
    res = Result()
    res.rule = ("a case = one synthetic data set + the real Calculator on it (+ 4-5 variant grids, + a refined grid for every third case); "
                "distinct = distinct (system, lattice, nv, NT, NTV, DELTA_P); non-trivial = cases inside the quantifier (requested "
                "pressures inside the computed range at every temperature, strictly increasing isotherms)")
    res.extra["numba_warmup_s"] = round(tvdata.warm_up(), 2)
    for payload in ctx.corpus():
        res.oracle_failures.extend(replay(ctx, payload.get("input", payload)))
    if ctx.thorough():
        run_cases(ctx, res, 300, small=False, budget_s=420)
    else:
        run_cases(ctx, res, 20, small=True, budget_s=45)
    res.distribution["tolerances"] = {"model": TOL_MODEL, "pressure_field": 1e-9,
                                      "isotherm": f"{C_BOUND}*max|f[P_i..P_i+4]|*|prod(P-P_i)| (x{END_FACTOR} in the 2 outermost grid intervals) + 1e-9*scale"}
    return res


def search(ctx: Ctx, res: Result):
    r2 = Result()
    run_cases(ctx, r2, 40, small=False, budget_s=120)
    res.evaluations += r2.evaluations
    return r2.oracle_failures


def replay(ctx: Ctx, payload) -> List[OracleFailure]:
    tvdata.warm_up()
    fails = [f for f in oracle(payload["files"], refine=bool(payload.get("refine")), variants=payload.get("variants") or [])
             if f["check"] not in ("_stats", "outside_quantifier")]
    fails.sort(key=lambda f: f["check"] != payload.get("check"))
    return [OracleFailure(what=f"C06 {f['check']}" + (f" {f['what']}" if f.get("what") else ""), input=payload,
                          observed=f["observed"], expected=f["expected"], site=f"c06:{f['check']}") for f in fails]
