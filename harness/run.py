#!/venv/bin/python
"""Entry point behind ./check:   ./check <Cxx> [--tier quick|thorough] [--replay PATH]

Flow (DESIGN §4.1):
  1 translate repo data -> lean/Generated            (tie by translator)
  2 lake build the property's theorems + the driver  (kernel re-checks theorems against translated data)
  3 audit: #print axioms for every property theorem, grep for sorry/axiom/native_decide
  4 corpus replay + correspondence run + direct property oracle on the real code   (tie by correspondence)
  5 violation logic (DESIGN §4.2), known-findings filter (§4.3)
  6 evidence/<id>.json
Exit 0: held on everything explored.  Exit 1: VIOLATION line printed.  Exit 2: infrastructure error.
"""
from __future__ import annotations

import argparse
import fcntl
import hashlib
import importlib
import json
import os
import re
import shutil
import subprocess
import sys
import tempfile
import time
import traceback

HERE = os.path.dirname(os.path.abspath(__file__))
VERIF = os.path.dirname(HERE)
sys.path.insert(0, VERIF)
# the code under test is always the working tree named by CIJ_REPO (default /repo), never an installed copy
sys.path.insert(0, os.environ.get("CIJ_REPO", "/repo"))

from harness import common  # noqa: E402
from harness.common import Ctx, Driver, Result, OracleFailure, make_rng, jsonable  # noqa: E402

LEAN = os.path.join(VERIF, "lean")
ALLOWED_AXIOMS = {"propext", "Classical.choice", "Quot.sound"}
FORBIDDEN = re.compile(r"\b(sorry|admit|native_decide|bv_decide|implemented_by|unsafe)\b|^\s*axiom\b|maxHeartbeats\s+0",
                       re.M)

TRUSTED_BASE = [
    "Lean 4.33.0 kernel (thorough tier additionally re-checks the .olean files with leanchecker)",
    "axioms: subset of {propext, Classical.choice, Quot.sound}, audited per theorem on this run; no native_decide/bv_decide/sorry",
    "Mathlib v4.33.0 as compiled on this image (definitions of R, HasDerivAt, exp/log, Finset.sum, Matrix)",
    "tools/gen_tables.py + tools/gens/*.py (ast-based translators of repo data files, expressions and glue code into lean/Generated, re-run on this run; "
    "their grammars and canonical-text pins are trusted to extract what the source says; the interpreters of the extracted descriptions in lean/CijModel/*Glue*.lean, "
    "*Src.lean, *Expr.lean give them their numpy/Python meaning and are trusted as semantics, validated by the correspondence run)",
    "harness/*.py + lean/Driver.lean (correspondence check: differential testing of the model against the real code; strength bounded by the generators, distribution recorded here)",
    "cij's Python source itself is modelled, not verified: tied to the model by the translators (statement by statement where a *_is_source theorem says so) and by the correspondence run",
    "contracts of numpy/scipy/pandas/pint/networkx/qha/jsonschema/yaml are assumptions (measured per case where stated)",
    "floating-point rounding is outside every theorem (theorems are over R, Q or finite domains)",
]


def sh(cmd, cwd=None, timeout=3600, env=None):
    t = time.time()
    p = subprocess.run(cmd, cwd=cwd, stdout=subprocess.PIPE, stderr=subprocess.STDOUT, timeout=timeout, env=env)
    return p.returncode, p.stdout.decode(errors="replace"), time.time() - t


def strip_comments(src: str) -> str:
    out, i, depth = [], 0, 0
    n = len(src)
    while i < n:
        if src.startswith("/-", i):
            depth += 1; i += 2; continue
        if depth and src.startswith("-/", i):
            depth -= 1; i += 2; continue
        if depth:
            if src[i] == "\n": out.append("\n")
            i += 1; continue
        if src.startswith("--", i):
            while i < n and src[i] != "\n": i += 1
            continue
        out.append(src[i]); i += 1
    return "".join(out)


def property_file(pid: str) -> str:
    return os.path.join(LEAN, "CijProofs", "Properties", f"{pid}.lean")


def parse_property_file(pid: str):
    """theorem names (fully qualified) and example count of the property file."""
    path = property_file(pid)
    src = strip_comments(open(path).read())
    ns = []
    theorems, examples = [], 0
    for line in src.splitlines():
        m = re.match(r"\s*namespace\s+(\S+)", line)
        if m: ns.append(m.group(1)); continue
        m = re.match(r"\s*end\s+(\S+)", line)
        if m and ns and ns[-1] == m.group(1): ns.pop(); continue
        m = re.match(r"\s*(?:private\s+|protected\s+)?(?:theorem|lemma)\s+([^\s:({\[]+)", line)
        if m:
            theorems.append(".".join(ns + [m.group(1)]))
            continue
        if re.match(r"\s*example\b", line):
            examples += 1
    return theorems, examples


def imported_lean_files(pid: str):
    """transitive closure of local imports of the property file (CijModel/CijProofs/Generated)."""
    seen, todo = set(), [property_file(pid)]
    while todo:
        f = todo.pop()
        if f in seen or not os.path.exists(f): continue
        seen.add(f)
        for m in re.finditer(r"^import\s+(\S+)", open(f).read(), re.M):
            mod = m.group(1)
            if mod.split(".")[0] in ("CijModel", "CijProofs", "Generated"):
                todo.append(os.path.join(LEAN, *mod.split(".")) + ".lean")
    return sorted(seen)


class Lock:
    def __init__(self, path): self.path = path
    def __enter__(self):
        self.fp = open(self.path, "w"); fcntl.flock(self.fp, fcntl.LOCK_EX); return self
    def __exit__(self, *a):
        fcntl.flock(self.fp, fcntl.LOCK_UN); self.fp.close()


def build_and_audit(pid: str, tier: str, log: list):
    """returns dict(proof_ok, problems[], theorems[], examples, axioms{}, sources{}, checker_cmd)"""
    info = {"proof_ok": True, "problems": [], "theorems": [], "examples": 0, "axioms": {}, "sources": {},
            "translator_errors": [], "build_s": 0.0}
    os.makedirs(os.path.join(LEAN, ".lake"), exist_ok=True)
    with Lock(os.path.join(LEAN, ".lake", "verif.lock")):
        # 1 translator
        rc, out, dt = sh([sys.executable, os.path.join(VERIF, "tools", "gen_tables.py")])
        log.append(f"[translator] rc={rc} {out.strip()[-500:]}")
        try:
            meta = json.load(open(os.path.join(LEAN, "Generated", "SOURCES.json")))
            info["sources"] = meta.get("sources", {})
            info["translator_errors"] = meta.get("errors", [])
        except Exception as e:  # pragma: no cover
            info["translator_errors"] = [f"SOURCES.json unreadable: {e}"]
        if rc != 0 or info["translator_errors"]:
            # a generator that failed leaves its Generated file stale: the tie is broken for exactly the properties whose
            # theorems (transitively) import that file
            failed = set(meta.get("failed_outputs", [])) if isinstance(locals().get("meta"), dict) else set()
            mine = {os.path.basename(f) for f in imported_lean_files(pid) if os.sep + "Generated" + os.sep in f}
            if not failed or (failed & mine):
                info["proof_ok"] = False
                info["problems"].append({"kind": "translator", "detail": info["translator_errors"] or out[-2000:],
                                         "stale_generated_files": sorted(failed & mine)})
            else:
                info["translator_errors_elsewhere"] = info["translator_errors"]
                info["translator_errors"] = []
        # 2 build
        target = f"CijProofs.Properties.{pid}"
        rc, out, dt = sh(["lake", "build", target, "driver"], cwd=LEAN, timeout=5400)
        info["build_s"] = dt
        log.append(f"[lake build {target} driver] rc={rc} {dt:.1f}s")
        if rc != 0:
            info["proof_ok"] = False
            errs = [l for l in out.splitlines() if "error" in l][:40]
            info["problems"].append({"kind": "build", "detail": errs, "failed_theorems": failed_theorems(pid, out)})
            log.append(out[-6000:])
            # the driver may still be buildable on its own (model fine, theorem broken)
            rc2, out2, _ = sh(["lake", "build", "driver"], cwd=LEAN, timeout=3600)
            if rc2 != 0:
                info["problems"].append({"kind": "driver-build", "detail": out2[-3000:]})
        # 3 audit
        try:
            theorems, examples = parse_property_file(pid)
        except FileNotFoundError:
            theorems, examples = [], 0
            info["proof_ok"] = False
            info["problems"].append({"kind": "missing", "detail": property_file(pid)})
        info["theorems"], info["examples"] = theorems, examples
        if info["proof_ok"] and theorems:
            tmp = tempfile.mkdtemp(prefix="cijaudit_")
            try:
                f = os.path.join(tmp, "Audit.lean")
                with open(f, "w") as fp:
                    fp.write(f"import CijProofs.Properties.{pid}\n")
                    for t in theorems:
                        fp.write(f"#print axioms {t}\n")
                rc, out, dt = sh(["lake", "env", "lean", f], cwd=LEAN, timeout=1800)
                log.append(f"[audit] rc={rc} {dt:.1f}s")
                cur = None
                text = out.replace("\n  ", " ")
                for m in re.finditer(r"^'(.+?)' (depends on axioms: \[([^\]]*)\]|does not depend on any axioms)", text, re.M):
                    name = m.group(1)
                    axs = [a.strip() for a in (m.group(3) or "").split(",") if a.strip()]
                    info["axioms"][name] = axs
                for t in theorems:
                    if t not in info["axioms"]:
                        info["proof_ok"] = False
                        info["problems"].append({"kind": "audit", "detail": f"no axiom report for {t}: {out[-800:]}"})
                        break
                    bad = [a for a in info["axioms"][t] if a not in ALLOWED_AXIOMS]
                    if bad:
                        info["proof_ok"] = False
                        info["problems"].append({"kind": "axioms", "detail": f"{t} depends on {bad}"})
            finally:
                shutil.rmtree(tmp, ignore_errors=True)
        # forbidden tokens in every local file the property depends on
        for f in imported_lean_files(pid):
            src = strip_comments(open(f).read())
            m = FORBIDDEN.search(src)
            if m:
                info["proof_ok"] = False
                info["problems"].append({"kind": "forbidden-token", "detail": f"{os.path.relpath(f, VERIF)}: {m.group(0)!r}"})
        info["checker_cmd"] = f"cd lean && lake build {target} && lake env lean <#print axioms of {len(theorems)} theorems>"
        if tier == "thorough" and info["proof_ok"]:
            rc, out, dt = sh(["lake", "env", "leanchecker", target], cwd=LEAN, timeout=3600)
            log.append(f"[leanchecker {target}] rc={rc} {dt:.1f}s {out.strip()[-300:]}")
            info["leanchecker"] = {"rc": rc, "wall_s": dt}
            info["checker_cmd"] += f" && lake env leanchecker {target}"
            if rc != 0:
                info["proof_ok"] = False
                info["problems"].append({"kind": "leanchecker", "detail": out[-2000:]})
    return info


def failed_theorems(pid: str, build_out: str):
    """map 'file:line:col: error' lines of the property file onto theorem names."""
    path = property_file(pid)
    if not os.path.exists(path): return []
    lines = open(path).read().splitlines()
    starts = []
    for i, l in enumerate(lines, 1):
        m = re.match(r"\s*(?:theorem|lemma|example)\s*([^\s:({\[]*)", l)
        if m: starts.append((i, m.group(1) or f"example@{i}"))
    out = []
    base = re.escape(os.path.basename(path))
    # lake prints `error: <path>:<line>:<col>: <message>` (older versions: `<path>:<line>:<col>: error: <message>`)
    for m in re.finditer(rf"error: \S*{base}:(\d+):\d+:|{base}:(\d+):\d+: error", build_out):
        ln = int(m.group(1) or m.group(2)); name = None
        for s, n in starts:
            if s <= ln: name = n
        if name and name not in out: out.append(name)
    # errors in imported files
    for m in re.finditer(r"(?:error: )?(CijProofs/[\w/]+\.lean|CijModel/[\w/]+\.lean|Generated/\w+\.lean):(\d+):\d+:(?: error)?", build_out):
        if not (m.group(0).startswith("error: ") or m.group(0).endswith(" error")) or m.group(1) == os.path.relpath(path, LEAN): continue
        tag = f"{m.group(1)}:{m.group(2)}"
        if tag not in out: out.append(tag)
    return out


def load_known():
    p = os.path.join(VERIF, "known_findings.json")
    if not os.path.exists(p): return []
    return json.load(open(p)).get("findings", [])


def write_replay(pid: str, payload: dict) -> str:
    d = os.path.join(VERIF, "evidence", "replay")
    os.makedirs(d, exist_ok=True)
    blob = json.dumps(payload, sort_keys=True, default=str)
    h = hashlib.sha256(blob.encode()).hexdigest()[:12]
    path = os.path.join(d, f"{pid}-{h}.json")
    with open(path, "w") as fp:
        fp.write(json.dumps(payload, indent=1, sort_keys=True, default=str) + "\n")
    return os.path.relpath(path, VERIF)


def main(argv=None):
    ap = argparse.ArgumentParser()
    ap.add_argument("pid")
    ap.add_argument("--tier", default=os.environ.get("VERIF_TIER", "quick"), choices=["quick", "thorough"])
    ap.add_argument("--replay", default=None)
    ap.add_argument("--skip-build", action="store_true", help="development only: reuse the current build")
    a = ap.parse_args(argv)
    pid, tier = a.pid, a.tier
    seed = int(os.environ.get("VERIF_SEED", "0") or 0)
    t0 = time.time()
    log: list = []
    os.chdir(VERIF)
    os.makedirs(os.path.join(VERIF, "evidence"), exist_ok=True)

    try:
        mod = importlib.import_module(f"harness.{pid.lower()}")
    except ModuleNotFoundError as e:
        print(f"no harness for {pid}: {e}", file=sys.stderr)
        return 2

    ctx = Ctx(pid=pid, tier=tier, seed=seed, rng=make_rng(seed, pid), driver=Driver(),
              corpus_dir=os.path.join(VERIF, "corpus", pid),
              deadline=t0 + (3000 if tier == "thorough" else 600))

    # ------------------------------------------------------------------ replay mode
    if a.replay:
        payload = json.load(open(a.replay))
        if a.skip_build is False:
            info = build_and_audit(pid, "quick", log)
            ctx.proof_ok = info["proof_ok"]
        if payload.get("kind") == "no-failing-input":
            info = build_and_audit(pid, "quick", log)
            print(json.dumps({"replay": "proof/correspondence status", "proof_ok": info["proof_ok"],
                              "problems": info["problems"]}, indent=1, default=str))
            if not info["proof_ok"]:
                print(f"VIOLATION property={pid} replay={a.replay} no-failing-input-found")
                return 1
            return 0
        fails = mod.replay(ctx, payload["input"])
        if fails:
            for f in fails:
                print(f"  still failing: {f.what} observed={jsonable(f.observed)} expected={jsonable(f.expected)}")
            print(f"VIOLATION property={pid} replay={a.replay}")
            return 1
        print("replay: property holds on this input now")
        return 0

    # ------------------------------------------------------------------ build + audit
    if a.skip_build:
        theorems, examples = parse_property_file(pid)
        info = {"proof_ok": True, "problems": [], "theorems": theorems, "examples": examples, "axioms": {},
                "sources": {}, "checker_cmd": "(skipped: development run)", "build_s": 0.0}
    else:
        info = build_and_audit(pid, tier, log)
    ctx.proof_ok = info["proof_ok"]

    # ------------------------------------------------------------------ correspondence + oracle
    infra_error = None
    res = Result()
    try:
        res = mod.run(ctx)
        if (not ctx.proof_ok or res.disagreements) and not res.oracle_failures and hasattr(mod, "search"):
            log.append("[search] tie broken -> searching the real code for a failing input")
            extra = mod.search(ctx, res)
            res.oracle_failures.extend(extra or [])
    except common.DriverError as e:
        # a model that cannot be run is a broken tie, not an infrastructure detail, when the proof is broken too
        infra_error = f"driver: {e}"
        log.append(traceback.format_exc())
    except Exception as e:  # harness bug or environment problem
        infra_error = f"{type(e).__name__}: {e}"
        log.append(traceback.format_exc())

    # ------------------------------------------------------------------ violation logic
    known = [k for k in load_known() if k.get("property") == pid and k.get("kind") == "known"]
    lines, violations, known_hits = [], 0, 0
    seen_sites = set()
    for f in res.oracle_failures:
        key = (f.site or f.what)
        if key in seen_sites: continue
        seen_sites.add(key)
        hit = next((k for k in known if k.get("site") == f.site and f.site), None)
        if hit:
            lines.append(f"KNOWN-FINDING: property={pid} {hit.get('what', f.what)}")
            known_hits += 1
            continue
        path = write_replay(pid, {"property": pid, "kind": "failing-input", "what": f.what, "site": f.site,
                                  "input": jsonable(f.input), "observed": jsonable(f.observed),
                                  "expected": jsonable(f.expected), "seed": seed, "tier": tier})
        lines.append(f"VIOLATION property={pid} replay={path}")
        violations += 1
    if violations == 0 and (not ctx.proof_ok or res.disagreements):
        # nothing concrete found (or only known findings explain nothing of the broken tie)
        unexplained = [d for d in res.disagreements]
        if not ctx.proof_ok or unexplained:
            payload = {"property": pid, "kind": "no-failing-input",
                       "proof_problems": info["problems"],
                       "failed_theorems": [t for p in info["problems"] for t in p.get("failed_theorems", [])],
                       "correspondence_disagreements": [
                           {"op": d.op, "input": jsonable(d.input), "impl": jsonable(d.impl),
                            "model": jsonable(d.model), "note": d.note} for d in unexplained[:5]],
                       "seed": seed, "tier": tier}
            path = write_replay(pid, payload)
            lines.append(f"VIOLATION property={pid} replay={path} no-failing-input-found")
            violations += 1

    # ------------------------------------------------------------------ evidence
    n_obl = len(info["theorems"]) + info["examples"]
    discharged = n_obl if info["proof_ok"] else 0
    ev = {
        "property_id": pid, "tier": tier, "seed": seed, "level": "proof",
        "coverage": {
            "obligations": max(n_obl, 0), "discharged": discharged,
            "checker_cmd": info.get("checker_cmd", ""),
            "trusted_base": TRUSTED_BASE + list(getattr(mod, "TRUSTED_EXTRA", [])),
            "theorems": info["theorems"], "examples": info["examples"], "axioms": info["axioms"],
            "proof_problems": info["problems"],
            "translated_sources_sha256": info["sources"],
            "evaluations": res.evaluations, "distinct_nontrivial": res.distinct_nontrivial,
            "rule": res.rule, "samples": jsonable(res.samples[:6]) or ["(no case ran)"],
            "traces_validated_against_impl": res.traces_validated,
            "correspondence_disagreements": len(res.disagreements),
            "oracle_failures": len(res.oracle_failures), "known_findings_hit": known_hits,
            "contract_failures": res.contract_failures[:20],
            "input_distribution": jsonable(res.distribution),
            "exhaustive": bool(res.exhaustive),
            "notes": res.notes, "build_s": round(info.get("build_s", 0.0), 2),
            "leanchecker": info.get("leanchecker"),
            **jsonable(res.extra),
        },
        "assumptions": list(getattr(mod, "ASSUMPTIONS", [])),
        "wall_s": round(time.time() - t0, 2),
        "violations": violations,
    }
    if infra_error:
        ev["coverage"]["infrastructure_error"] = infra_error
    # VERIF_EVIDENCE_DIR: used by tools/seed_run.py so that runs against a seeded (mutated) tree never overwrite the evidence
    # of the real tree
    ev_dir = os.environ.get("VERIF_EVIDENCE_DIR") or os.path.join(VERIF, "evidence")
    os.makedirs(ev_dir, exist_ok=True)
    with open(os.path.join(ev_dir, f"{pid}.json"), "w") as fp:
        fp.write(json.dumps(ev, indent=1, default=str) + "\n")

    for l in log[-60:] if (violations or infra_error) else []:
        print(l)
    print(f"[{pid}] tier={tier} seed={seed} theorems={len(info['theorems'])} examples={info['examples']} "
          f"proof_ok={info['proof_ok']} cases={res.evaluations} validated={res.traces_validated} "
          f"disagreements={len(res.disagreements)} oracle_failures={len(res.oracle_failures)} "
          f"wall={time.time() - t0:.1f}s")
    for l in lines:
        print(l)
    if violations:
        return 1
    if infra_error:
        print(f"INFRASTRUCTURE-ERROR {infra_error}", file=sys.stderr)
        return 2
    return 0


if __name__ == "__main__":
    sys.exit(main())
