"""C12, correspondence part: the Q1/Q2 expression trees that the translator extracts from nonshear.py, in their Float
and IEEE-class semantics (Lean), against the REAL class's Q1/Q2 evaluated by numpy on the same Q values.

Also validates the abstract transfer tables (mul/div/add/sub/exp/neg/square on classes) against numpy on sampled doubles
including 0, subnormals, huge values, ±inf and NaN: numpy's class must be a member of the model's class set.
"""
from __future__ import annotations

import numpy

from harness import e2e
from harness.common import Ctx, Result, Disagreement, enc, dec


def cls_of(x: float) -> str:
    if numpy.isnan(x): return "nan"
    if x == 0: return "zero"
    if numpy.isinf(x): return "pinf" if x > 0 else "ninf"
    if x < 0: return "neg"
    if x < 1: return "sub1"
    if x == 1: return "one"
    return "gt1"


class _Stub:
    """duck-typed calculator: just enough for Longitudinal...Contribution.Q / Q1 / Q2"""
    def __init__(self, q_values):
        from cij.core.phonon_contribution import nonshear
        n = len(q_values)
        # Q = h_div_k * freq[None] / t[:,None,None,None]; choose t = 1 and freq = Q / h_div_k  -> Q[0, v, 0, 0] = q_v up to 1 rounding
        self.t_array = numpy.array([1.0])
        self.freq_array = (numpy.asarray(q_values, dtype=float) / nonshear.h_div_k).reshape(n, 1, 1)
        self.v_array = numpy.ones(n)
        self.nv = n; self.np = 1; self.nq = 1; self.na = 1
        self.qha_calculator = None


def real_q(q_values):
    from cij.core.phonon_contribution.nonshear import LongitudinalElasticModulusPhononContribution as L
    stub = _Stub(q_values)
    obj = L(stub, (numpy.ones(len(q_values)), numpy.ones(len(q_values))))
    with e2e.quiet():
        Q = numpy.asarray(obj.Q)[0, :, 0, 0]
        Q1 = numpy.asarray(obj.Q1)[0, :, 0, 0]
        Q2 = numpy.asarray(obj.Q2)[0, :, 0, 0]
    return Q, Q1, Q2


def run(ctx: Ctx, res: Result):
    rng = ctx.rng
    n = 400 if ctx.thorough() else 120
    qs = numpy.concatenate([
        10.0 ** rng.uniform(-3, 2.8, size=n),           # ordinary: 1e-3 .. 630
        rng.uniform(600, 800, size=n // 4),               # around the overflow (709.78) and underflow (745.13) thresholds of exp
        10.0 ** rng.uniform(2.9, 6, size=n // 4),         # low-temperature regime (Q up to 1e6)
        numpy.array([1.0, 709.0, 710.0, 745.0, 746.0, 1e4]),
    ])
    Q, Q1, Q2 = real_q(qs)                                # Q is what the real code computed (one rounding away from qs)
    with e2e.quiet():
        ops = [{"op": "c12.eval", "expr": "q1", "q": enc(Q)}, {"op": "c12.eval", "expr": "q2", "q": enc(Q)},
               {"op": "c12.cls", "expr": "q1", "q": enc(Q)}, {"op": "c12.cls", "expr": "q2", "q": enc(Q)}]
        m1, m2, c1, c2 = ctx.driver.ask(ops)
    m1, m2 = numpy.array(dec(m1)), numpy.array(dec(m2))
    stats = {"q_values": int(len(Q)), "q_exp_overflow": int((Q > 709.78).sum()), "impl_q2_nan": int(numpy.isnan(Q2).sum()),
             "impl_q1_nan": int(numpy.isnan(Q1).sum())}
    for name, impl, model, classes in (("q1", Q1, m1, c1), ("q2", Q2, m2, c2)):
        for i in range(len(Q)):
            res.evaluations += 1
            a, b = float(impl[i]), float(model[i])
            same_tag = cls_of(a) in ("nan", "pinf", "ninf", "zero") or cls_of(b) in ("nan", "pinf", "ninf", "zero")
            ok = (cls_of(a) == cls_of(b)) if same_tag else abs(a - b) <= 1e-12 * max(abs(a), abs(b))
            in_set = cls_of(a) in classes[i]
            if not ok:
                res.disagreements.append(Disagreement(f"c12.eval:{name}", {"Q": float(Q[i])}, a, b,
                                                      "Float evaluation of the translated expression differs from the real class"))
            elif not in_set:
                res.disagreements.append(Disagreement(f"c12.cls:{name}", {"Q": float(Q[i])}, cls_of(a), classes[i],
                                                      "numpy's IEEE class is not in the model's class set"))
            else:
                res.traces_validated += 1
    # transfer tables against numpy
    specials = numpy.array([0.0, -0.0, 5e-324, 1e-310, 1e-200, 0.5, 1.0, 1.0 + 2 ** -52, 1.5, 1e200, 1.7e308,
                            numpy.inf, -numpy.inf, numpy.nan, -1e-310, -0.5, -1.0, -3.0, -1e300, 1 - 2 ** -53])
    a = numpy.concatenate([numpy.repeat(specials, len(specials)), rng.standard_normal(200) * 10.0 ** rng.uniform(-300, 300, 200)])
    b = numpy.concatenate([numpy.tile(specials, len(specials)), rng.standard_normal(200) * 10.0 ** rng.uniform(-300, 300, 200)])
    with e2e.quiet():
        results = {"mul": a * b, "div": a / b, "add": a + b, "sub": a - b, "exp": numpy.exp(a), "neg": -a, "sq": a ** 2}
        outs = ctx.driver.ask([{"op": "c12.op", "name": k, "a": enc(a), "b": enc(b)} for k in results])
    bad = 0
    for (k, r), sets in zip(results.items(), outs):
        for i in range(len(a)):
            res.evaluations += 1
            if cls_of(float(r[i])) in sets[i]:
                res.traces_validated += 1
            else:
                bad += 1
                if bad <= 5:
                    res.disagreements.append(Disagreement(f"c12.op:{k}", {"a": float(a[i]), "b": float(b[i])}, cls_of(float(r[i])), sets[i],
                                                          "IEEE transfer table of the model does not cover numpy's result"))
    stats["transfer_table_cases"] = int(len(a) * len(results))
    res.distribution["ieee"] = stats
    res.samples.append({"ieee_sample": {"Q": float(Q[-1]), "impl_Q1": float(Q1[-1]), "impl_Q2": float(Q2[-1]),
                                        "model_Q2_classes": c2[-1]}})
