"""C13 — results do not depend on how the same physical data are presented (metamorphic, end to end).

For each synthetic data set the REAL Calculator runs on the original presentation and on re-presented copies:
  q-perm     non-Γ q-points (2..nq) listed in another order together with their weights
  mode-perm  modes listed in another order within a q-point, consistently across volumes (Γ keeps its three acoustic slots)
  w-scale    all weights multiplied by a common positive factor
  col-perm   static-modulus columns reordered;  col-upper  column names upper-cased
  row-perm   rows of the static table reordered
  vol-inc / vol-rev / vol-swap / vol-shuffle   volume blocks of the phonon file listed by increasing volume / reversed / with ONE
             adjacent pair exchanged / shuffled: same results OR an error, never different numbers
  vol-repeat family   the phonon file gets a REPEATED volume (block i+1 carries the volume of block i, its own frequencies): the
             outcome of that file is recorded (accepted | rejected); its re-listings vol-eqswap (the two equal-volume blocks
             exchanged), vol-repeat-rev (reversed), vol-repeat-apart (one of the two moved to the end) must each be rejected or give
             the numbers of the file they re-list
  w-normalise   weights divided by their sum (multiplicities vs. normalised weights, Σw = 1)
  col-both      columns reordered AND re-spelled together (upper case, prefix "C_")
  phonon-all    q-perm, mode-perm and a weight factor composed in one copy
Correspondence (stream "read-input"): the real `QHACalculator.read_input` on generated block lists (decreasing, increasing, reversed,
one adjacent swap, repeated adjacent / apart, shuffled, 0/1 block, 1-ulp steps, ±0, NaN, inf) against the Lean model
(`VolOrder.readInput`) AND against the interpreted translation of the method (`Generated.VolOrder.readInputSteps`), bit for bit.
Oracle: every reported array (moduli both kinds on both bases, averages, velocities, V(T,P)) agrees to rounding
(|Δ| <= 1e-8 of the family scale).  The theorems (Properties/C13.lean) carry the algebraic core: permutation / scale
invariance of the weighted mode average, of the per-mode interpolation loop and of least squares.
"""
from __future__ import annotations

import copy

import numpy

from harness import synth, e2e
from harness.common import Ctx, Result, OracleFailure, make_rng, jsonable, family_close

ASSUMPTIONS = [
    "same physical data = same multiset of (q-point, weight, mode series) and same static table as a map volume -> component values",
    "qha and scipy see the re-presented arrays too; their own order-(in)dependence is part of what is observed, not modelled",
]
RTOL = 1e-8
VOL_LISTINGS = ["vol-inc", "vol-rev", "vol-swap", "vol-shuffle"]           # re-listings of the data set's own (decreasing) blocks
REPEAT_FAMILY = ["vol-repeat", "vol-eqswap", "vol-repeat-rev", "vol-repeat-apart"]
TRANSFORMS = VOL_LISTINGS + REPEAT_FAMILY + ["q-perm", "mode-perm", "w-scale", "w-scale-2", "col-perm", "col-upper", "row-perm", "row-zfirst",
                                             "w-normalise", "col-both", "phonon-all"]
NODE_BASED = ("lagrange", "krogh", "pchip", "akima", "hermite")


def transform(ds: synth.DataSet, name: str, rng) -> tuple:
    """returns (dataset', writer-kwargs)"""
    d = copy.deepcopy(ds)
    kw = {}
    if name == "q-perm":
        if d.nq < 3: return None, None
        p = numpy.concatenate([[0], 1 + rng.permutation(d.nq - 1)])
        if (p == numpy.arange(d.nq)).all(): p[1], p[2] = p[2], p[1]
        d.q_coords = d.q_coords[p]; d.weights = d.weights[p]; d.freqs = d.freqs[:, p, :]
    elif name == "mode-perm":
        for q in range(d.nq):
            if q == 0:
                p = numpy.concatenate([numpy.arange(3), 3 + rng.permutation(d.np_ - 3)]) if d.np_ > 3 else numpy.arange(3)
            else:
                p = rng.permutation(d.np_)
            d.freqs[:, q, :] = d.freqs[:, q, p]
    elif name in ("w-scale", "w-scale-2"):
        # "all positive weight scale factors": ordinary and extreme ones (weights only matter up to a common factor)
        d.weights = d.weights * float(rng.choice([0.25, 16.0, 1.0 / 7.0, 2e-7, 1e-9, 1e6]))
    elif name == "w-normalise":
        d.weights = d.weights / float(numpy.sum(d.weights))
    elif name == "phonon-all":
        for sub in ("q-perm", "mode-perm", "w-scale"):
            d2, _ = transform(d, sub, rng)
            if d2 is not None: d = d2
    elif name in ("col-perm", "col-both"):
        if name == "col-both": kw["upper"] = True; kw["prefix"] = "c_"
        p = rng.permutation(len(d.static_keys))
        d.static_keys = [d.static_keys[i] for i in p]; d.static_table = d.static_table[:, p]
    elif name == "col-upper":
        kw["upper"] = True
    elif name == "row-perm":
        p = rng.permutation(d.nv)
        if (p == numpy.arange(d.nv)).all() or (p == numpy.arange(d.nv)[::-1]).all():
            p = numpy.roll(numpy.arange(d.nv), 2)                # neither the listed nor the reversed order
        kw["row_perm"] = p.tolist()
    elif name == "row-zfirst":
        # the row in which a component passes through exactly 0 (planted by build() when a crystal system is requested) listed FIRST
        z = getattr(ds, "_zero_row", None)
        if z is None or z == 0: return None, None
        kw["row_perm"] = [z] + [i for i in range(d.nv) if i != z]
    elif name in VOL_LISTINGS:
        ident = numpy.arange(d.nv)
        if name == "vol-rev": p = ident[::-1]
        elif name == "vol-inc": p = numpy.argsort(d.volumes, kind="stable")              # listed by increasing volume
        elif name == "vol-swap":
            i = int(rng.integers(0, d.nv - 1)); p = ident.copy(); p[i], p[i + 1] = p[i + 1], p[i]
        else:
            p = rng.permutation(d.nv)
            if (p == ident).all() or (p == ident[::-1]).all(): p = numpy.roll(ident, 2)
        kw["vol_perm"] = [int(x) for x in p]
    return d, kw


def repeat_base(case, ds, rng):
    """the data set with a repeated volume in its phonon file: block i+1 gets the volume of block i (own energy and frequencies); the
    static table keeps its own, distinct volume column.  i is chosen so that for a node-thinning interpolator one of the two equal-volume
    blocks sits on a node position ([::ceil(nv/order)])."""
    d = copy.deepcopy(ds)
    if d.static_volumes is None: d.static_volumes = numpy.array(ds.volumes, dtype=float).copy()
    if case["interp"] in NODE_BASED:
        interval = int(numpy.ceil(d.nv / case["order"]))
        i = min(max(interval - 1, 0), d.nv - 2)
    else:
        i = int(rng.integers(0, d.nv - 1))
    d.volumes = numpy.array(ds.volumes, dtype=float).copy()
    d.volumes[i + 1] = d.volumes[i]
    return d, i


def repeat_listing(name, nv, i):
    ident = list(range(nv))
    if name == "vol-eqswap": p = ident[:]; p[i], p[i + 1] = p[i + 1], p[i]
    elif name == "vol-repeat-rev": p = ident[::-1]
    elif i + 2 < nv: p = ident[:i + 1] + ident[i + 2:] + [i + 1]     # vol-repeat-apart: the second of the pair goes to the end
    else: p = [i] + ident[:i] + ident[i + 1:]                        #   (pair at the end: the first of the pair goes to the front)
    return p


def write(dirname, ds, kw):
    """synth.write_all with the presentation options"""
    import os, yaml
    os.makedirs(dirname, exist_ok=True)
    d = ds
    if "vol_perm" in kw:   # only the phonon file's blocks move
        d = copy.deepcopy(ds); p = kw["vol_perm"]
        d2 = copy.deepcopy(ds)
        d2.volumes = ds.volumes[p]; d2.energies = ds.energies[p]; d2.pressures = ds.pressures[p]; d2.freqs = ds.freqs[p]
        synth.write_input01(os.path.join(dirname, ds.settings["qha"]["input"]), d2)
    else:
        synth.write_input01(os.path.join(dirname, ds.settings["qha"]["input"]), ds)
    e = copy.deepcopy(ds)
    if "row_perm" in kw:
        p = kw["row_perm"]
        e.volumes = ds.volumes[p]; e.static_table = ds.static_table[p]
        if ds.lattice is not None: e.lattice = ds.lattice[p]
    synth.write_elast(os.path.join(dirname, ds.settings["elast"]["input"]), e, prefix=kw.get("prefix", "c"), upper=kw.get("upper", False))
    path = os.path.join(dirname, "settings.yaml")
    with open(path, "w") as fp:
        yaml.safe_dump(ds.settings, fp)
    return path


def observe(ds, kw):
    """run the real Calculator; return dict name -> array (or ('error', type))"""
    import cij.core.calculator as cc
    with e2e.scratch_dir() as d, e2e.quiet():
        path = write(d, ds, kw)
        try:
            c = cc.Calculator(path)
        except Exception as ex:
            return ("error", type(ex).__name__, str(ex)[:160])
        out = {}
        for k, v in c.modulus_isothermal.items(): out[f"cT{k.v[0]}{k.v[1]}"] = numpy.asarray(v)
        for k, v in c.modulus_adiabatic.items(): out[f"cS{k.v[0]}{k.v[1]}"] = numpy.asarray(v)
        out["v_array"] = numpy.asarray(c.v_array)
        out["p_tv"] = numpy.asarray(c.volume_base.pressures)
        for nm in ("bulk_modulus_voigt_reuss_hill", "shear_modulus_voigt_reuss_hill", "primary_velocities", "secondary_velocities"):
            out[nm] = numpy.asarray(getattr(c.volume_base, nm))
        try:      # a failing (T,V)->(T,P) conversion is an observation, not a crash of the harness
            pb = c.pressure_base
            for k, v in pb.modulus_adiabatic.items(): out[f"cS{k.v[0]}{k.v[1]}_tp"] = numpy.asarray(v)
            for nm in ("bulk_modulus_voigt_reuss_hill", "shear_modulus_voigt_reuss_hill", "primary_velocities", "secondary_velocities"):
                out[nm + "_tp"] = numpy.asarray(getattr(pb, nm))
            out["volumes_tp"] = numpy.asarray(pb.volumes)
        except Exception as ex:
            out["pressure_base_error:" + type(ex).__name__] = numpy.zeros(1)
        return out


def _family(k):
    """the components of one elastic tensor are ONE family: shear and off-diagonal components are linear combinations of rotated
    longitudinal ones, so the rounding noise of a small component has the scale of the largest one (a data set on which Krogh's
    polynomial oscillates has c11 ~ 1e6 next to c15 ~ 1e-4: 1e-16 * 1e6 is 1e-5 of c15 — summation order, not presentation)"""
    if k[:2] in ("cT", "cS"): return k[:2] + ("_tp" if k.endswith("_tp") else "")
    return k


def compare(a, b):
    """returns None if equal to rounding else (name, relerr)"""
    worst = None
    scales = {}
    for d in (a, b):
        for k, v in d.items():
            v = numpy.asarray(v, dtype=float); fin = v[numpy.isfinite(v)]
            if fin.size: scales[_family(k)] = max(scales.get(_family(k), 0.0), float(numpy.max(numpy.abs(fin))))
    for k in a:
        if k not in b: return (k, "missing")
        ok, err, scale = family_close(a[k], b[k], rtol=RTOL, scale=scales.get(_family(k)))
        if not ok and (worst is None or err > worst[1]):
            worst = (k, err)
    for k in b:
        if k not in a: return (k, "extra")
    return worst


def gen_cases(ctx: Ctx):
    rng = ctx.rng
    cases = []
    interps = [("lsq_poly", 2), ("lsq_poly", 3), ("spline", 3), ("lagrange", 3), ("krogh", 4), ("pchip", 3)]
    n = 12 if ctx.thorough() else 3
    for i in range(n):
        interp, order = interps[i % len(interps)] if ctx.thorough() else [("lsq_poly", 2), ("spline", 3), ("lagrange", 3)][i]
        # node-based interpolants get data that is NOT a low-order polynomial in ln V (law "smooth") and a volume count for
        # which the thinned node subset is not mirror-symmetric, so a different node choice shows up in the numbers
        node_based = interp in ("lagrange", "krogh", "pchip", "akima")
        cases.append({"idx": i, "interp": interp, "order": order, "nv": (8 if node_based else int(rng.integers(6, 9))),
                      "nq": int(rng.integers(3, 5)),
                      "na": int(rng.integers(2, 4)), "system": [None, "orthorhombic", "trigonal7", "monoclinic"][i % 4],
                      "lattice": bool(i % 2), "law": ("smooth" if node_based else ["quadratic", "power"][i % 2])})
    # the smallest legal data sets: 4 or 5 volumes (static table rows = phonon volumes), with a lattice-parameter block
    for k in range(2 if ctx.thorough() else 1):
        cases.append({"idx": n + k, "interp": "lsq_poly", "order": 2, "nv": [4, 5][(ctx.seed + k) % 2], "nq": int(rng.integers(2, 4)),
                      "na": 2, "system": [None, "orthorhombic"][k % 2], "lattice": True, "law": "power", "lattice_curvature": True})
    return cases


def build(case, seed):
    rng = make_rng(seed, f"C13/{case['idx']}")
    keys = None if case["system"] else ["11", "22", "33", "12", "13", "23", "44", "55", "66", "15", "46"]
    settings = {"qha": {"settings": {"NT": 4, "DT": 300, "DT_SAMPLE": 300, "NTV": 10, "DELTA_P": 1.5, "DELTA_P_SAMPLE": 1.5}},
                "elast": {"settings": {"mode_gamma": {"interpolator": case["interp"], "order": case["order"]}}}}
    ds = synth.make_dataset(rng, nv=case["nv"], nq=case["nq"], na=case["na"], system=case["system"], keys=keys,
                            lattice=case["lattice"], law=case["law"], settings=settings, lattice_curvature=bool(case.get("lattice_curvature")))
    # accidental coincidences: neighbouring modes of a q-point that have EXACTLY the same frequency at the first listed volume only
    # (branches that cross there) — they are different modes with different volume dependence, in whatever order they are listed
    # a symmetry-allowed coupling component that passes through exactly 0 at ONE volume (not the first listed): it is a component like any
    # other, whichever row is listed first
    if case["system"] and ds.static_volumes is None:
        cand = [c for c, k_ in enumerate(ds.static_keys) if k_[0] != k_[1] and int(k_[1]) >= 4]
        if cand and ds.nv >= 3:
            c0 = cand[case["idx"] % len(cand)]; z = 1 + (case["idx"] % (ds.nv - 1))
            col = ds.static_table[:, c0].copy()
            ds.static_table[:, c0] = col - col[z]          # shifted so that it vanishes exactly at row z and nowhere else (monotone columns)
            if numpy.count_nonzero(ds.static_table[:, c0] == 0.0) == 1:
                ds._zero_row = int(z)
            else:
                ds.static_table[:, c0] = col
    np_ = ds.freqs.shape[2]
    for q in range(ds.nq):
        m = 3 + (q % max(1, np_ - 4)) if np_ >= 5 else None
        if m is not None and m + 1 < np_:
            ds.freqs[0, q, m + 1] = ds.freqs[0, q, m]
    return ds


def evaluate(case, seed, which=None):
    ds = build(case, seed)
    base = observe(ds, {})
    fails, stats = [], {}
    if isinstance(base, tuple):
        return [("baseline-error:" + base[1], f"Calculator raised {base[1]} on the original presentation", base[2], None)], stats
    names = list(which or TRANSFORMS)
    for name in names:
        if name in REPEAT_FAMILY: continue
        rng = make_rng(seed, f"C13/{case['idx']}/{name}")
        d2, kw = transform(ds, name, rng)
        if d2 is None: stats[name] = "n/a"; continue
        obs = observe(d2, kw)
        if isinstance(obs, tuple):
            if name.startswith("vol-"):
                stats[name] = "rejected:" + obs[1]; continue          # allowed by the property
            fails.append((f"{name}:error:{obs[1]}", f"re-presentation '{name}' makes the calculation raise {obs[1]}", obs[2], name)); continue
        w = compare(base, obs)
        stats[name] = "same" if w is None else f"differs:{w[0]}"
        if w is not None:
            site = f"{name}:differs:{case['interp']}" if name.startswith("vol-") else f"{name}:differs"
            fails.append((site, f"re-presentation '{name}' changes {w[0]} by {w[1]} of its scale (interpolator {case['interp']})",
                          {"quantity": w[0], "relative_difference": w[1]}, name))
    # ---- a phonon file with a repeated volume, and its re-listings
    fam = [n for n in names if n in REPEAT_FAMILY]
    if fam:
        rd, i = repeat_base(case, ds, make_rng(seed, f"C13/{case['idx']}/vol-repeat"))
        rbase = observe(rd, {})
        if isinstance(rbase, tuple):
            stats["vol-repeat"] = "rejected:" + rbase[1]            # a file with a repeated volume may be refused: nothing to compare with
            for name in fam:
                if name != "vol-repeat": stats[name] = "n/a"
        else:
            stats["vol-repeat"] = "accepted"
            for name in fam:
                if name == "vol-repeat": continue
                obs = observe(rd, {"vol_perm": repeat_listing(name, rd.nv, i)})
                if isinstance(obs, tuple):
                    stats[name] = "rejected:" + obs[1]; continue
                w = compare(rbase, obs)
                stats[name] = "same" if w is None else f"differs:{w[0]}"
                # NOT an oracle failure: a file with the same volume in two blocks is outside the data sets the property quantifies
                # over ("as in C05 and the shipped examples": one spectrum per volume).  What happens is recorded in the statistics (and
                # stated as theorem vol_relisting_repeated_may_differ: the order test cij calls is not strict, so equal-volume blocks
                # may be exchanged, and position-thinning interpolators then see other nodes).
    return fails, stats


# ----------------------------------------------------------------------------- correspondence: QHACalculator.read_input
LISTINGS = ["decreasing", "increasing", "reversed", "adjacent-swap", "repeat-adjacent", "repeat-apart", "shuffled", "no-block", "one-block",
            "ulp-steps", "signed-zero", "nan", "inf", "two-equal"]


def gen_volume_list(kind, rng):
    """a list of volumes of the named shape (floats exactly as handed to the method)"""
    n = int(rng.integers(2, 9))
    dec = numpy.sort(rng.uniform(50.0, 900.0, size=n))[::-1].copy()
    if kind == "decreasing": return dec
    if kind == "increasing": return dec[::-1].copy()
    if kind == "reversed": return dec[::-1].copy()
    if kind == "adjacent-swap":
        i = int(rng.integers(0, n - 1)); v = dec.copy(); v[i], v[i + 1] = v[i + 1], v[i]; return v
    if kind == "repeat-adjacent":
        i = int(rng.integers(0, n - 1)); v = dec.copy(); v[i + 1] = v[i]; return v
    if kind == "repeat-apart":
        if n < 3: dec = numpy.array([300.0, 200.0, 100.0]); n = 3
        v = dec.copy(); v[n - 1] = v[0]; return v
    if kind == "shuffled": return rng.permutation(dec)
    if kind == "no-block": return numpy.array([], dtype=float)
    if kind == "one-block": return dec[:1].copy()
    if kind == "ulp-steps":
        x = float(rng.uniform(100.0, 500.0)); v = [x]
        for _ in range(n - 1): v.append(float(numpy.nextafter(v[-1], [-numpy.inf, numpy.inf, v[-1]][int(rng.integers(0, 3))])))
        return numpy.array(v)
    if kind == "signed-zero": return numpy.array([[1.0, 0.0, -0.0, -1.0], [1.0, -0.0, 0.0, -1.0]][int(rng.integers(0, 2))])
    if kind == "nan":
        v = dec.copy(); v[int(rng.integers(0, n))] = numpy.nan; return v
    if kind == "inf":
        v = dec.copy(); v[[0, n - 1][int(rng.integers(0, 2))]] = [numpy.inf, -numpy.inf][int(rng.integers(0, 2))]; return v
    if kind == "two-equal": x = float(rng.uniform(1.0, 9.0)); return numpy.array([x, x])
    raise ValueError(kind)


def real_read_input(nm, vols, energies, freqs, weights):
    """the real method on a QHAInputData built in memory -> {"error": name} | arrays"""
    from cij.core.qha_adapter import QHACalculator
    from cij.io.traditional.models import QHAInputData, VolumeData, QPointData, QPointWeight
    nv, nq, np_ = len(vols), len(weights), (len(freqs[0][0]) if len(vols) and len(weights) else 0)
    inp = QHAInputData(nv, nq, np_, nm, max(np_ // 3, 1),
                       [QPointWeight((0.0, 0.0, 0.0), float(w)) for w in weights],
                       [VolumeData(0.0, float(vols[i]), float(energies[i]),
                                   [QPointData((0.0, 0.0, 0.0), [float(x) for x in freqs[i][q]]) for q in range(nq)]) for i in range(nv)])
    calc = QHACalculator({})
    try:
        with e2e.quiet():
            calc.read_input(inp)
    except Exception as ex:
        return {"error": type(ex).__name__}
    return {"nm": int(calc._formula_unit_number), "volumes": calc._volumes, "energies": calc._static_energies,
            "frequencies": calc._frequencies, "weights": calc._q_weights}


def _canon(real):
    from harness.common import enc
    if "error" in real: return real
    def bits(a): return enc(numpy.asarray(a, dtype=float).tolist())
    return {"nm": real["nm"], "volumes": bits(real["volumes"]), "energies": bits(real["energies"]),
            "frequencies": bits(real["frequencies"]) if numpy.asarray(real["frequencies"]).size else [[] for _ in real["volumes"]] if len(real["volumes"]) else [],
            "weights": bits(real["weights"])}


def read_input_stream(ctx: Ctx, res: Result):
    """real read_input / qha.tools.is_monotonic_decreasing  vs  model and interpreted translation, per listing shape"""
    from harness.common import enc, Disagreement
    import qha.tools
    rng = make_rng(ctx.seed, "C13/read-input")
    n = 60 if ctx.thorough() else 12
    ops, reals, meta = [], [], []
    for kind in LISTINGS:
        for _ in range(n):
            vols = gen_volume_list(kind, rng)
            nq, np_ = int(rng.integers(1, 3)), 3 * int(rng.integers(1, 3))
            energies = rng.uniform(-3.0, -1.0, size=len(vols))
            freqs = rng.uniform(50.0, 900.0, size=(len(vols), nq, np_))
            weights = rng.uniform(0.1, 4.0, size=nq)
            nm = int(rng.integers(1, 5))
            reals.append(real_read_input(nm, vols, energies, freqs, weights))
            ops.append({"op": "c13.read_input", "nm": nm, "weights": enc(weights.tolist()),
                        "blocks": [{"v": enc(float(vols[i])), "e": enc(float(energies[i])), "modes": enc(freqs[i].tolist())} for i in range(len(vols))]})
            meta.append((kind, vols))
    answers = ctx.driver.ask(ops)
    mono_real = [bool(qha.tools.is_monotonic_decreasing(v)) for _, v in meta]
    mono = ctx.driver.ask([{"op": "c13.monotonic", "arrays": [enc(numpy.asarray(v, dtype=float).tolist()) for _, v in meta]}])[0]
    dist = {k: {} for k in LISTINGS}
    for (kind, vols), real, ans, mr, mm in zip(meta, reals, answers, mono_real, mono):
        res.evaluations += 1
        want = _canon(real)
        outcome = "rejected:" + real["error"] if "error" in real else "accepted"
        dist[kind][outcome] = dist[kind].get(outcome, 0) + 1
        ok = True
        for side in ("model", "source"):
            got = ans[side]
            if "error" in want or "error" in got:
                same = want.get("error") == got.get("error")
            else:
                same = all(want[k] == got.get(k) for k in ("nm", "volumes", "energies", "weights")) and \
                    (want["frequencies"] == got.get("frequencies") or (not len(vols)))
            if not same:
                ok = False
                res.disagreements.append(Disagreement(op="c13.read_input/" + side, input={"listing": kind, "volumes": [float(x) for x in vols]},
                                                      impl=(real.get("error") or "accepted"), model=(got.get("error") or "accepted"),
                                                      note=f"QHACalculator.read_input vs {side} on a '{kind}' list of volume blocks"))
        if [mr, mr] != [bool(mm[0]), bool(mm[1])]:
            ok = False
            res.disagreements.append(Disagreement(op="c13.monotonic", input={"listing": kind, "volumes": [float(x) for x in vols]},
                                                  impl=mr, model=mm, note="qha.tools.is_monotonic_decreasing vs model / operator read from the installed qha"))
        if ok: res.traces_validated += 1
        if kind not in ("decreasing", "no-block", "one-block"): res.distinct_nontrivial += 1
    return dist


def run(ctx: Ctx) -> Result:
    res = Result()
    res.rule = ("case = (data set, re-presentation) on the real Calculator; data sets differ in interpolator/order/shape/system/law; "
                f"{len(TRANSFORMS)} re-presentations each (4 listings of the volume blocks, a repeated-volume file and 3 re-listings of it, "
                "10 others); non-trivial = the re-presented files differ textually from the original and the calculation ran or was "
                "rejected.  Plus the read-input stream: one case = one list of volume blocks through the real QHACalculator.read_input, "
                "the model and the interpreted translation; non-trivial = not simply decreasing")
    seen = set()
    dist = {t: {} for t in TRANSFORMS}
    dist["read-input"] = read_input_stream(ctx, res)
    for case in gen_cases(ctx):
        if ctx.time_left() < 40: res.notes.append("time budget reached"); break
        fails, stats = evaluate(case, ctx.seed)
        for t, s in stats.items():
            res.evaluations += 1
            key = s.split(":")[0] + (":" + s.split(":")[1] if s.startswith("rejected:") else "")
            dist[t][key] = dist[t].get(key, 0) + 1
            if s != "n/a": res.distinct_nontrivial += 1
            if s in ("same", "accepted") or s.startswith("rejected"): res.traces_validated += 1
        if len(res.samples) < 2: res.samples.append({"case": case, "outcomes": stats})
        for site, what, obs, name in fails:
            if site in seen: continue
            seen.add(site)
            res.oracle_failures.append(OracleFailure(what=what, input={"case": case, "seed": ctx.seed, "transform": name}, observed=obs,
                                                     expected="identical results to rounding (1e-8 of scale)", site=site))
    res.distribution = dist
    # every run must have listed the volume blocks increasing, reversed, with one adjacent swap and with a repeated volume
    vol = {t: dist[t] for t in VOL_LISTINGS + REPEAT_FAMILY}
    missing = [t for t in ("vol-inc", "vol-rev", "vol-swap", "vol-repeat") if not sum(v for k, v in dist[t].items() if k != "n/a")]
    if missing: res.notes.append("volume-block listings NOT exercised in this run: " + ", ".join(missing))
    res.extra["volume_block_listings"] = {"end_to_end": vol, "read_input": dist["read-input"], "missing": missing}
    return res


def search(ctx: Ctx, res: Result):
    out, seen = [], set()
    c2 = Ctx(pid=ctx.pid, tier="thorough", seed=ctx.seed + 77, rng=make_rng(ctx.seed + 77, "C13s"), driver=ctx.driver,
             corpus_dir=ctx.corpus_dir, deadline=ctx.deadline)
    for case in gen_cases(c2):
        if ctx.time_left() < 30: break
        fails, _ = evaluate(case, ctx.seed + 77)
        for site, what, obs, name in fails:
            if site not in seen:
                seen.add(site)
                out.append(OracleFailure(what=what, input={"case": case, "seed": ctx.seed + 77, "transform": name}, observed=obs, site=site))
    return out


def replay(ctx: Ctx, payload):
    fails, _ = evaluate(payload["case"], payload["seed"], which=[payload["transform"]] if payload.get("transform") else None)
    return [OracleFailure(what=w, input=payload, observed=o, site=s) for s, w, o, _ in fails]
