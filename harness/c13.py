"""C13 — results do not depend on how the same physical data are presented (metamorphic, end to end).

For each synthetic data set the REAL Calculator runs on the original presentation and on re-presented copies:
  q-perm     non-Γ q-points (2..nq) listed in another order together with their weights
  mode-perm  modes listed in another order within a q-point, consistently across volumes (Γ keeps its three acoustic slots)
  w-scale    all weights multiplied by a common positive factor
  col-perm   static-modulus columns reordered;  col-upper  column names upper-cased
  row-perm   rows of the static table reordered
  vol-rev / vol-shuffle   volume blocks of the phonon file reversed / shuffled: same results OR an error, never different numbers
  w-normalise   weights divided by their sum (multiplicities vs. normalised weights, Σw = 1)
  col-both      columns reordered AND re-spelled together (upper case, prefix "C_")
  phonon-all    q-perm, mode-perm and a weight factor composed in one copy
Oracle: every reported array (moduli both kinds on both bases, averages, velocities, V(T,P)) agrees to rounding
(|Δ| <= 1e-8 of the family scale).  The theorems (Properties/C13.lean) carry the algebraic core: permutation / scale
invariance of the weighted mode average, of the per-mode interpolation loop and of least squares.
"""
from __future__ import annotations

import copy

import numpy

from harness import synth, e2e
from harness.common import Ctx, Result, OracleFailure, make_rng, jsonable, family_close

ASSUMPTIONS = [
    "same physical data = same multiset of (q-point, weight, mode series) and same static table as a map volume -> component values",
    "qha and scipy see the re-presented arrays too; their own order-(in)dependence is part of what is observed, not modelled",
]
RTOL = 1e-8
TRANSFORMS = ["q-perm", "mode-perm", "w-scale", "w-scale-2", "col-perm", "col-upper", "row-perm", "vol-rev", "vol-shuffle",
              "w-normalise", "col-both", "phonon-all"]


def transform(ds: synth.DataSet, name: str, rng) -> tuple:
    """returns (dataset', writer-kwargs)"""
    d = copy.deepcopy(ds)
    kw = {}
    if name == "q-perm":
        if d.nq < 3: return None, None
        p = numpy.concatenate([[0], 1 + rng.permutation(d.nq - 1)])
        if (p == numpy.arange(d.nq)).all(): p[1], p[2] = p[2], p[1]
        d.q_coords = d.q_coords[p]; d.weights = d.weights[p]; d.freqs = d.freqs[:, p, :]
    elif name == "mode-perm":
        for q in range(d.nq):
            if q == 0:
                p = numpy.concatenate([numpy.arange(3), 3 + rng.permutation(d.np_ - 3)]) if d.np_ > 3 else numpy.arange(3)
            else:
                p = rng.permutation(d.np_)
            d.freqs[:, q, :] = d.freqs[:, q, p]
    elif name in ("w-scale", "w-scale-2"):
        # "all positive weight scale factors": ordinary and extreme ones (weights only matter up to a common factor)
        d.weights = d.weights * float(rng.choice([0.25, 16.0, 1.0 / 7.0, 2e-7, 1e-9, 1e6]))
    elif name == "w-normalise":
        d.weights = d.weights / float(numpy.sum(d.weights))
    elif name == "phonon-all":
        for sub in ("q-perm", "mode-perm", "w-scale"):
            d2, _ = transform(d, sub, rng)
            if d2 is not None: d = d2
    elif name in ("col-perm", "col-both"):
        if name == "col-both": kw["upper"] = True; kw["prefix"] = "c_"
        p = rng.permutation(len(d.static_keys))
        d.static_keys = [d.static_keys[i] for i in p]; d.static_table = d.static_table[:, p]
    elif name == "col-upper":
        kw["upper"] = True
    elif name == "row-perm":
        p = rng.permutation(d.nv)
        if (p == numpy.arange(d.nv)).all() or (p == numpy.arange(d.nv)[::-1]).all():
            p = numpy.roll(numpy.arange(d.nv), 2)                # neither the listed nor the reversed order
        kw["row_perm"] = p.tolist()
    elif name in ("vol-rev", "vol-shuffle"):
        p = numpy.arange(d.nv)[::-1] if name == "vol-rev" else rng.permutation(d.nv)
        if name == "vol-shuffle" and ((p == numpy.arange(d.nv)).all() or (p == numpy.arange(d.nv)[::-1]).all()):
            p = numpy.roll(numpy.arange(d.nv), 2)
        kw["vol_perm"] = [int(x) for x in p]
    return d, kw


def write(dirname, ds, kw):
    """synth.write_all with the presentation options"""
    import os, yaml
    os.makedirs(dirname, exist_ok=True)
    d = ds
    if "vol_perm" in kw:   # only the phonon file's blocks move
        d = copy.deepcopy(ds); p = kw["vol_perm"]
        d2 = copy.deepcopy(ds)
        d2.volumes = ds.volumes[p]; d2.energies = ds.energies[p]; d2.pressures = ds.pressures[p]; d2.freqs = ds.freqs[p]
        synth.write_input01(os.path.join(dirname, ds.settings["qha"]["input"]), d2)
    else:
        synth.write_input01(os.path.join(dirname, ds.settings["qha"]["input"]), ds)
    e = copy.deepcopy(ds)
    if "row_perm" in kw:
        p = kw["row_perm"]
        e.volumes = ds.volumes[p]; e.static_table = ds.static_table[p]
        if ds.lattice is not None: e.lattice = ds.lattice[p]
    synth.write_elast(os.path.join(dirname, ds.settings["elast"]["input"]), e, prefix=kw.get("prefix", "c"), upper=kw.get("upper", False))
    path = os.path.join(dirname, "settings.yaml")
    with open(path, "w") as fp:
        yaml.safe_dump(ds.settings, fp)
    return path


def observe(ds, kw):
    """run the real Calculator; return dict name -> array (or ('error', type))"""
    import cij.core.calculator as cc
    with e2e.scratch_dir() as d, e2e.quiet():
        path = write(d, ds, kw)
        try:
            c = cc.Calculator(path)
        except Exception as ex:
            return ("error", type(ex).__name__, str(ex)[:160])
        out = {}
        for k, v in c.modulus_isothermal.items(): out[f"cT{k.v[0]}{k.v[1]}"] = numpy.asarray(v)
        for k, v in c.modulus_adiabatic.items(): out[f"cS{k.v[0]}{k.v[1]}"] = numpy.asarray(v)
        out["v_array"] = numpy.asarray(c.v_array)
        out["p_tv"] = numpy.asarray(c.volume_base.pressures)
        for nm in ("bulk_modulus_voigt_reuss_hill", "shear_modulus_voigt_reuss_hill", "primary_velocities", "secondary_velocities"):
            out[nm] = numpy.asarray(getattr(c.volume_base, nm))
        try:      # a failing (T,V)->(T,P) conversion is an observation, not a crash of the harness
            pb = c.pressure_base
            for k, v in pb.modulus_adiabatic.items(): out[f"cS{k.v[0]}{k.v[1]}_tp"] = numpy.asarray(v)
            for nm in ("bulk_modulus_voigt_reuss_hill", "shear_modulus_voigt_reuss_hill", "primary_velocities", "secondary_velocities"):
                out[nm + "_tp"] = numpy.asarray(getattr(pb, nm))
            out["volumes_tp"] = numpy.asarray(pb.volumes)
        except Exception as ex:
            out["pressure_base_error:" + type(ex).__name__] = numpy.zeros(1)
        return out


def compare(a, b):
    """returns None if equal to rounding else (name, relerr)"""
    worst = None
    for k in a:
        if k not in b: return (k, "missing")
        ok, err, scale = family_close(a[k], b[k], rtol=RTOL)
        if not ok and (worst is None or err > worst[1]):
            worst = (k, err)
    for k in b:
        if k not in a: return (k, "extra")
    return worst


def gen_cases(ctx: Ctx):
    rng = ctx.rng
    cases = []
    interps = [("lsq_poly", 2), ("lsq_poly", 3), ("spline", 3), ("lagrange", 3), ("krogh", 4), ("pchip", 3)]
    n = 12 if ctx.thorough() else 3
    for i in range(n):
        interp, order = interps[i % len(interps)] if ctx.thorough() else [("lsq_poly", 2), ("spline", 3), ("lagrange", 3)][i]
        # node-based interpolants get data that is NOT a low-order polynomial in ln V (law "smooth") and a volume count for
        # which the thinned node subset is not mirror-symmetric, so a different node choice shows up in the numbers
        node_based = interp in ("lagrange", "krogh", "pchip", "akima")
        cases.append({"idx": i, "interp": interp, "order": order, "nv": (8 if node_based else int(rng.integers(6, 9))),
                      "nq": int(rng.integers(3, 5)),
                      "na": int(rng.integers(2, 4)), "system": [None, "orthorhombic", "trigonal7", "monoclinic"][i % 4],
                      "lattice": bool(i % 2), "law": ("smooth" if node_based else ["quadratic", "power"][i % 2])})
    # the smallest legal data sets: 4 or 5 volumes (static table rows = phonon volumes), with a lattice-parameter block
    for k in range(2 if ctx.thorough() else 1):
        cases.append({"idx": n + k, "interp": "lsq_poly", "order": 2, "nv": [4, 5][(ctx.seed + k) % 2], "nq": int(rng.integers(2, 4)),
                      "na": 2, "system": [None, "orthorhombic"][k % 2], "lattice": True, "law": "power", "lattice_curvature": True})
    return cases


def build(case, seed):
    rng = make_rng(seed, f"C13/{case['idx']}")
    keys = None if case["system"] else ["11", "22", "33", "12", "13", "23", "44", "55", "66", "15", "46"]
    settings = {"qha": {"settings": {"NT": 4, "DT": 300, "DT_SAMPLE": 300, "NTV": 10, "DELTA_P": 1.5, "DELTA_P_SAMPLE": 1.5}},
                "elast": {"settings": {"mode_gamma": {"interpolator": case["interp"], "order": case["order"]}}}}
    ds = synth.make_dataset(rng, nv=case["nv"], nq=case["nq"], na=case["na"], system=case["system"], keys=keys,
                            lattice=case["lattice"], law=case["law"], settings=settings, lattice_curvature=bool(case.get("lattice_curvature")))
    # accidental coincidences: neighbouring modes of a q-point that have EXACTLY the same frequency at the first listed volume only
    # (branches that cross there) — they are different modes with different volume dependence, in whatever order they are listed
    np_ = ds.freqs.shape[2]
    for q in range(ds.nq):
        m = 3 + (q % max(1, np_ - 4)) if np_ >= 5 else None
        if m is not None and m + 1 < np_:
            ds.freqs[0, q, m + 1] = ds.freqs[0, q, m]
    return ds


def evaluate(case, seed, which=None):
    ds = build(case, seed)
    base = observe(ds, {})
    fails, stats = [], {}
    if isinstance(base, tuple):
        return [("baseline-error:" + base[1], f"Calculator raised {base[1]} on the original presentation", base[2], None)], stats
    for name in (which or TRANSFORMS):
        rng = make_rng(seed, f"C13/{case['idx']}/{name}")
        d2, kw = transform(ds, name, rng)
        if d2 is None: stats[name] = "n/a"; continue
        obs = observe(d2, kw)
        if isinstance(obs, tuple):
            if name.startswith("vol-"):
                stats[name] = "rejected:" + obs[1]; continue          # allowed by the property
            fails.append((f"{name}:error:{obs[1]}", f"re-presentation '{name}' makes the calculation raise {obs[1]}", obs[2], name)); continue
        w = compare(base, obs)
        stats[name] = "same" if w is None else f"differs:{w[0]}"
        if w is not None:
            site = f"{name}:differs:{case['interp']}" if name.startswith("vol-") else f"{name}:differs"
            fails.append((site, f"re-presentation '{name}' changes {w[0]} by {w[1]} of its scale (interpolator {case['interp']})",
                          {"quantity": w[0], "relative_difference": w[1]}, name))
    return fails, stats


def run(ctx: Ctx) -> Result:
    res = Result()
    res.rule = ("case = (data set, re-presentation); data sets differ in interpolator/order/shape/system/law; 12 re-presentations each; "
                "non-trivial = the re-presented files differ textually from the original and the calculation ran or was rejected")
    seen = set()
    dist = {t: {} for t in TRANSFORMS}
    for case in gen_cases(ctx):
        if ctx.time_left() < 40: res.notes.append("time budget reached"); break
        fails, stats = evaluate(case, ctx.seed)
        for t, s in stats.items():
            res.evaluations += 1
            key = s.split(":")[0]
            dist[t][key] = dist[t].get(key, 0) + 1
            if s != "n/a": res.distinct_nontrivial += 1
            if s == "same" or s.startswith("rejected"): res.traces_validated += 1
        if len(res.samples) < 2: res.samples.append({"case": case, "outcomes": stats})
        for site, what, obs, name in fails:
            if site in seen: continue
            seen.add(site)
            res.oracle_failures.append(OracleFailure(what=what, input={"case": case, "seed": ctx.seed, "transform": name}, observed=obs,
                                                     expected="identical results to rounding (1e-8 of scale)", site=site))
    res.distribution = dist
    return res


def search(ctx: Ctx, res: Result):
    out, seen = [], set()
    c2 = Ctx(pid=ctx.pid, tier="thorough", seed=ctx.seed + 77, rng=make_rng(ctx.seed + 77, "C13s"), driver=ctx.driver,
             corpus_dir=ctx.corpus_dir, deadline=ctx.deadline)
    for case in gen_cases(c2):
        if ctx.time_left() < 30: break
        fails, _ = evaluate(case, ctx.seed + 77)
        for site, what, obs, name in fails:
            if site not in seen:
                seen.add(site)
                out.append(OracleFailure(what=what, input={"case": case, "seed": ctx.seed + 77, "transform": name}, observed=obs, site=site))
    return out


def replay(ctx: Ctx, payload):
    fails, _ = evaluate(payload["case"], payload["seed"], which=[payload["transform"]] if payload.get("transform") else None)
    return [OracleFailure(what=w, input=payload, observed=o, site=s) for s, w, o, _ in fails]
