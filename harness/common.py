"""Shared machinery of the cij verification harness.

* exact float transport (64-bit patterns), tolerance comparison *relative to the scale of the
  compared family* (never element-wise relative: many quantities are exactly 0),
* the Lean driver as a line-protocol subprocess,
* one PRNG (numpy PCG64 seeded from VERIF_SEED) from which every random choice derives,
* result containers used by run.py's violation logic.
"""
from __future__ import annotations

import json
import math
import os
import struct
import subprocess
import sys
import time
from dataclasses import dataclass, field
from typing import Any, Callable, Dict, Iterable, List, Optional

import numpy

VERIF = os.path.dirname(os.path.dirname(os.path.abspath(__file__)))
LEAN_DIR = os.path.join(VERIF, "lean")
REPO = os.environ.get("CIJ_REPO", "/repo")
DRIVER = os.path.join(LEAN_DIR, ".lake", "build", "bin", "driver")


# ----------------------------------------------------------------------------- floats on the wire
def f2b(x: float) -> int:
    """float -> IEEE-754 bit pattern (exact transport)."""
    return struct.unpack("<Q", struct.pack("<d", float(x)))[0]


def b2f(n: int) -> float:
    return struct.unpack("<d", struct.pack("<Q", int(n)))[0]


def enc(a) -> Any:
    """numpy array / nested list / scalar of floats -> nested lists of bit patterns."""
    if isinstance(a, numpy.ndarray):
        if a.ndim == 0:
            return f2b(float(a))
        return [enc(x) for x in a]
    if isinstance(a, (list, tuple)):
        return [enc(x) for x in a]
    return f2b(float(a))


def dec(j) -> Any:
    """nested lists of bit patterns -> nested lists of floats."""
    if isinstance(j, list):
        return [dec(x) for x in j]
    return b2f(j)


def dec_arr(j) -> numpy.ndarray:
    return numpy.array(dec(j), dtype=float)


# ----------------------------------------------------------------------------- comparison
def family_close(a, b, rtol: float = 1e-9, atol: float = 0.0, scale: Optional[float] = None):
    """Compare two arrays of the same shape: |a-b| <= rtol*max|family| + atol, NaN/inf compared as tags.
    Returns (ok, maxerr_relative_to_scale, scale)."""
    a = numpy.asarray(a, dtype=float)
    b = numpy.asarray(b, dtype=float)
    if a.shape != b.shape:
        return False, float("inf"), 0.0
    fa, fb = numpy.isfinite(a), numpy.isfinite(b)
    if not numpy.array_equal(fa, fb):
        return False, float("inf"), 0.0
    # non-finite entries must carry the same tag
    nf = ~fa
    if nf.any():
        ta = numpy.where(numpy.isnan(a[nf]), 0, numpy.sign(a[nf]))
        tb = numpy.where(numpy.isnan(b[nf]), 0, numpy.sign(b[nf]))
        if not numpy.array_equal(ta, tb):
            return False, float("inf"), 0.0
    if fa.sum() == 0:
        return True, 0.0, 0.0
    av, bv = a[fa], b[fa]
    s = scale if scale is not None else float(max(numpy.max(numpy.abs(av)), numpy.max(numpy.abs(bv))))
    err = float(numpy.max(numpy.abs(av - bv)))
    ok = err <= rtol * s + atol
    return ok, (err / s if s > 0 else (0.0 if err == 0 else float("inf"))), s


# ----------------------------------------------------------------------------- driver
class DriverError(RuntimeError):
    pass


class Driver:
    """The Lean model behind a pipe.  `ask(ops)` sends a batch of ops and returns the decoded answers."""

    def __init__(self, path: str = DRIVER):
        self.path = path
        self.calls = 0
        self.lines = 0

    def available(self) -> bool:
        return os.path.exists(self.path)

    def ask(self, ops: List[dict], timeout: float = 600.0) -> List[Any]:
        if not ops:
            return []
        if not self.available():
            raise DriverError(f"driver binary missing: {self.path}")
        data = "\n".join(json.dumps(o, separators=(",", ":")) for o in ops) + "\n"
        p = subprocess.run([self.path], input=data.encode(), stdout=subprocess.PIPE, stderr=subprocess.PIPE,
                           timeout=timeout)
        if p.returncode != 0:
            raise DriverError(f"driver exit {p.returncode}: {p.stderr.decode()[:2000]}")
        out = [json.loads(l) for l in p.stdout.decode().splitlines() if l.strip()]
        if len(out) != len(ops):
            raise DriverError(f"driver returned {len(out)} lines for {len(ops)} ops; stderr={p.stderr.decode()[:500]}")
        self.calls += 1
        self.lines += len(ops)
        for o, r in zip(ops, out):
            if isinstance(r, dict) and "driver_error" in r:
                raise DriverError(f"op {o.get('op')}: {r['driver_error']}")
        return out


# ----------------------------------------------------------------------------- results
@dataclass
class Disagreement:
    """model and implementation differ on an input (NOT a violation by itself)."""
    op: str
    input: Any
    impl: Any
    model: Any
    note: str = ""


@dataclass
class OracleFailure:
    """the property's own statement fails on the real code for a concrete input: a violation with replay."""
    what: str                      # short, stable description (used to match known findings)
    input: Any                     # JSON-serialisable replay payload understood by module.replay()
    observed: Any = None
    expected: Any = None
    site: str = ""                 # call site / key identifying *this* failure (known-findings match)


@dataclass
class Result:
    evaluations: int = 0
    distinct_nontrivial: int = 0
    rule: str = ""
    samples: List[Any] = field(default_factory=list)
    traces_validated: int = 0
    disagreements: List[Disagreement] = field(default_factory=list)
    oracle_failures: List[OracleFailure] = field(default_factory=list)
    contract_failures: List[str] = field(default_factory=list)   # external-library contract not met (reported, not a violation)
    distribution: Dict[str, Any] = field(default_factory=dict)
    notes: List[str] = field(default_factory=list)
    exhaustive: bool = False
    extra: Dict[str, Any] = field(default_factory=dict)


@dataclass
class Ctx:
    pid: str
    tier: str
    seed: int
    rng: numpy.random.Generator
    driver: Driver
    corpus_dir: str
    proof_ok: bool = True          # False when the theorems / translator no longer check (search harder)
    deadline: float = 0.0

    def thorough(self) -> bool:
        return self.tier == "thorough"

    def time_left(self) -> float:
        return self.deadline - time.time()

    def corpus(self) -> List[dict]:
        out = []
        if os.path.isdir(self.corpus_dir):
            for n in sorted(os.listdir(self.corpus_dir)):
                if n.endswith(".json"):
                    with open(os.path.join(self.corpus_dir, n)) as fp:
                        out.append(json.load(fp))
        return out


def make_rng(seed: int, stream: str = "") -> numpy.random.Generator:
    """All randomness derives from (seed, stream-name)."""
    import hashlib
    h = int.from_bytes(hashlib.sha256(stream.encode()).digest()[:8], "little") % (2**63) if stream else 0
    return numpy.random.Generator(numpy.random.PCG64([seed, h]))


def jsonable(x):
    """Best-effort conversion of numpy things to plain JSON (for samples / replay payloads)."""
    if isinstance(x, numpy.ndarray):
        return x.tolist()
    if isinstance(x, (numpy.floating,)):
        return float(x)
    if isinstance(x, (numpy.integer,)):
        return int(x)
    if isinstance(x, (numpy.bool_,)):
        return bool(x)
    if isinstance(x, dict):
        return {str(k): jsonable(v) for k, v in x.items()}
    if isinstance(x, (list, tuple)):
        return [jsonable(v) for v in x]
    if isinstance(x, float) and not math.isfinite(x):
        return repr(x)
    if isinstance(x, complex):
        return [x.real, x.imag]
    return x


def exc_tag(e: BaseException) -> str:
    """Map a Python exception onto the small enum the model uses."""
    return "error:" + type(e).__name__
