"""C10 — Voigt/standard index algebra: exhaustive correspondence + independent oracle.

The domain is finite, so nothing is sampled: every one of the 81 tuples, 36 pairs, 9+6 strain spellings,
each in positional-int, str and int spelling, plus the out-of-range neighbourhood (indices 0..4 / 0..7 and
malformed strings) goes through the real `c_` / `e_` and through the Lean model.
"""
from __future__ import annotations

import itertools

from harness.common import Ctx, Result, Disagreement, OracleFailure

ASSUMPTIONS = [
    "Python NamedTuple __eq__/__hash__ are structural (checked: == and hash compared for all 21x21 keys and all 81x81 tuples)",
    "every Python exception type counts as 'rejected'",
]


def _impl():
    from cij.util import c_, e_
    return c_, e_


def canon_c(k):
    return {"s": list(k.s), "v": list(k.v), "mult": int(k.multiplicity), "long": bool(k.is_longitudinal),
            "off": bool(k.is_off_diagonal), "shear": bool(k.is_shear), "calc": k.calc_type.name}


def canon_e(s):
    return {"s": list(s.s), "v": int(s.v)}


def call(fn, canon, args):
    try:
        return canon(fn(*args))
    except Exception as e:  # RuntimeError, ValueError, TypeError, RecursionError, KeyError -> rejected
        return "error"


def all_inputs():
    """(op, args) for the whole domain, each exactly once."""
    ops = []
    r3, r6 = range(1, 4), range(1, 7)
    for t in itertools.product(r3, repeat=4):
        ops.append(("c_", list(t)))
        ops.append(("c_", ["".join(map(str, t))]))
        ops.append(("c_", [int("".join(map(str, t)))]))
    for p in itertools.product(r6, repeat=2):
        ops.append(("c_", list(p)))
        ops.append(("c_", ["".join(map(str, p))]))
        ops.append(("c_", [int("".join(map(str, p)))]))
    for p in itertools.product(r3, repeat=2):
        ops.append(("e_", list(p)))
        ops.append(("e_", ["".join(map(str, p))]))
        ops.append(("e_", [int("".join(map(str, p)))]))
    for v in r6:
        ops.append(("e_", [v]))
        ops.append(("e_", [str(v)]))
    # out-of-range neighbourhood
    seen = {(o, tuple(a)) for o, a in ops}
    def add(o, a):
        if (o, tuple(a)) not in seen:
            seen.add((o, tuple(a))); ops.append((o, a))
    for t in itertools.product(range(0, 5), repeat=4):
        add("c_", list(t))
        s = "".join(map(str, t))
        add("c_", [s])
        if t[0] != 0:
            add("c_", [int(s)])
    for p in itertools.product(range(0, 8), repeat=2):
        add("c_", list(p))
        s = "".join(map(str, p))
        add("c_", [s])
        if p[0] != 0:
            add("c_", [int(s)])
    for p in itertools.product(range(0, 5), repeat=2):
        add("e_", list(p))
        add("e_", ["".join(map(str, p))])
        if p[0] != 0:
            add("e_", [int("".join(map(str, p)))])
    for v in range(-2, 12):
        add("e_", [v]); add("c_", [v])
        if v >= 0:
            add("e_", [str(v)]); add("c_", [str(v)])
    for s in ["", "123", "12345", "1a", "-12", "1 2", "a", "11111", "111"]:
        add("c_", [s]); add("e_", [s])
    for n in [123, 12345, -12, -1123, 111, 100, 1000, 99999]:
        add("c_", [n]); add("e_", [n])
    add("c_", [1, 2, 3]); add("c_", []); add("e_", []); add("c_", [1, 1, 1, 1, 1]); add("e_", [1, 2, 3])
    return ops


def orbit(t):
    i, j, k, l = t
    return {(i, j, k, l), (j, i, k, l), (i, j, l, k), (j, i, l, k), (k, l, i, j), (l, k, i, j), (k, l, j, i), (l, k, j, i)}


STD = {1: (1, 1), 2: (2, 2), 3: (3, 3), 4: (2, 3), 5: (1, 3), 6: (1, 2)}   # the documented map (oracle's own copy)


def oracle(check: str, payload):
    """Evaluate one clause of the property statement on the real code. Returns None if it holds,
    else (observed, expected)."""
    c_, e_ = _impl()
    if check == "eq_iff_orbit":
        s, t = tuple(payload["s"]), tuple(payload["t"])
        a, b = c_(*s), c_(*t)
        exp = t in orbit(s)
        obs = (a == b)
        if obs != exp: return (obs, exp)
        if obs and hash(a) != hash(b): return ("hash differs", "hash equal")
        return None
    if check == "count21":
        keys = {c_(*t) for t in itertools.product(range(1, 4), repeat=4)}
        keys2 = {c_(*p) for p in itertools.product(range(1, 7), repeat=2)}
        if len(keys) != 21 or keys != keys2: return ((len(keys), len(keys2), len(keys | keys2)), (21, 21, 21))
        return None
    if check == "spelling":
        t = payload["t"]
        s = "".join(map(str, t))
        a = c_(*t)
        for other in (c_(s), c_(int(s))):
            if other != a or hash(other) != hash(a): return (repr(other), repr(a))
        return None
    if check == "two_vs_four":
        p = payload["p"]
        a = c_(*p); b = c_(*STD[p[0]], *STD[p[1]])
        if a != b: return (repr(a), repr(b))
        return None
    if check == "roundtrip":
        p = payload["p"]
        k = c_(*p)
        exp_v = tuple(sorted(p))
        if tuple(k.v) != exp_v: return (k.v, exp_v)
        if c_(*k.s) != k or c_(*k.v) != k: return ("roundtrip differs", repr(k))
        st = STD[exp_v[0]] + STD[exp_v[1]]
        if tuple(k.s) != st: return (k.s, st)
        return None
    if check == "voigt_map":
        for v, st in STD.items():
            if tuple(e_(v).s) != st or e_(*st).v != v or e_(st[1], st[0]).v != v: return (repr(e_(v)), st)
        return None
    if check == "multiplicity":
        p = payload["p"]
        k = c_(*p)
        n = sum(1 for t in itertools.product(range(1, 4), repeat=4) if c_(*t) == k)
        if k.multiplicity != n: return (k.multiplicity, n)
        return None
    if check == "multiplicity_sum":
        keys = {c_(*t) for t in itertools.product(range(1, 4), repeat=4)}
        s = sum(k.multiplicity for k in keys)
        if s != 81: return (s, 81)
        return None
    if check == "classification":
        keys = {c_(*p) for p in itertools.product(range(1, 7), repeat=2)}
        cnt = [0, 0, 0]
        for k in keys:
            flags = (bool(k.is_longitudinal), bool(k.is_off_diagonal), bool(k.is_shear))
            hi = max(k.v)
            exp = (k.v[0] == k.v[1] and hi <= 3, k.v[0] != k.v[1] and hi <= 3, hi >= 4)
            if flags != exp: return ((repr(k), flags), exp)
            if k.calc_type.name != ["LONGITUDINAL", "OFF_DIAGONAL", "SHEAR"][exp.index(True)]:
                return ((repr(k), k.calc_type.name), exp)
            for i in range(3): cnt[i] += flags[i]
        if cnt != [3, 3, 15]: return (cnt, [3, 3, 15])
        return None
    if check == "reject":
        fn = c_ if payload["op"] == "c_" else e_
        try:
            r = fn(*payload["args"])
        except Exception:
            return None
        return (repr(r), "rejected")
    raise ValueError(check)


def in_range(op, args):
    """independent statement of which spellings are in range"""
    def digits(a):
        if isinstance(a, str):
            if a == "" or not a.isdigit(): return None
            return [int(c) for c in a]
        if a < 0: return None
        return [int(c) for c in str(a)]
    if len(args) == 1:
        d = digits(args[0])
        if d is None: return False
    else:
        d = list(args)
        if not all(isinstance(x, int) for x in d): return False
    if op == "c_":
        if len(d) == 4: return all(1 <= x <= 3 for x in d)
        if len(d) == 2: return all(1 <= x <= 6 for x in d)
        return False
    if len(d) == 2: return all(1 <= x <= 3 for x in d)
    if len(d) == 1: return 1 <= d[0] <= 6
    return False


def oracle_cases():
    cases = [("count21", {}), ("voigt_map", {}), ("multiplicity_sum", {}), ("classification", {})]
    tuples = list(itertools.product(range(1, 4), repeat=4))
    for s in tuples:
        for t in tuples:
            cases.append(("eq_iff_orbit", {"s": list(s), "t": list(t)}))
        cases.append(("spelling", {"t": list(s)}))
    for p in itertools.product(range(1, 7), repeat=2):
        cases.append(("two_vs_four", {"p": list(p)}))
        cases.append(("roundtrip", {"p": list(p)}))
        cases.append(("multiplicity", {"p": list(p)}))
    for op, args in all_inputs():
        if not in_range(op, args):
            cases.append(("reject", {"op": op, "args": args}))
    return cases


def run(ctx: Ctx) -> Result:
    c_, e_ = _impl()
    res = Result()
    res.exhaustive = True
    res.rule = ("complete finite domain: 81 tuples + 36 pairs + 9 strain pairs + 6 strain Voigt indices, each in positional/str/int "
                "spelling, plus indices 0..4 (standard) and 0..7 (Voigt) and malformed spellings; a case is one (function, argument "
                "list); all are distinct; non-trivial = every case (each exercises a distinct dispatch path or value)")
    inputs = all_inputs()
    ops = [{"op": op, "args": args} for op, args in inputs]
    model = ctx.driver.ask(ops)
    n_err = 0
    for (op, args), m in zip(inputs, model):
        impl = call(c_ if op == "c_" else e_, canon_c if op == "c_" else canon_e, args)
        res.evaluations += 1
        if impl == "error": n_err += 1
        if impl != m:
            res.disagreements.append(Disagreement(op, args, impl, m))
        else:
            res.traces_validated += 1
    res.distinct_nontrivial = len({(op, tuple(map(repr, a))) for op, a in inputs})
    res.samples = [{"op": "c_", "args": [1, 1, 2, 3], "impl": call(c_, canon_c, [1, 1, 2, 3])},
                   {"op": "c_", "args": ["46"], "impl": call(c_, canon_c, ["46"])},
                   {"op": "c_", "args": [5], "impl": call(c_, canon_c, [5])},
                   {"op": "e_", "args": [3, 1], "impl": call(e_, canon_e, [3, 1])}]
    # the property's own statement on the real code (independent of the model)
    cases = oracle_cases()
    n_or = 0
    for check, payload in cases:
        n_or += 1
        try:
            r = oracle(check, payload)
        except Exception as e:
            r = (f"exception {type(e).__name__}: {e}", "no exception")
        if r is not None:
            res.oracle_failures.append(OracleFailure(
                what=f"{check} fails", input={"check": check, "payload": payload}, observed=r[0], expected=r[1],
                site=f"{check}:{payload}"))
            if len(res.oracle_failures) >= 10: break
    res.distribution = {"correspondence_cases": len(inputs), "rejected_by_impl": n_err,
                        "accepted_by_impl": len(inputs) - n_err, "oracle_clauses_evaluated": n_or}
    return res


def search(ctx: Ctx, res: Result):
    # the domain is finite and run() already evaluated the oracle on all of it
    return []


def replay(ctx: Ctx, payload):
    r = oracle(payload["check"], payload["payload"])
    if r is None: return []
    return [OracleFailure(what=f"{payload['check']} fails", input=payload, observed=r[0], expected=r[1])]
