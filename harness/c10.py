"""C10 — Voigt/standard index algebra: exhaustive correspondence + independent oracle.

The domain is finite, so nothing is sampled: every one of the 81 tuples, 36 pairs, 9+6 strain spellings,
each in positional-int, str and int spelling, plus the out-of-range neighbourhood (indices 0..4 / 0..7 and
malformed strings) goes through the real `c_` / `e_` and through
  (a) the hand-written Lean model (`CijModel/Voigt.lean`, ops `c_` / `e_`), and
  (b) the TRANSLATED SOURCE: `cij/util/voigt.py` re-emitted on this run as a `PyLite.Module` literal
      (`lean/Generated/VoigtSrc.lean`) and run by the PyLite evaluator inside the Lean driver (op `c10.src`) — every view
      (`s v standard voigt multiplicity is_* calc_type repr`), exception KINDS and the messages of explicit `raise`s are
      compared.  (b) also gets a malformed stream (bools, None, negative / long ints, non-digit strings, nested tuples,
      wrong arities; fixed list + seeded random mixtures): it validates the evaluator's Python semantics against CPython.
      `unsupported` / `out_of_fuel` where CPython answers is a broken tie, never a pass.
The domain the kernel decides (`Cij.VoigtSrc.domainC/E`, op `c10.domain`) is checked to be exactly `all_inputs()`.

Beyond the finite domain the theorems `voigt_model_is_source_ints` / `voigt_source_rejects_standard*` / `voigt_source_modulus_integer`
speak about ALL integers (two / four positional integers of any size and sign; one integer below 10^1900, which the source spells
with `str(n)`).  Their tie to CPython is a SAMPLED stream (`wide_int_stream`, seeded): every two-digit integer, the digit-count
boundaries, powers of ten +-1 up to 10^30, random integers up to 10^12 and negative ones as single arguments; pairs and quadruples
with both indices negative / both >= 4 of magnitudes up to 10^9 and next to each other.  Each goes through the real code, the hand
model, the translated source under PyLite (value, views, exception kind, message) and the oracle `input_spec`.
"""
from __future__ import annotations

import itertools

from harness.common import Ctx, Result, Disagreement, OracleFailure

ASSUMPTIONS = [
    "Python NamedTuple __eq__/__hash__ are structural (checked: == and hash compared for all 21x21 keys and all 81x81 tuples)",
    "every Python exception type counts as 'rejected'",
    "PyLite covers None/bool/int/ASCII str/tuple arguments; floats, bytes, lists, dicts, non-ASCII strings and keyword "
    "arguments are outside it (the evaluator answers `unsupported`, the harness does not send them)",
    "CPython's recursion limit (1000 frames incl. the caller's) is modelled by PyLite's `frames` = 60: same exception KIND "
    "(RecursionError) for the one unbounded recursion of voigt.py, C_.create(<one digit>), different depth",
]

TRUSTED_EXTRA = [
    "tools/gens/voigt_src.py + tools/gens/_pylite.py (ast -> PyLite.Module translator, ~300 lines): a mistranslation is a "
    "defect of the trusted base; it is exercised on every run by the differential test below",
    "lean/CijModel/PyLite.lean: the PyLite evaluator IS the semantics the `voigt_model_is_source*` theorems give to the "
    "translated source.  Its agreement with CPython 3.12 is TESTED, not proved: on this run the translated module and the real "
    "cij.util.c_/e_ were compared on the complete C10 domain and on the malformed stream (counts in input_distribution: "
    "src_cases, src_malformed_cases; value, every view, exception kind, message of explicit raises)",
    "interpreter-raised exception messages, floats and everything listed under NOT implemented in the header of PyLite.lean "
    "are outside the evaluator (they evaluate to `unsupported`, which the harness reports as a broken tie if reached)",
]


def _impl():
    from cij.util import c_, e_
    return c_, e_


def canon_c(k):
    return {"s": list(k.s), "v": list(k.v), "mult": int(k.multiplicity), "long": bool(k.is_longitudinal),
            "off": bool(k.is_off_diagonal), "shear": bool(k.is_shear), "calc": k.calc_type.name}


def canon_e(s):
    return {"s": list(s.s), "v": int(s.v)}


def call(fn, canon, args):
    try:
        return canon(fn(*args))
    except Exception as e:  # RuntimeError, ValueError, TypeError, RecursionError, KeyError -> rejected
        return "error"


def all_inputs():
    """(op, args) for the whole domain, each exactly once."""
    ops = []
    r3, r6 = range(1, 4), range(1, 7)
    for t in itertools.product(r3, repeat=4):
        ops.append(("c_", list(t)))
        ops.append(("c_", ["".join(map(str, t))]))
        ops.append(("c_", [int("".join(map(str, t)))]))
    for p in itertools.product(r6, repeat=2):
        ops.append(("c_", list(p)))
        ops.append(("c_", ["".join(map(str, p))]))
        ops.append(("c_", [int("".join(map(str, p)))]))
    for p in itertools.product(r3, repeat=2):
        ops.append(("e_", list(p)))
        ops.append(("e_", ["".join(map(str, p))]))
        ops.append(("e_", [int("".join(map(str, p)))]))
    for v in r6:
        ops.append(("e_", [v]))
        ops.append(("e_", [str(v)]))
    # out-of-range neighbourhood
    seen = {(o, tuple(a)) for o, a in ops}
    def add(o, a):
        if (o, tuple(a)) not in seen:
            seen.add((o, tuple(a))); ops.append((o, a))
    for t in itertools.product(range(0, 5), repeat=4):
        add("c_", list(t))
        s = "".join(map(str, t))
        add("c_", [s])
        if t[0] != 0:
            add("c_", [int(s)])
    for p in itertools.product(range(0, 8), repeat=2):
        add("c_", list(p))
        s = "".join(map(str, p))
        add("c_", [s])
        if p[0] != 0:
            add("c_", [int(s)])
    for p in itertools.product(range(0, 5), repeat=2):
        add("e_", list(p))
        add("e_", ["".join(map(str, p))])
        if p[0] != 0:
            add("e_", [int("".join(map(str, p)))])
    for v in range(-2, 12):
        add("e_", [v]); add("c_", [v])
        if v >= 0:
            add("e_", [str(v)]); add("c_", [str(v)])
    for s in ["", "123", "12345", "1a", "-12", "1 2", "a", "11111", "111"]:
        add("c_", [s]); add("e_", [s])
    for n in [123, 12345, -12, -1123, 111, 100, 1000, 99999]:
        add("c_", [n]); add("e_", [n])
    add("c_", [1, 2, 3]); add("c_", []); add("e_", []); add("c_", [1, 1, 1, 1, 1]); add("e_", [1, 2, 3])
    return ops


def wide_int_stream(rng, thorough):
    """(op, args) outside the decided domain: integers of any size and sign (see the module docstring).  Deterministic part first,
    then the seeded part; duplicates and members of the decided domain removed."""
    out = []
    for n in range(10, 100):
        out.append(("c_", [n])); out.append(("e_", [n]))
    edge = [9, 99, 100, 101, 999, 1000, 1001, 1111, 1123, 2312, 3333, 3213, 4111, 1411, 1141, 1114, 9999, 10000, 10001, 11111, 99999,
            100000, 123456, 10 ** 12, 10 ** 12 - 1, 10 ** 12 + 1, 11 * 10 ** 11 + 23, -1, -2, -9, -10, -11, -12, -46, -99, -100, -1123,
            -2312, -10 ** 12]
    for k in range(5, 31):
        edge += [10 ** k, 10 ** k - 1, 10 ** k + 1]
    for n in edge:
        out.append(("c_", [n])); out.append(("e_", [n]))
    n_rand = 400 if thorough else 120
    for _ in range(n_rand):
        kind = int(rng.integers(6))
        if kind == 0: n = int(rng.integers(100, 1000))
        elif kind == 1: n = int(rng.integers(1000, 10000))
        elif kind == 2: n = int("".join(str(int(rng.integers(1, 4))) for _ in range(4)))      # four digits in 1..3: accepted
        elif kind == 3: n = int(rng.integers(10000, 10 ** 12))
        elif kind == 4: n = -int(rng.integers(1, 10 ** 12))
        else: n = int(rng.integers(10 ** 12, 2 ** 62)) * int(rng.integers(1, 2 ** 30))
        out.append(("c_" if rng.integers(2) else "e_", [n]))
    # pairs whose two indices have the same sign and are both outside 1..3: `sorted((i, j))` decides between two magnitudes
    near = [-3, -2, -1, 4, 5, 6, 7, 8, 9, 10, 11]
    def big(): return int(rng.integers(4, 10 ** 9))
    def neg(): return -int(rng.integers(1, 10 ** 9))
    pairs = [(a, b) for a in near for b in near]
    for _ in range(300 if thorough else 80):
        f = (big, neg)[int(rng.integers(2))]
        a, b = f(), f()
        pairs += [(a, b), (b, a), (a, a), (a, a + 1), (a + 1, a)]
    for _ in range(60 if thorough else 20):                                              # one index in range, one far away
        a = int(rng.integers(1, 4)); b = (big, neg)[int(rng.integers(2))]()
        pairs += [(a, b), (b, a)]
    for a, b in pairs:
        out.append(("e_", [a, b])); out.append(("c_", [a, b]))
    good = [(1, 1), (2, 2), (3, 3), (2, 3), (3, 2), (1, 3), (3, 1), (1, 2), (2, 1)]
    for _ in range(300 if thorough else 80):
        a, b = pairs[int(rng.integers(len(pairs)))]
        g = good[int(rng.integers(len(good)))]
        h = pairs[int(rng.integers(len(pairs)))]
        out.append(("c_", [a, b, g[0], g[1]])); out.append(("c_", [g[0], g[1], a, b])); out.append(("c_", [a, b, h[0], h[1]]))
    dom = {(o, tuple(map(repr, a))) for o, a in all_inputs()}
    seen, res = set(), []
    for o, a in out:
        k = (o, tuple(map(repr, a)))
        if k in dom or k in seen: continue
        seen.add(k); res.append((o, a))
    return res


# ----------------------------------------------------------------------------- translated source (PyLite) vs CPython
def enc(v):
    """typed encoding of a CPython value — the same encoding as `valJson` in lean/CijModel/Ops/C10.lean"""
    import enum
    if v is None or isinstance(v, bool) or isinstance(v, int) or isinstance(v, str): return v
    if isinstance(v, enum.Enum): return {"e": f"{type(v).__name__}.{v.name}"}
    if isinstance(v, tuple) and hasattr(v, "_fields"): return {"r": type(v).__name__, "f": [enc(x) for x in v]}
    if isinstance(v, tuple): return {"t": [enc(x) for x in v]}
    if isinstance(v, list): return {"l": [enc(x) for x in v]}
    return {"other": type(v).__name__}


def py_args(args):
    """JSON argument list -> the Python arguments (arrays are tuples)"""
    return [tuple(py_args(a)) if isinstance(a, list) else a for a in args]


def safe_str(x, f=str):
    """`str` / `repr` of a value or an exception of the code under test; formatting a broken object (a NamedTuple outside the
    tables: its `__repr__` raises KeyError, whose own `str` calls that `__repr__` again) must not take the harness down"""
    try:
        return f(x)
    except Exception as e2:
        return f"<{type(x).__name__}: {f.__name__} raised {type(e2).__name__}>"


def exc_json(e):
    return {"exc": type(e).__name__, "msg": safe_str(e)}


C_VIEWS = ["s", "v", "standard", "voigt", "multiplicity", "is_longitudinal", "is_off_diagonal", "is_shear", "calc_type", "__repr__"]
E_VIEWS = ["s", "v", "standard", "voigt", "__repr__"]


def src_canon(fn, args):
    """the real function on `args`: value + every view, or the exception"""
    try:
        r = fn(*py_args(args))
    except Exception as e:
        return exc_json(e)
    out = {"ok": enc(r)}
    views = C_VIEWS if type(r).__name__ == "ModulusRepresentation" else E_VIEWS if type(r).__name__ == "StrainRepresentation" else []
    for p in views:
        try:
            out[p] = {"ok": enc(repr(r) if p == "__repr__" else getattr(r, p))}   # a raising view is recorded as such, below
        except Exception as e:
            out[p] = exc_json(e)
    return out


def same_result(py, ln):
    """CPython result vs PyLite result.  Values are compared as canonical JSON text (so True != 1); an exception by kind, and
    by message too when PyLite carries one (explicit `raise`; interpreter-raised messages are not modelled)."""
    import json
    if not isinstance(ln, dict) or "unsupported" in ln or "out_of_fuel" in ln: return False
    if "exc" in py or "exc" in ln:
        if py.get("exc") != ln.get("exc"): return False
        return "msg" not in ln or ln["msg"] == py.get("msg")
    if set(py) != set(ln): return False
    for k in py:
        if k == "ok":
            if json.dumps(py[k], sort_keys=True) != json.dumps(ln[k], sort_keys=True): return False
        elif not same_result(py[k], ln[k]): return False
    return True


MALFORMED_FIXED = [
    # bools / None in every position
    [True], [False], [None], [True, 2], [2, True], [False, 1], [None, 1], [1, None], [None, None], [True, True],
    [True, 1, 2, 3], [1, None, 2, 3], [1, 2, 3, None], [True, True, True, True], [None, None, None, None],
    # negative / long ints
    [-1], [-5], [-12], [-1123], [-1, 2], [2, -1], [-1, -1], [1, 2, -3, 1], [10], [99], [100], [1000], [2312], [123456], [10 ** 12],
    [7, 7], [0, 0], [6, 6, 6, 6], [3, 3, 3, 4],
    # strings with non-digits, signs, blanks, underscores
    ["1a"], ["a1"], ["-1"], ["+1"], [" 1"], ["1 "], ["1_2"], ["1.0"], ["1e1"], ["0x1"], ["12\n"], ["\t12"], ["'"], ["\""], ["\\"],
    ["%d"], ["{i}"], ["1", "2"], ["1", 2], [1, "2"], ["12", "34"], ["1", "1", "2", "3"], ["a", "b"], ["ab", 1],
    # nested tuples
    [[1, 2]], [[1, 2], [3, 4]], [[1], 2], [1, [2]], [[1, 1], [2, 3]], [[]], [[], []], [["a", 1]], [[None, True]], [[[1]]],
    # wrong arities
    [], [1, 2, 3], [1, 2, 3, 1, 2], [1, 2, 3, 1, 2, 3], ["1", "2", "3"], ["123"], ["12345"], [""], ["", ""],
]


def malformed_stream(rng, n):
    pool = [None, True, False, -3, -1, 0, 1, 2, 3, 4, 5, 6, 7, 9, 10, 11, 12, 23, 66, 77, 123, 1123, 3333, 4111, 12345,
            "", "0", "1", "3", "6", "7", "11", "12", "23", "32", "46", "64", "77", "1123", "3211", "1a", "-1", " 2", "2 ", "1_1", "abc",
            [1, 2], [2, 3], [], ["1"], [None]]
    out = []
    for _ in range(n):
        k = int(rng.choice([0, 1, 1, 1, 2, 2, 2, 3, 4, 4, 4, 5, 6]))
        out.append([pool[int(rng.integers(len(pool)))] for _ in range(k)])
    return out


def orbit(t):
    i, j, k, l = t
    return {(i, j, k, l), (j, i, k, l), (i, j, l, k), (j, i, l, k), (k, l, i, j), (l, k, i, j), (k, l, j, i), (l, k, j, i)}


STD = {1: (1, 1), 2: (2, 2), 3: (3, 3), 4: (2, 3), 5: (1, 3), 6: (1, 2)}   # the documented map (oracle's own copy)


def oracle(check: str, payload):
    """Evaluate one clause of the property statement on the real code. Returns None if it holds,
    else (observed, expected)."""
    c_, e_ = _impl()
    if check == "eq_iff_orbit":
        s, t = tuple(payload["s"]), tuple(payload["t"])
        a, b = c_(*s), c_(*t)
        exp = t in orbit(s)
        obs = (a == b)
        if obs != exp: return (obs, exp)
        if obs and hash(a) != hash(b): return ("hash differs", "hash equal")
        return None
    if check == "count21":
        keys = {c_(*t) for t in itertools.product(range(1, 4), repeat=4)}
        keys2 = {c_(*p) for p in itertools.product(range(1, 7), repeat=2)}
        if len(keys) != 21 or keys != keys2: return ((len(keys), len(keys2), len(keys | keys2)), (21, 21, 21))
        return None
    if check == "spelling":
        t = payload["t"]
        s = "".join(map(str, t))
        a = c_(*t)
        for other in (c_(s), c_(int(s))):
            if other != a or hash(other) != hash(a): return (safe_str(other, repr), safe_str(a, repr))
        return None
    if check == "two_vs_four":
        p = payload["p"]
        a = c_(*p); b = c_(*STD[p[0]], *STD[p[1]])
        if a != b: return (safe_str(a, repr), safe_str(b, repr))
        return None
    if check == "roundtrip":
        p = payload["p"]
        k = c_(*p)
        exp_v = tuple(sorted(p))
        if tuple(k.v) != exp_v: return (k.v, exp_v)
        if c_(*k.s) != k or c_(*k.v) != k: return ("roundtrip differs", safe_str(k, repr))
        st = STD[exp_v[0]] + STD[exp_v[1]]
        if tuple(k.s) != st: return (k.s, st)
        return None
    if check == "voigt_map":
        for v, st in STD.items():
            if tuple(e_(v).s) != st or e_(*st).v != v or e_(st[1], st[0]).v != v: return (safe_str(e_(v), repr), st)
        return None
    if check == "multiplicity":
        p = payload["p"]
        k = c_(*p)
        n = sum(1 for t in itertools.product(range(1, 4), repeat=4) if c_(*t) == k)
        if k.multiplicity != n: return (k.multiplicity, n)
        return None
    if check == "multiplicity_sum":
        keys = {c_(*t) for t in itertools.product(range(1, 4), repeat=4)}
        s = sum(k.multiplicity for k in keys)
        if s != 81: return (s, 81)
        return None
    if check == "classification":
        keys = {c_(*p) for p in itertools.product(range(1, 7), repeat=2)}
        cnt = [0, 0, 0]
        for k in keys:
            flags = (bool(k.is_longitudinal), bool(k.is_off_diagonal), bool(k.is_shear))
            hi = max(k.v)
            exp = (k.v[0] == k.v[1] and hi <= 3, k.v[0] != k.v[1] and hi <= 3, hi >= 4)
            if flags != exp: return ((safe_str(k, repr), flags), exp)
            if k.calc_type.name != ["LONGITUDINAL", "OFF_DIAGONAL", "SHEAR"][exp.index(True)]:
                return ((safe_str(k, repr), k.calc_type.name), exp)
            for i in range(3): cnt[i] += flags[i]
        if cnt != [3, 3, 15]: return (cnt, [3, 3, 15])
        return None
    if check == "input_spec":
        op, args = payload["op"], payload["args"]
        obs = call(c_ if op == "c_" else e_, canon_c if op == "c_" else canon_e, args)
        exp = expected(op, args)
        if obs != exp: return (obs, exp)
        return None
    if check == "sequence":
        # the same statement for a short HISTORY of calls: every call must answer what the property demands of its spelling,
        # whatever was called before (catches state shared between calls / between c_ and e_; replayable in a fresh process)
        for op, args in payload["seq"]:
            obs = call(c_ if op == "c_" else e_, canon_c if op == "c_" else canon_e, args)
            exp = expected(op, args)
            if obs != exp: return ({"call": [op, args], "observed": obs}, {"call": [op, args], "expected": exp})
        return None
    if check == "reject":
        fn = c_ if payload["op"] == "c_" else e_
        try:
            r = fn(*payload["args"])
        except Exception:
            return None
        return (safe_str(tuple(r), repr) + " (a " + type(r).__name__ + ")", "rejected")
    raise ValueError(check)


def digits_of(args):
    """the index digits a spelling denotes (None: not a spelling of digits)"""
    def digits(a):
        if isinstance(a, str):
            if a == "" or not (a.isascii() and a.isdigit()): return None
            return [int(c) for c in a]
        if isinstance(a, bool) or not isinstance(a, int) or a < 0: return None
        return [int(c) for c in str(a)]
    if len(args) == 1:
        return digits(args[0])
    d = list(args)
    if not all(isinstance(x, int) and not isinstance(x, bool) for x in d): return None
    return d


def in_range(op, args):
    """independent statement of which spellings are in range"""
    d = digits_of(args)
    if d is None: return False
    if op == "c_":
        if len(d) == 4: return all(1 <= x <= 3 for x in d)
        if len(d) == 2: return all(1 <= x <= 6 for x in d)
        return False
    if len(d) == 2: return all(1 <= x <= 3 for x in d)
    if len(d) == 1: return 1 <= d[0] <= 6
    return False


INV = {v: k for k, v in STD.items()}


def expected(op, args):
    """What the property statement demands of ONE spelling, from the documented map alone (no code under test, no model):
    "error" for an out-of-range / malformed spelling, else the canonical key and its views."""
    if not in_range(op, args): return "error"
    d = digits_of(args)
    if op == "c_":
        if len(d) == 4: va, vb = INV[tuple(sorted(d[:2]))], INV[tuple(sorted(d[2:]))]
        else: va, vb = d
        lo, hi = sorted((va, vb))
        st = STD[lo] + STD[hi]
        flags = (lo == hi and hi <= 3, lo != hi and hi <= 3, hi >= 4)
        return {"s": list(st), "v": [lo, hi], "mult": len(orbit(st)), "long": flags[0], "off": flags[1], "shear": flags[2],
                "calc": ["LONGITUDINAL", "OFF_DIAGONAL", "SHEAR"][flags.index(True)]}
    if len(d) == 2:
        st = tuple(sorted(d)); v = INV[st]
    else:
        v = d[0]; st = STD[v]
    return {"s": list(st), "v": v}


def oracle_cases():
    cases = [("count21", {}), ("voigt_map", {}), ("multiplicity_sum", {}), ("classification", {})]
    tuples = list(itertools.product(range(1, 4), repeat=4))
    for s in tuples:
        for t in tuples:
            cases.append(("eq_iff_orbit", {"s": list(s), "t": list(t)}))
        cases.append(("spelling", {"t": list(s)}))
    for p in itertools.product(range(1, 7), repeat=2):
        cases.append(("two_vs_four", {"p": list(p)}))
        cases.append(("roundtrip", {"p": list(p)}))
        cases.append(("multiplicity", {"p": list(p)}))
    for op, args in all_inputs():
        if not in_range(op, args):
            cases.append(("reject", {"op": op, "args": args}))
        cases.append(("input_spec", {"op": op, "args": args}))
    # two-index calls far outside the decided ring: multi-digit integers are NOT Voigt / standard indices (c_(11, 22) is not c12,
    # e_(1, 12) is not a strain) — "out-of-range indices are rejected" for every integer, sampled densely here
    wide = list(range(-3, 41)) + [45, 46, 55, 56, 64, 65, 66, 67, 77, 99, 100, 101, 111, 112, 123, 140]
    seen = {(op, tuple(a)) for op, a in all_inputs() if all(isinstance(x, int) and not isinstance(x, bool) for x in a)}
    for i in wide:
        for j in wide:
            for op in ("c_", "e_"):
                if (op, (i, j)) in seen: continue
                cases.append(("input_spec", {"op": op, "args": [i, j]}))
    return cases


def run(ctx: Ctx) -> Result:
    c_, e_ = _impl()
    res = Result()
    res.exhaustive = True
    res.rule = ("complete finite domain: 81 tuples + 36 pairs + 9 strain pairs + 6 strain Voigt indices, each in positional/str/int "
                "spelling, plus indices 0..4 (standard) and 0..7 (Voigt) and malformed spellings — all of it, nothing sampled; PLUS a "
                "seeded stream of integers outside it (all two-digit integers, digit-count boundaries, up to 10^30 and negative as "
                "single arguments; same-sign pairs / quadruples up to 10^9) for the theorems quantified over all integers; a case is "
                "one (function, argument list); all are distinct; non-trivial = every case (each exercises a distinct dispatch path "
                "or value); evaluations counts each case once against the hand model and once against the translated source, plus "
                "the malformed stream")
    inputs = all_inputs()
    ops = [{"op": op, "args": args} for op, args in inputs]
    model = ctx.driver.ask(ops)
    n_err = 0
    for (op, args), m in zip(inputs, model):
        impl = call(c_ if op == "c_" else e_, canon_c if op == "c_" else canon_e, args)
        res.evaluations += 1
        if impl == "error": n_err += 1
        if impl != m:
            res.disagreements.append(Disagreement(op, args, impl, m))
        else:
            res.traces_validated += 1
    # ---- integers beyond the decided domain (sampled; the theorems about them are universally quantified)
    wide = wide_int_stream(ctx.rng, ctx.thorough())
    wmodel = ctx.driver.ask([{"op": op, "args": args} for op, args in wide])
    n_wide_err = 0
    for (op, args), m in zip(wide, wmodel):
        impl = call(c_ if op == "c_" else e_, canon_c if op == "c_" else canon_e, args)
        res.evaluations += 1
        if impl == "error": n_wide_err += 1
        if impl != m:
            res.disagreements.append(Disagreement(op, args, impl, m, "wide-integer stream: real code differs from the hand model"))
        else:
            res.traces_validated += 1
    res.distinct_nontrivial = len({(op, tuple(map(repr, a))) for op, a in inputs + wide})
    # ---- the domain the kernel decides is exactly this one
    dom = ctx.driver.ask([{"op": "c10.domain"}])[0]
    lean_dom = {(o, repr(a)) for o in ("c_", "e_") for a in dom[o]}
    here = {(o, repr(a)) for o, a in inputs}
    if lean_dom != here:
        res.disagreements.append(Disagreement("c10.domain", sorted(lean_dom ^ here)[:10], len(here), len(lean_dom),
                                              "the domain of the voigt_model_is_source theorems differs from all_inputs()"))
    # ---- (b) the translated source, run by the PyLite evaluator, against CPython: complete domain + malformed stream
    n_mal = 1500 if ctx.thorough() else 400
    malformed = [(o, a) for a in MALFORMED_FIXED for o in ("c_", "e_")]
    for a in malformed_stream(ctx.rng, n_mal):
        malformed.append(("c_" if ctx.rng.integers(2) else "e_", a))
    src_inputs = inputs + wide + malformed
    src_out = ctx.driver.ask([{"op": "c10.src", "fn": op, "args": args} for op, args in src_inputs])
    src_stats = {"value": 0, "unsupported_or_fuel": 0}
    n_src_ok = 0
    for (op, args), ln in zip(src_inputs, src_out):
        py = src_canon(c_ if op == "c_" else e_, args)
        res.evaluations += 1
        if "exc" in py: src_stats[py["exc"]] = src_stats.get(py["exc"], 0) + 1
        else: src_stats["value"] += 1
        if isinstance(ln, dict) and ("unsupported" in ln or "out_of_fuel" in ln): src_stats["unsupported_or_fuel"] += 1
        if same_result(py, ln):
            n_src_ok += 1; res.traces_validated += 1
        else:
            res.disagreements.append(Disagreement("c10.src:" + op, args, py, ln,
                                                  "translated source run by PyLite differs from CPython"))
    # ---- translated source vs hand-written model on the decided domain (the content of `voigt_model_is_source`)
    svm = ctx.driver.ask([{"op": "c10.src_vs_model"}])[0]
    diffs = [("c_", a) for a in svm["c_"]] + [("e_", a) for a in svm["e_"]]
    if diffs or svm["views"]:
        rows = []
        for op, a in diffs:
            real = call(c_ if op == "c_" else e_, canon_c if op == "c_" else canon_e, a)
            ok = oracle("input_spec", {"op": op, "args": a}) is None
            rows.append({"op": op, "args": a, "real_code": real, "property_holds_on_real_code": ok})
        # inputs on which the real code violates the property first
        rows = ([r for r in rows if not r["property_holds_on_real_code"]] + [r for r in rows if r["property_holds_on_real_code"]])[:10]
        for r in rows:
            op, a, real = r["op"], r["args"], r["real_code"]
            res.disagreements.append(Disagreement("c10.src_vs_model:" + op, a, real, "(hand model differs from translated source)",
                                                  "first inputs of the decided domain where translated source != model"))
        vrows = []
        for v in svm["views"][:5]:
            real = call(c_, canon_c, v["v"])
            vrows.append({"key_voigt": v["v"], "hand_model": v, "real_code": real,
                          "property_holds_on_real_code": oracle("input_spec", {"op": "c_", "args": v["v"]}) is None})
            res.disagreements.append(Disagreement("c10.src_vs_model:views", v["v"], real, v,
                                                  "a view of this key read off the translated source differs from the hand model"))
        res.extra["src_vs_model"] = {"inputs": rows, "views": vrows}
    res.samples = [{"op": "c_", "args": [1, 1, 2, 3], "impl": call(c_, canon_c, [1, 1, 2, 3])},
                   {"op": "c_", "args": ["46"], "impl": call(c_, canon_c, ["46"])},
                   {"op": "c_", "args": [5], "impl": call(c_, canon_c, [5])},
                   {"op": "e_", "args": [3, 1], "impl": call(e_, canon_e, [3, 1])}]
    # the property's own statement on the real code (independent of the model)
    cases = oracle_cases() + [("input_spec", {"op": op, "args": args}) for op, args in wide]
    n_or = 0
    for check, payload in cases:
        n_or += 1
        try:
            r = oracle(check, payload)
        except Exception as e:
            r = (f"exception {type(e).__name__}: {safe_str(e)}", "no exception")
        if r is not None:
            res.oracle_failures.append(OracleFailure(
                what=f"{check} fails", input={"check": check, "payload": payload}, observed=r[0], expected=r[1],
                site=f"{check}:{payload}"))
            if len(res.oracle_failures) >= 10: break
    # an input_spec failure that may depend on the calls made before it: record the two-call history as well, so that the replay
    # (a fresh process) reproduces it
    for f in [f for f in res.oracle_failures if f.input["check"] == "input_spec"][:3]:
        op, args = f.input["payload"]["op"], f.input["payload"]["args"]
        seq = [["e_" if op == "c_" else "c_", args], [op, args]]
        r = oracle("sequence", {"seq": seq})
        if r is not None:
            res.oracle_failures.append(OracleFailure(what="sequence fails", input={"check": "sequence", "payload": {"seq": seq}},
                                                     observed=r[0], expected=r[1], site=f"sequence:{seq}"))
    res.distribution = {"correspondence_cases": len(inputs), "rejected_by_impl": n_err,
                        "accepted_by_impl": len(inputs) - n_err, "oracle_clauses_evaluated": n_or,
                        "wide_integer_cases": len(wide), "wide_integer_rejected_by_impl": n_wide_err,
                        "wide_integer_single_argument": sum(1 for _, a in wide if len(a) == 1),
                        "wide_integer_max_digits": max(len(str(abs(x))) for _, a in wide for x in a),
                        "src_cases": len(inputs) + len(wide), "src_malformed_cases": len(malformed), "src_agree": n_src_ok,
                        "src_outcomes_cpython": src_stats}
    return res


def search(ctx: Ctx, res: Result):
    # the domain is finite and run() already evaluated the oracle on all of it
    return []


def replay(ctx: Ctx, payload):
    r = oracle(payload["check"], payload["payload"])
    if r is None: return []
    return [OracleFailure(what=f"{payload['check']} fails", input=payload, observed=r[0], expected=r[1])]
