"""C08 — the packaged symmetry relations are the Laue-class invariants; fill returns the invariant tensor.

generator      random points of the invariant subspace of each of the nine Laue classes (computed by the ORACLE
               from explicit rotation matrices — not from cij/data/constraints/*), 1–12 volume rows, supplied through
               EVERY minimal sufficient subset of components and through random sufficient supersets
               (extra redundant members, zero components supplied as zeros, an extra V column).
correspondence real `fill_cij` (and `apply_symetry_on_elast_data`) vs the Lean model (`CijModel/Fill.lean`, exact
               over Rat) on the same table: status, column names and order, all values (1e-9 of the table's scale);
               the specification side of the theorem (`rotate`, CijModel/Laue.lean at Float) vs numpy's einsum.
oracle         on the REAL code's output: it IS the invariant tensor that was drawn (supplied values unchanged,
               dependent components with the right sign and factor), vanishing components are omitted, and the
               rebuilt full 3x3x3x3 tensor is invariant under the explicit rotation matrices (numpy einsum).
"""
from __future__ import annotations

import numpy

from harness.common import Ctx, Result, Disagreement, OracleFailure, enc, dec, family_close
from harness import fillcommon as fc

ASSUMPTIONS = [
    "crystal in the standard setting (principal axis z, two-fold axis x where present, unique axis y for monoclinic)",
    "column names are ASCII; cells are finite floats; at least one volume row",
    "numpy.linalg.lstsq returns the least-squares solution of a well-conditioned integer-coefficient system to ~1e-13 "
    "(measured: every case compares numpy's result with the exact rational solution of the model)",
]
TRUSTED_EXTRA = [
    "tools/gen_certs.py is NOT trusted: it only proposes certificate matrices, which the kernel multiplies out "
    "(CijProofs/Lemmas/LaueTablesA/B.lean, LaueSysCerts.lean)",
    "harness/fillcommon.py: the oracle's own rotation matrices (Rodrigues formula) and Voigt map",
]

RTOL = 1e-9


def build_case(system, T, supplied, with_v, rng):
    """columns/values of the input table for tensor rows T (nrows x 21) and supplied component indices."""
    cols, vals = [], []
    if with_v:
        cols.append("V"); vals.append((100.0 + 7.5 * numpy.arange(T.shape[0])).tolist())
    for i in supplied:
        cols.append(fc.SYMS[i]); vals.append(T[:, i].tolist())
    return cols, vals


def oracle_fill(system, cols, vals, T, outcome, kw=None):
    """Property statement on the real output.  Returns list of (what, observed, expected)."""
    fails = []
    nz = set(fc.invariant_basis(system)["nonzero"])
    scale = float(numpy.max(numpy.abs(T))) or 1.0
    datol = float((kw or {}).get("drop_atol", 0.0))          # a REQUESTED drop tolerance: components below it at every volume vanish
    if outcome["status"] != "ok":
        return [("a symmetry-consistent sufficient table was not filled", outcome["status"], "ok")]
    out = fc.as_map(outcome)
    # 1. every non-vanishing component is present and equals the invariant tensor; vanishing ones are omitted
    for i, s in enumerate(fc.SYMS):
        if i in nz and float(numpy.max(numpy.abs(T[:, i]))) <= max(1e-12 * scale, datol):
            # allowed by the system but zero in THIS tensor (a tensor of a higher symmetry): a vanishing component, omitted
            if s in out and float(numpy.max(numpy.abs(out[s]))) > RTOL * scale:
                fails.append((f"component {s} vanishes in the invariant tensor but is returned non-zero", out[s], "omitted / 0"))
            continue
        if i in nz:
            if s not in out:
                fails.append((f"component {s} missing from the filled table", None, T[:, i].tolist())); continue
            err = float(numpy.max(numpy.abs(numpy.array(out[s]) - T[:, i])))
            if err > RTOL * scale:
                fails.append((f"component {s} is not the invariant tensor's value (sign/factor)", out[s], T[:, i].tolist()))
        elif s in out:
            fails.append((f"vanishing component {s} was not omitted", out[s], "omitted"))
    # 2. supplied values unchanged; other columns pass through
    for name, col in zip(cols, vals):
        key = name.lower()
        if key in out:
            if float(numpy.max(numpy.abs(numpy.array(out[key]) - numpy.array(col)))) > RTOL * max(scale, max(abs(x) for x in col)):
                fails.append((f"supplied column {name} changed", out[key], col))
        elif not (key in fc.SYMS and (fc.SYMS.index(key) not in nz or max(abs(x) for x in col) <= max(1e-12 * scale, datol))):
            fails.append((f"column {name} disappeared", None, col))
    # 3. the rebuilt full tensor is invariant under the explicit rotations of the Laue class
    for r in range(T.shape[0]):
        c = [out.get(s, [0.0] * T.shape[0])[r] for s in fc.SYMS]
        d = fc.invariance_defect(system, c)
        if d > 1e-9 * scale:
            fails.append((f"filled tensor (row {r}) is not invariant under the Laue rotations", d, 0.0)); break
    return fails


DEFAULT_SYMMETRY_BLOCK = {"ignore_residuals": False, "ignore_rank": False, "drop_atol": 1.0e-8, "residual_atol": 0.1}   # documented defaults


def run_elastdata(system, T, supplied, full_block=False, symmetry=None, key_orders=None):
    """apply_symetry_on_elast_data on an ElastData built from the supplied components; `full_block`: the symmetry block as the
    Calculator passes it (system + the four documented default settings) instead of the bare {"system": ...}."""
    from cij.io.traditional.elast_dat import ElastData, ElastVolumeData, apply_symetry_on_elast_data
    from cij.util import c_
    vols = []
    for r in range(T.shape[0]):
        # `key_orders`: per volume, the order in which the mapping of that volume lists the components (an ElastData assembled from
        # separate calculations need not list them in one order; a mapping is addressed by NAME)
        order = supplied if key_orders is None else key_orders[r]
        vols.append(ElastVolumeData(100.0 + r, dict((c_(fc.SYMS[i][1:]), float(T[r, i])) for i in order)))
    data = ElastData(100.0, T.shape[0], 10.0, vols, [])
    try:
        if symmetry is None:
            symmetry = dict(DEFAULT_SYMMETRY_BLOCK, system=system) if full_block else {"system": system}
        apply_symetry_on_elast_data(data, symmetry)       # `symmetry` may be a dict the caller keeps and passes again
    except BaseException as e:
        if isinstance(e, (KeyboardInterrupt, SystemExit)): raise
        return {"status": fc.classify(e)}
    names = [f"c{k.v[0]}{k.v[1]}" for k in data.volumes[0].static_elastic_modulus.keys()]
    vals = [[float(v.static_elastic_modulus[k]) for v in data.volumes] for k in data.volumes[0].static_elastic_modulus.keys()]
    return {"status": "ok", "columns": names, "values": vals}


def case_list(ctx: Ctx, rng, n_random: int):
    """(system, nrows, supplied tuple, with_v, kind)"""
    cases = []
    for system in fc.SYSTEMS:
        info = fc.invariant_basis(system)
        mins = fc.minimal_sufficient_subsets(system)
        for S in mins:
            cases.append((system, int(rng.integers(1, 13)), S, bool(rng.integers(0, 2)), "minimal"))
        for _ in range(n_random):
            S = list(mins[int(rng.integers(0, len(mins)))])
            others = [i for i in range(21) if i not in S]
            extra = rng.choice(others, size=int(rng.integers(0, len(others) + 1)), replace=False) if others else []
            S = sorted(set(S) | {int(x) for x in extra})
            if rng.integers(0, 4) == 0: S = list(range(21))
            order = list(S)
            if rng.integers(0, 2): rng.shuffle(order)
            cases.append((system, int(rng.integers(1, 13)), tuple(order), bool(rng.integers(0, 2)), "superset"))
    return cases


def evaluate(ctx: Ctx, res: Result, cases, rng, tag="run"):
    ops, metas = [], []
    for system, nrows, S, with_v, kind in cases:
        T = fc.random_invariant(system, nrows, rng, zero_one_row=bool(rng.integers(0, 3) == 0))
        cols, vals = build_case(system, T, S, with_v, rng)
        ops.append(fc.model_op(cols, vals, system, op="c08.fill"))
        ik = ["default", "default", "reversed", "offset", "float"][int(rng.integers(0, 5))]
        metas.append((system, T, cols, vals, S, kind, ik))
    models = ctx.driver.ask(ops) if ops else []
    for (system, T, cols, vals, S, kind, ik), m in zip(metas, models):
        if ctx.time_left() < 30: break
        impl = fc.run_impl(cols, vals, system, index_kind=ik)
        model = fc.decode_model(m)
        res.evaluations += 1
        payload = {"check": "fill", "system": system, "columns": cols, "values": vals, "tensor": T.tolist(), "index_kind": ik}
        d0 = res.distribution
        d0.setdefault("index_kinds", {}).setdefault(ik, 0); d0["index_kinds"][ik] += 1
        ok, note = fc.compare_outcomes(impl, model, RTOL)
        if ok: res.traces_validated += 1
        else: res.disagreements.append(Disagreement("c08.fill", payload, impl.get("status"), model.get("status"), note))
        for what, obs, exp in oracle_fill(system, cols, vals, T, impl):
            res.oracle_failures.append(OracleFailure(what=what, input=payload, observed=obs, expected=exp,
                                                     site=f"c08:{system}:{what.split(' ')[0]}"))
        d = res.distribution
        d.setdefault("systems", {}).setdefault(system, 0); d["systems"][system] += 1
        d.setdefault("kinds", {}).setdefault(kind, 0); d["kinds"][kind] += 1
        d.setdefault("rows", {}).setdefault(str(T.shape[0]), 0); d["rows"][str(T.shape[0])] += 1
        d.setdefault("supplied_sizes", {}).setdefault(str(len(S)), 0); d["supplied_sizes"][str(len(S))] += 1
        if len(res.samples) < 4 and kind == "minimal" and system in ("trigonal7", "hexagonal", "cubic", "tetragonal7"):
            if not any(s.get("system") == system for s in res.samples):
                res.samples.append({"system": system, "supplied": [fc.SYMS[i] for i in S], "rows": T.shape[0],
                                    "impl_columns": impl.get("columns"), "impl_first_row":
                                        [c[0] for c in impl.get("values", [])] if impl["status"] == "ok" else impl["status"]})
        if len(res.oracle_failures) >= 8: break


def spec_crosscheck(ctx: Ctx, res: Result, rng, n: int):
    """`rotate`/`tensorOf` of the Lean specification (Float) vs numpy einsum on random matrices and components,
    and `c08.defect` (Laue generators of the model) vs the oracle's rotation matrices."""
    ops, metas = [], []
    for _ in range(n):
        g = rng.normal(size=(3, 3)); c = rng.normal(size=21) * 100
        ops.append({"op": "c08.rotate", "g": enc(g.reshape(-1)), "c": enc(c)}); metas.append(("rotate", g, c, None))
    for system in fc.SYSTEMS:
        c = rng.normal(size=21) * 100
        ops.append({"op": "c08.defect", "system": system, "c": enc(c)}); metas.append(("defect", None, c, system))
    outs = ctx.driver.ask(ops)
    for (kind, g, c, system), o in zip(metas, outs):
        res.evaluations += 1
        if kind == "rotate":
            exp = fc.rotate_full(g, fc.full_tensor(c)).reshape(-1)
            ok, err, _ = family_close(numpy.array(dec(o)), exp, rtol=1e-11)
        else:
            T = fc.full_tensor(c)
            exp = [fc.comps_of(fc.rotate_full(R, T)) - c for _, R in fc.LAUE_ROTATIONS[system]]
            got = numpy.array(dec(o)).reshape(len(exp), 21) if exp else numpy.zeros((0, 21))
            ok, err, _ = family_close(got, numpy.array(exp).reshape(len(exp), 21), rtol=1e-11, scale=float(numpy.max(numpy.abs(c))) * 16)
        if ok: res.traces_validated += 1
        else: res.disagreements.append(Disagreement("c08." + kind, {"g": None if g is None else g.tolist(), "c": c.tolist(),
                                                                      "system": system}, "numpy einsum", "model", f"err {err:.3g}"))


def run(ctx: Ctx) -> Result:
    res = Result()
    rng = ctx.rng
    res.rule = ("a case = (system, invariant tensor rows, supplied subset, V column or not); all distinct by construction "
                "(fresh random tensor per case); non-trivial = every case whose system is not triclinic (triclinic has no "
                "relation: fill returns its input) — counted below")
    for payload in ctx.corpus():
        for f in replay(ctx, payload.get("input", payload)): res.oracle_failures.append(f)
    spec_crosscheck(ctx, res, rng, 40 if ctx.thorough() else 12)
    cases = case_list(ctx, rng, n_random=40 if ctx.thorough() else 6)
    res.distribution["minimal_subsets_per_system"] = {s: len(fc.minimal_sufficient_subsets(s)) for s in fc.SYSTEMS}
    evaluate(ctx, res, cases, rng)
    res.distinct_nontrivial = sum(v for k, v in res.distribution.get("systems", {}).items() if k != "triclinic")
    # apply_symetry_on_elast_data: one minimal subset per system and a few rows
    n_el = 0
    for system in fc.SYSTEMS:
        mins = fc.minimal_sufficient_subsets(system)
        for S in ([mins[0], mins[-1]] if ctx.thorough() else [mins[int(rng.integers(0, len(mins)))]]):
            T = fc.random_invariant(system, int(rng.integers(1, 6)), rng)
            out = run_elastdata(system, T, S)
            res.evaluations += 1; n_el += 1
            cols, vals = build_case(system, T, S, False, rng)
            payload = {"check": "elastdata", "system": system, "supplied": list(S), "tensor": T.tolist()}
            fails = oracle_fill(system, cols, vals, T, out)
            if not fails: res.traces_validated += 1
            for what, obs, exp in fails:
                res.oracle_failures.append(OracleFailure(what="apply_symetry_on_elast_data: " + what, input=payload,
                                                         observed=obs, expected=exp, site=f"c08:elastdata:{system}"))
    # the same entry point on tables in other units (TPa, Mbar: all values well below 1) and with one weak but genuine component
    # (|c| between 1e-5 and 0.09 at every volume), with the bare and with the full settings block: the filling must neither drop
    # nor move them — only components below the drop tolerance (1e-8) at all volumes may be omitted
    n_small = 0
    for system in fc.SYSTEMS:
        mins = fc.minimal_sufficient_subsets(system)
        for rep in range(2 if ctx.thorough() else 1):
            S = mins[int(rng.integers(0, len(mins)))]
            T = fc.random_invariant(system, int(rng.integers(1, 5)), rng) * float(10.0 ** rng.uniform(-4.0, -2.5))
            full_block = bool((rep + n_small) % 2)
            out = run_elastdata(system, T, S, full_block=full_block)
            res.evaluations += 1; n_small += 1
            cols, vals = build_case(system, T, S, False, rng)
            payload = {"check": "elastdata", "system": system, "supplied": list(S), "tensor": T.tolist(), "full_block": full_block}
            fails = oracle_fill(system, cols, vals, T, out)
            if not fails: res.traces_validated += 1
            for what, obs, exp in fails[:2]:
                res.oracle_failures.append(OracleFailure(what="apply_symetry_on_elast_data (small values): " + what, input=payload,
                                                         observed=obs, expected=exp, site=f"c08:elastdata-small:{system}"))
    # a tensor of a HIGHER symmetry filled as a lower system: components the lower system allows are supplied as explicit zero
    # columns (hexagonal tensor as trigonal: c14 = c15 = 0; 4/mmm tensor as tetragonal7: c16 = 0; orthorhombic as monoclinic; any as
    # triclinic).  An explicit zero is data: the table is sufficient and consistent and must be filled, not refused.
    n_sup = 0
    for low, high in (("trigonal7", "hexagonal"), ("trigonal6", "hexagonal"), ("tetragonal7", "tetragonal6"), ("monoclinic", "orthorhombic"),
                      ("triclinic", "monoclinic"), ("orthorhombic", "tetragonal6"), ("tetragonal6", "cubic")):
        mins = fc.minimal_sufficient_subsets(low)
        for rep in range(3 if ctx.thorough() else 1):
            S = mins[int(rng.integers(0, len(mins)))]
            T = fc.random_invariant(high, int(rng.integers(1, 5)), rng)
            cols, vals = build_case(low, T, S, bool(rep % 2), rng)
            out = fc.run_impl(cols, vals, low)
            res.evaluations += 1; n_sup += 1
            payload = {"system": low, "columns": cols, "values": vals, "tensor": T.tolist(), "of_higher_symmetry": high}
            fails = oracle_fill(low, cols, vals, T, out)
            if not fails: res.traces_validated += 1
            for what, obs, exp in fails[:2]:
                res.oracle_failures.append(OracleFailure(what=f"{high} tensor filled as {low}: " + what, input=payload,
                                                         observed=obs, expected=exp, site=f"c08:higher-symmetry:{low}"))
    # the same settings dictionary passed for several tables in a row (a driver looping over files): every call fills
    n_shared = 0
    # only systems with DEPENDENT components can show a skipped filling (for triclinic/monoclinic/orthorhombic a minimal
    # sufficient subset is already the whole tensor, so an untouched table is a correct answer)
    dependent = [s for s in fc.SYSTEMS if len(fc.invariant_basis(s)["nonzero"]) > fc.EXPECTED_DIM[s]]
    for system in [dependent[(ctx.seed + k) % len(dependent)] for k in range(3)]:
        shared = dict(DEFAULT_SYMMETRY_BLOCK, system=system)
        mins = fc.minimal_sufficient_subsets(system)
        for rep in range(3):
            S = mins[int(rng.integers(0, len(mins)))]
            T = fc.random_invariant(system, int(rng.integers(1, 4)), rng)
            out = run_elastdata(system, T, S, symmetry=shared)
            res.evaluations += 1; n_shared += 1
            cols, vals = build_case(system, T, S, False, rng)
            fails = oracle_fill(system, cols, vals, T, out)
            if not fails: res.traces_validated += 1
            for what, obs, exp in fails[:2]:
                res.oracle_failures.append(OracleFailure(what=f"apply_symetry_on_elast_data, call {rep + 1} with the same settings dictionary: " + what,
                                                         input={"check": "elastdata-shared", "system": system, "calls": rep + 1, "supplied": list(S), "tensor": T.tolist()},
                                                         observed=obs, expected=exp, site=f"c08:elastdata-shared:{system}"))
    # UPPER-CASE headers with explicit zero columns for symmetry-forbidden components (vanishing components are omitted whatever the
    # letter case of the header), and a REQUESTED drop tolerance with a symmetry-allowed component below it at every volume
    n_case = 0
    dep3 = [s_ for s_ in fc.SYSTEMS if len(fc.invariant_basis(s_)["nonzero"]) > fc.EXPECTED_DIM[s_]]
    for k in range(4 if ctx.thorough() else 2):
        system = dep3[(ctx.seed + 2 + k) % len(dep3)]
        info = fc.invariant_basis(system)
        mins = fc.minimal_sufficient_subsets(system)
        S = list(mins[int(rng.integers(0, len(mins)))])
        forbidden = [i for i in range(21) if i not in set(info["nonzero"])]
        nrow = int(rng.integers(1, 5))
        T = fc.random_invariant(system, nrow, rng)
        if k % 2 == 0 and forbidden:
            zeros = [int(x) for x in rng.choice(forbidden, size=min(3, len(forbidden)), replace=False)]
            sup = S + zeros
            cols = [fc.SYMS[i].upper() for i in sup]; vals = [[float(T[r, i]) for r in range(nrow)] for i in sup]
            kw_ = None; tag = "upper-case header, explicit zero columns"
        else:
            # one independent coupling scaled down to ~1e-6 (with everything proportional to it: the tensor stays invariant)
            B = info["B"]; coef = numpy.linalg.lstsq(B, T.T, rcond=None)[0].T
            small = [j for j in range(B.shape[1]) if all(int(fc.SYMS[i][2]) >= 4 and fc.SYMS[i][1] != fc.SYMS[i][2] for i in numpy.nonzero(numpy.abs(B[:, j]) > 1e-12)[0])]
            if not small: continue
            j0 = small[int(rng.integers(0, len(small)))]
            coef[:, j0] = numpy.sign(coef[:, j0] + 1e-30) * rng.uniform(1e-6, 5e-6, size=nrow)
            T = coef @ B.T
            sup = S
            cols = [fc.SYMS[i] for i in sup]; vals = [[float(T[r, i]) for r in range(nrow)] for i in sup]
            kw_ = {"drop_atol": 1e-4}; tag = "requested drop_atol 1e-4, a coupling of ~1e-6"
        out = fc.run_impl(cols, vals, system, kw_)
        res.evaluations += 1; n_case += 1
        fails = oracle_fill(system, cols, vals, T, out, kw_)
        if not fails: res.traces_validated += 1
        for what, obs, exp in fails[:2]:
            res.oracle_failures.append(OracleFailure(what=f"{tag}: " + what,
                                                     input={"check": "case-droptol", "system": system, "columns": cols, "values": vals, "tensor": T.tolist(), "kw": kw_},
                                                     observed=obs, expected=exp, site=f"c08:case-droptol:{system}"))
    res.distribution["upper_case_zero_and_drop_tolerance_cases"] = n_case
    # integer-typed tables: every supplied column holds integer literals (int64 in pandas).  Supplied values stay what they are and the
    # generated partners equal them exactly — the filled table is the invariant tensor whatever the column type
    n_int = 0
    dep_sys = [s_ for s_ in fc.SYSTEMS if len(fc.invariant_basis(s_)["nonzero"]) > fc.EXPECTED_DIM[s_]]
    for k in range(4 if ctx.thorough() else 2):
        system = dep_sys[(ctx.seed + 1 + 2 * k) % len(dep_sys)]
        info = fc.invariant_basis(system)
        nrows = int(rng.integers(2, 8))
        Ti = None
        for _ in range(20):
            coef = 4.0 * rng.integers(10, 250, size=(nrows, info["k"])) + rng.integers(0, 2, size=(nrows, info["k"]))
            Tc = coef @ info["B"].T
            mins = fc.minimal_sufficient_subsets(system)
            S = list(mins[int(rng.integers(0, len(mins)))])
            if numpy.allclose(Tc[:, S], numpy.round(Tc[:, S])): Ti = Tc; break
        if Ti is None: continue
        cols = [fc.SYMS[i] for i in S]; vals = [[float(round(x)) for x in Ti[:, i]] for i in S]
        out = fc.run_impl(cols, vals, system, int_cols=cols)
        res.evaluations += 1; n_int += 1
        fails = oracle_fill(system, cols, vals, Ti, out)
        if not fails: res.traces_validated += 1
        for what, obs, exp in fails[:2]:
            res.oracle_failures.append(OracleFailure(what="integer-typed supplied columns: " + what,
                                                     input={"check": "int-columns", "system": system, "supplied": S, "tensor": Ti.tolist()},
                                                     observed=obs, expected=exp, site=f"c08:int-columns:{system}"))
    res.distribution["integer_typed_tables"] = n_int
    # volumes whose mappings list the same components in DIFFERENT orders, and explicit zero columns for symmetry-forbidden components
    # (the filled volumes must hold exactly the invariant tensor's non-vanishing components, addressed by name)
    n_named = 0
    dependent2 = [s_ for s_ in fc.SYSTEMS if len(fc.invariant_basis(s_)["nonzero"]) > fc.EXPECTED_DIM[s_]]
    for k in range(4 if ctx.thorough() else 2):
        system = dependent2[(ctx.seed + 3 + k) % len(dependent2)]
        info = fc.invariant_basis(system)
        mins = fc.minimal_sufficient_subsets(system)
        S = list(mins[int(rng.integers(0, len(mins)))])
        forbidden = [i for i in range(21) if i not in set(info["nonzero"])]
        zeros = [int(x) for x in rng.choice(forbidden, size=min(2, len(forbidden)), replace=False)] if (forbidden and k % 2 == 1) else []
        nrow = int(rng.integers(2, 5))
        T = fc.random_invariant(system, nrow, rng)
        sup = S + zeros
        orders = [[sup[i] for i in rng.permutation(len(sup))] for _ in range(nrow)]
        if all(o == orders[0] for o in orders): orders[-1] = list(reversed(orders[0]))
        out = run_elastdata(system, T, sup, key_orders=orders)
        res.evaluations += 1; n_named += 1
        cols = [fc.SYMS[i] for i in sup]; vals = [[float(T[r, i]) for r in range(nrow)] for i in sup]
        fails = oracle_fill(system, cols, vals, T, out)
        if not fails: res.traces_validated += 1
        for what, obs, exp in fails[:2]:
            res.oracle_failures.append(OracleFailure(what="apply_symetry_on_elast_data (volumes listing their components in different orders"
                                                          + (", explicit zero columns" if zeros else "") + "): " + what,
                                                     input={"check": "elastdata-named", "system": system, "supplied": sup, "orders": orders, "tensor": T.tolist()},
                                                     observed=obs, expected=exp, site=f"c08:elastdata-named:{system}"))
    res.distribution["apply_symetry_on_elast_data_named_order_cases"] = n_named
    res.distribution["apply_symetry_on_elast_data_cases"] = n_el
    res.distribution["apply_symetry_on_elast_data_small_value_cases"] = n_small
    res.distribution["higher_symmetry_tensor_cases"] = n_sup
    res.distribution["shared_settings_dict_calls"] = n_shared
    res.notes.append("all minimal sufficient subsets of all nine systems are exercised in every tier (314 subsets)")
    return res


def search(ctx: Ctx, res: Result):
    """The certificate theorem or the correspondence is broken: look for a tensor on which the real code violates
    the statement — full tables and minimal subsets of true invariant tensors, more seeds."""
    found = Result()
    rng = numpy.random.Generator(numpy.random.PCG64([ctx.seed, 8008]))
    cases = []
    for system in fc.SYSTEMS:
        mins = fc.minimal_sufficient_subsets(system)
        cases.append((system, 2, tuple(range(21)), False, "full"))
        cases.append((system, 1, tuple(fc.invariant_basis(system)["nonzero"]), False, "nonzero"))
        for S in mins[:40]:
            cases.append((system, 2, S, False, "minimal"))
    evaluate(ctx, found, cases, rng, tag="search")
    return found.oracle_failures


def replay(ctx: Ctx, payload):
    T = numpy.array(payload["tensor"], dtype=float)
    system = payload["system"]
    if payload.get("check") == "case-droptol":
        T = numpy.array(payload["tensor"], dtype=float)
        out = fc.run_impl(payload["columns"], payload["values"], system, payload.get("kw"))
        return [OracleFailure(what="case/drop tolerance: " + w, input=payload, observed=o, expected=e, site=f"c08:case-droptol:{system}")
                for w, o, e in oracle_fill(system, payload["columns"], payload["values"], T, out, payload.get("kw"))[:2]]
    if payload.get("check") == "int-columns":
        T = numpy.array(payload["tensor"], dtype=float); S = list(payload["supplied"])
        cols = [fc.SYMS[i] for i in S]; vals = [[float(round(x)) for x in T[:, i]] for i in S]
        out = fc.run_impl(cols, vals, system, int_cols=cols)
        return [OracleFailure(what="integer-typed supplied columns: " + w, input=payload, observed=o, expected=e, site=f"c08:int-columns:{system}")
                for w, o, e in oracle_fill(system, cols, vals, T, out)[:2]]
    if payload.get("check") == "elastdata-named":
        T = numpy.array(payload["tensor"], dtype=float); sup = list(payload["supplied"])
        out = run_elastdata(system, T, sup, key_orders=payload["orders"])
        cols = [fc.SYMS[i] for i in sup]; vals = [[float(T[r, i]) for r in range(T.shape[0])] for i in sup]
        return [OracleFailure(what="apply_symetry_on_elast_data (named order): " + w, input=payload, observed=o, expected=e,
                              site=f"c08:elastdata-named:{system}") for w, o, e in oracle_fill(system, cols, vals, T, out)[:2]]
    if payload.get("check") == "elastdata-shared":
        shared = dict(DEFAULT_SYMMETRY_BLOCK, system=system)
        S = payload["supplied"]
        for _ in range(int(payload.get("calls", 2)) - 1):
            run_elastdata(system, T, S, symmetry=shared)
        out = run_elastdata(system, T, S, symmetry=shared)
        cols, vals = build_case(system, T, S, False, None)
    elif payload.get("check") == "elastdata":
        S = payload["supplied"]
        out = run_elastdata(system, T, S, full_block=bool(payload.get("full_block")))
        cols, vals = build_case(system, T, S, False, None)
    else:
        cols, vals = payload["columns"], payload["values"]
        out = fc.run_impl(cols, vals, system, index_kind=payload.get("index_kind", "default"))
    return [OracleFailure(what=w, input=payload, observed=o, expected=e) for w, o, e in oracle_fill(system, cols, vals, T, out)]
