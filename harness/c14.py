"""C14 — deterministic and isolated: hash seed, working directory, process history; fill idempotent; reading twice
returns equal arrays.

(a) CORRESPONDENCE (model = lean/CijModel/LazyGraph.lean on the tables re-translated from nonshear.py / shear.py):
    random read histories on REAL objects of the three phonon-contribution classes (stub calculator; several objects
    interleaved, some sharing a calculator, some on another calculator with the SAME (T,V) grid and other frequencies).
    After every read the cache state of the real object ({name : "_name" in vars(obj)}) is compared with the model's
    (`c14.multi` = Memo.historyMulti).  ORACLE on the same runs (independent of the model): every value equals the value a
    FRESH object returns when only that property is read, equals the value returned the first time, is still equal at
    the end of the history (no in-place change of a cached array), the inputs are untouched, and Q, Q1, Q2 equal their
    closed forms (CODATA second radiation constant) — the last one is what detects state shared between objects.
(b) ORACLE end to end on synthetic data (trigonal7: fill derives 9 non-zero components; shear keys; both bases):
    `cij run` in fresh subprocesses under several PYTHONHASHSEEDs and working directories (junk files, a DIRECTORY named
    like the crystal system) -> all output files byte-identical; `cij fill` stdout byte-identical; two calculations A, B
    (same grid settings, other frequencies, A overrides nested defaults that B leaves alone, A renames an output file)
    run in ONE process in both orders, objects kept or released -> files identical to the fresh-process ones; random
    orders of property access on both bases, `calculate()` again, `write_output()` repeated -> identical files;
    apply_default_config / update_config do not leak between calls.
(c) fill_cij applied twice = once on consistent tables of all nine systems (real code, and the Lean model of the second
    call on the first call's output); with an identically-zero independent component (the stated exclusion of
    `c14_fill_idempotent`) the behaviour of the real code is REPORTED (evidence: fill_zero_component).
"""
from __future__ import annotations

import contextlib
import copy
import gc
import inspect
import os
import shutil
import subprocess
import sys
import tempfile
import time

import numpy

from harness import synth, e2e
from harness.common import Ctx, Result, Disagreement, OracleFailure, make_rng, jsonable, family_close, REPO

ASSUMPTIONS = [
    "a LazyProperty caches in the instance attribute '_<name>' (lazy_property 0.0.1): the cache state of a real object is read from vars(obj)",
    "same calculation = same input files and settings; 'unrelated entries in the working directory' = anything except a regular FILE "
    "named exactly like the crystal system (that is the documented user-relations-file feature of fill_cij)",
    "byte identity is required of every file the run creates (text tables, %.15e-style formatting by qha/pandas); the runs of one check "
    "share the machine, the BLAS build and the numba cache — other machines / BLAS thread counts are outside what is observed",
    "hash randomisation is sampled (PYTHONHASHSEED 0, 1 and random values), not enumerated; the theorems quantify over ALL iteration orders",
]
TRUSTED_EXTRA = [
    "scipy.constants 'second radiation constant' (closed forms of Q, Q1, Q2 on the oracle side of C14)",
    "harness/fillcommon.py invariant bases (independent Rodrigues/einsum construction) used to draw symmetry-consistent tables",
]

PY = sys.executable
RUN_CODE = "from cij.cli.main import main; main()"
FILL_CODE = "from cij.cli.fill import main; main()"
SYSTEM = "trigonal7"
SHEAR_KEYS = [(4, 4), (5, 5), (6, 6), (1, 4), (1, 5), (1, 6), (2, 4), (2, 5), (2, 6), (3, 4), (3, 5), (3, 6), (4, 5), (4, 6), (5, 6)]
KINDS = ("long", "off", "shear")


def sub_rng(seed: int, *key: int) -> numpy.random.Generator:
    """independent generator per (seed, integer key).  (common.make_rng reduces the stream NAME modulo 2**63, i.e. keeps
    only its first 8 characters, so names such as "C14/hist/0" and "C14/hist/1" would give the same stream.)"""
    return numpy.random.Generator(numpy.random.PCG64([int(seed), 0xC14, *[int(k) for k in key]]))
SITE_SHADOW = "cwd:regular-file-named-like-system"


# ============================================================================================ (a) read histories
class _NS:
    pass


def real_classes():
    from cij.core.phonon_contribution.nonshear import (LongitudinalElasticModulusPhononContribution,
                                                       OffDiagonalElasticModulusPhononContribution)
    from cij.core.phonon_contribution.shear import ShearElasticModulusPhononContribution
    return {"long": LongitudinalElasticModulusPhononContribution, "off": OffDiagonalElasticModulusPhononContribution,
            "shear": ShearElasticModulusPhononContribution}


def class_props(cls):
    """{property name: is LazyProperty} as the RUNNING class has them (MRO resolved)"""
    from lazy_property import LazyProperty
    out = {}
    for n in dir(cls):
        a = inspect.getattr_static(cls, n)
        if isinstance(a, property):
            out[n] = isinstance(a, LazyProperty)
    return out


def build_case(seed: int, idx: int):
    """small random inputs of a stub calculator; variant 1 = SAME grids, other frequencies / mode gammas"""
    rng = sub_rng(seed, 1, idx)
    nv, nt, nq, na = int(rng.integers(2, 5)), int(rng.integers(2, 5)), int(rng.integers(1, 4)), int(rng.integers(1, 3))
    np_ = 3 * na
    v = float(rng.uniform(80, 900)) * numpy.sort(rng.uniform(0.85, 1.08, size=nv))[::-1]
    t = numpy.sort(rng.uniform(50.0, 2500.0, size=nt))
    if rng.random() < 0.6: t[0] = 0.0
    case = {"nv": nv, "nt": nt, "nq": nq, "na": na, "np": np_, "v": v.copy(), "t": t.copy(),
            "w": rng.integers(1, 9, size=nq).astype(float),
            "P": rng.uniform(-5, 60, size=(nt, nv)) * 1e-4, "cv": rng.uniform(0.5, 3.0, size=(nt, nv)) * 1e-5,
            "pst": rng.uniform(-5, 60, size=nv) * 1e-4}
    e = rng.dirichlet([6.0, 6.0, 6.0], size=nv)
    case["e"] = e
    for var in (0, 1):
        f = rng.uniform(40.0, 1400.0, size=(nv, nq, np_))
        f[:, 0, :3] = 0.0
        case[f"freq{var}"] = f
        case[f"mg{var}"] = [rng.uniform(-2, 2, size=(nv, nq, np_)), rng.uniform(0.2, 2.5, size=(nv, nq, np_)),
                            rng.uniform(0.05, 6, size=(nv, nq, np_))]
    case["ij"] = {"long": int(rng.integers(0, 3)), "off": [int(x) for x in rng.permutation(3)[:2]]}
    case["shear_key"] = [int(x) for x in SHEAR_KEYS[int(rng.integers(0, len(SHEAR_KEYS)))]]
    case["strain"] = e.copy()
    case["mseed"] = int(rng.integers(0, 2**31))
    return case


def make_stub(case, variant: int):
    calc = _NS()
    calc.nv, calc.np, calc.nq, calc.na = case["nv"], case["np"], case["nq"], case["na"]
    calc.v_array = case["v"].copy()
    calc.t_array = case["t"].copy()
    calc.freq_array = case[f"freq{variant}"].copy()
    calc.mode_gamma = [a.copy() for a in case[f"mg{variant}"]]
    calc.qha_input = _NS()
    calc.qha_input.weights = [((0.0, 0.0, float(i)), float(w)) for i, w in enumerate(case["w"])]
    calc.qha_calculator = _NS()
    vb = _NS()
    vb.pressures = case["P"].copy()
    vb.heat_capacity = case["cv"].copy()
    vb.v_array, vb.t_array = calc.v_array, calc.t_array
    calc.qha_calculator.volume_base = vb
    calc.qha_calculator.v_array, calc.qha_calculator.t_array = calc.v_array, calc.t_array
    calc.static_p_array = case["pst"].copy()
    return calc


def stub_pristine(calc, case, variant) -> bool:
    ok = numpy.array_equal(calc.v_array, case["v"]) and numpy.array_equal(calc.t_array, case["t"])
    ok = ok and numpy.array_equal(calc.freq_array, case[f"freq{variant}"])
    ok = ok and all(numpy.array_equal(a, b) for a, b in zip(calc.mode_gamma, case[f"mg{variant}"]))
    vb = calc.qha_calculator.volume_base
    return bool(ok and numpy.array_equal(vb.pressures, case["P"]) and numpy.array_equal(vb.heat_capacity, case["cv"])
                and numpy.array_equal(calc.static_p_array, case["pst"]))


class KeyArrays(dict):
    """modulus / modulus_rotated of a shear object: a deterministic array for any key (independent of hash seeds)"""

    def __init__(self, seed, shape):
        super().__init__()
        self.seed, self.shape = seed, shape

    def __missing__(self, key):
        r = numpy.random.Generator(numpy.random.PCG64([self.seed, *[int(x) for x in key.standard]]))
        a = r.uniform(-1.0, 1.0, size=self.shape)
        self[key] = a
        return a


def make_object(kind, case, stub, variant):
    from cij.util import c_
    cls = real_classes()[kind]
    if kind == "long":
        i = case["ij"]["long"]
        return cls(stub, (case["e"][:, i].copy(), case["e"][:, i].copy()))
    if kind == "off":
        i, j = case["ij"]["off"]
        return cls(stub, (case["e"][:, i].copy(), case["e"][:, j].copy()))
    obj = cls(case["strain"].copy(), c_(*case["shear_key"]), stub)
    obj.modulus = KeyArrays(case["mseed"] + variant, (case["nt"], case["nv"]))
    obj.modulus_rotated = KeyArrays(case["mseed"] + 7 + variant, (case["nt"], case["nv"]))
    return obj


def object_inputs_pristine(kind, obj, case) -> bool:
    if kind == "long":
        i = case["ij"]["long"]
        return bool(numpy.array_equal(obj.e[0], case["e"][:, i]) and numpy.array_equal(obj.e[1], case["e"][:, i]))
    if kind == "off":
        i, j = case["ij"]["off"]
        return bool(numpy.array_equal(obj.e[0], case["e"][:, i]) and numpy.array_equal(obj.e[1], case["e"][:, j]))
    return bool(numpy.array_equal(obj.strain, case["strain"]))


def flat(v):
    """a property value (array, nested tuples of arrays, scalar) as a list of independent float arrays"""
    if isinstance(v, (tuple, list)):
        return [x for e in v for x in flat(e)]
    if isinstance(v, dict):
        return [x for k in sorted(v, key=str) for x in flat(v[k])]
    return [numpy.array(v, dtype=float, copy=True)]


def same(a, b) -> bool:
    return len(a) == len(b) and all(x.shape == y.shape and numpy.array_equal(x, y, equal_nan=True) for x, y in zip(a, b))


def cache_state(obj):
    return sorted(k[1:] for k in vars(obj) if k.startswith("_"))


def c2_cm_K() -> float:
    import scipy.constants
    return scipy.constants.physical_constants["second radiation constant"][0] * 100.0


def closed_form(name, case, variant):
    """Q, Q1, Q2 from their definitions (oracle side; never reads cij)"""
    with numpy.errstate(all="ignore"):
        q = c2_cm_K() * (case[f"freq{variant}"][None, :, :, :] / case["t"][:, None, None, None])
        if name == "Q": return q
        if name == "Q1": return q / numpy.expm1(q)
        return q * q * numpy.exp(-q) / (1.0 - numpy.exp(-q)) ** 2


def gen_scenario(rng, seed, idx, props, thorough):
    nobj = int(rng.integers(1, 5))
    objs = []
    for _ in range(nobj):
        objs.append([KINDS[int(rng.integers(0, 3))], int(rng.random() < 0.4)])
    if nobj >= 2 and rng.random() < 0.7:           # two objects of one class on the two calculators (same grid!)
        k = KINDS[int(rng.integers(0, 2))]
        objs[0], objs[1] = [k, 0], [k, 1]
    nops = int(rng.integers(6, 28 if thorough else 18))
    ops = []
    for _ in range(nops):
        i = int(rng.integers(0, nobj))
        names = sorted(props[objs[i][0]])
        if ops and rng.random() < 0.2:
            ops.append(list(ops[int(rng.integers(0, len(ops)))]))      # read something again
        else:
            ops.append([i, names[int(rng.integers(0, len(names)))]])
    return {"kind": "history", "seed": seed, "idx": idx, "objs": objs, "ops": ops, "prefix": {"thorough": bool(thorough), "n": idx}}


def eval_history(scn):
    """runs the scenario on real objects.  returns (impl_states, failures[(site, what, observed)], nreads)"""
    case = build_case(scn["seed"], scn["idx"])
    stubs = {}
    objs = []
    for kind, var in scn["objs"]:
        if var not in stubs:
            stubs[var] = make_stub(case, var)
        objs.append(make_object(kind, case, stubs[var], var))
    fresh_cache = {}
    first = {}
    states, fails, seen = [], [], set()

    def fail(site, what, obs=None):
        if site not in seen:
            seen.add(site)
            fails.append((site, what, obs))

    with numpy.errstate(all="ignore"), e2e.quiet():
        for step, (i, name) in enumerate(scn["ops"]):
            kind, var = scn["objs"][i]
            try:
                val = flat(getattr(objs[i], name))
            except Exception as ex:     # a read that raises only after some history is a violation; always-raising is not C14's
                try:
                    getattr(make_object(kind, case, make_stub(case, var), var), name)
                    fail(f"history-exception:{kind}:{name}", f"{kind}.{name} raises {type(ex).__name__} after {step} earlier reads but not on a fresh object", str(ex)[:200])
                except Exception:
                    pass
                states.append(cache_state(objs[i]))
                continue
            states.append(cache_state(objs[i]))
            key = (kind, var, name)
            if key not in fresh_cache:
                fresh_cache[key] = flat(getattr(make_object(kind, case, make_stub(case, var), var), name))
            if not same(val, fresh_cache[key]):
                fail(f"history-value:{kind}:{name}", f"{kind}.{name} read at step {step} of a history differs from the value of a fresh object", {"step": step, "object": i})
            if (i, name) in first and not same(val, first[(i, name)]):
                fail(f"read-twice:{kind}:{name}", f"{kind}.{name} read twice on one object returns different arrays", {"step": step, "object": i})
            first.setdefault((i, name), val)
            if kind != "shear" and name in ("Q", "Q1", "Q2"):
                ok, err, _ = family_close(val[0], closed_form(name, case, var), rtol=1e-9)
                if not ok:
                    fail(f"module-state:{name}", f"{kind}.{name} of an object differs from hc/k * omega/T of ITS OWN calculator (relative {err:.3g}): state shared between objects", {"step": step, "object": i, "variant": var})
        # end of history: cached values untouched, inputs untouched
        for (i, name), v0 in first.items():
            kind = scn["objs"][i][0]
            try:
                if not same(flat(getattr(objs[i], name)), v0):
                    fail(f"read-twice:{kind}:{name}", f"{kind}.{name} changed between its first read and the end of the history", {"object": i})
            except Exception as ex:
                fail(f"history-exception:{kind}:{name}", f"{kind}.{name} raises {type(ex).__name__} at the end of the history", str(ex)[:200])
        for var, st in stubs.items():
            if not stub_pristine(st, case, var):
                fail("input-mutated:calculator", "reading properties changed the calculator's arrays in place", {"variant": var})
        for (kind, var), o in zip(scn["objs"], objs):
            if not object_inputs_pristine(kind, o, case):
                fail(f"input-mutated:{kind}", f"reading properties changed the {kind} object's own inputs (e / strain) in place")
    return states, fails, len(scn["ops"])


def part_histories(ctx: Ctx, res: Result, n: int):
    props = {k: class_props(c) for k, c in real_classes().items()}
    # the translated tables against the running classes
    tabs = ctx.driver.ask([{"op": "c14.table", "cls": k} for k in KINDS])
    for k, tab in zip(KINDS, tabs):
        model = {r[0]: bool(r[1]) for r in tab}
        if model != props[k]:
            res.disagreements.append(Disagreement("c14.table", {"cls": k}, props[k], model, "translated (name, isLazy) table differs from the running class"))
    scns = [gen_scenario(ctx.rng, ctx.seed, i, props, ctx.thorough()) for i in range(n)]
    for c in ctx.corpus():
        if c.get("kind") == "history": scns.insert(0, c)
    ops = [{"op": "c14.multi", "objs": [o[0] for o in s["objs"]], "ops": s["ops"]} for s in scns]
    model = ctx.driver.ask(ops)
    # single-object histories also through the single-table op (Memo.history): both model paths must agree
    single = [k for k, s in enumerate(scns) if len(s["objs"]) == 1]
    hist = ctx.driver.ask([{"op": "c14.history", "cls": scns[k]["objs"][0][0], "ops": [o[1] for o in scns[k]["ops"]]} for k in single])
    for k, h in zip(single, hist):
        if h["states"] != model[k]["states"] or not h.get("ranked", False):
            res.disagreements.append(Disagreement("c14.history", scns[k], model[k]["states"], h, "Memo.history and Memo.historyMulti disagree on one object / table not ranked"))
    dist = {"objects": {}, "classes": {}, "ops_per_history": [], "repeated_reads": 0, "shared_grid_pairs": 0, "plain_reads": 0}
    for s, m in zip(scns, model):
        states, fails, nreads = eval_history(s)
        res.evaluations += nreads
        dist["objects"][len(s["objs"])] = dist["objects"].get(len(s["objs"]), 0) + 1
        for k, _ in s["objs"]: dist["classes"][k] = dist["classes"].get(k, 0) + 1
        dist["ops_per_history"].append(len(s["ops"]))
        dist["repeated_reads"] += len(s["ops"]) - len({tuple(o) for o in s["ops"]})
        dist["shared_grid_pairs"] += int(len({tuple(o) for o in s["objs"]}) > 1 and len({o[1] for o in s["objs"]}) > 1)
        dist["plain_reads"] += sum(1 for i, nme in s["ops"] if not props[s["objs"][i][0]].get(nme, True))
        if len({tuple(o) for o in s["ops"]}) >= 3: res.distinct_nontrivial += 1
        if states == m["states"]:
            res.traces_validated += 1
        else:
            k = next((j for j, (a, b) in enumerate(zip(states, m["states"])) if a != b), None)
            res.disagreements.append(Disagreement("c14.multi", s, states[k] if k is not None else states,
                                                  m["states"][k] if k is not None else m["states"],
                                                  f"cache state after op {k} {s['ops'][k] if k is not None else ''}"))
        for site, what, obs in fails:
            res.oracle_failures.append(OracleFailure(what=what, input=s, observed=obs, expected="history-free value", site=site))
        if len(res.samples) < 2:
            res.samples.append({"history": s, "cache_states": states[:4]})
    dist["ops_per_history"] = {"min": min(dist["ops_per_history"]), "max": max(dist["ops_per_history"]), "n": len(scns)}
    res.distribution["histories"] = dist


# ============================================================================================ (c) fill twice
def fill_case(seed: int, idx: int, zero: bool):
    from harness import fillcommon as fc
    rng = sub_rng(seed, 2, idx, int(zero))
    systems = [s for s in fc.SYSTEMS if not (zero and s == "triclinic")]
    system = systems[idx % len(systems)]
    info = fc.invariant_basis(system)
    B = info["B"]
    nrows = int(rng.integers(2, 6))
    for _ in range(200):
        coef = rng.uniform(20.0, 500.0, size=(nrows, info["k"])) * rng.choice([-1.0, 1.0], size=(1, info["k"]))
        coef = coef * (1.0 + 0.05 * numpy.arange(nrows)[:, None])
        zj = None
        if zero:
            zj = int(rng.integers(0, info["k"]))
            coef[:, zj] = 0.0
        T = coef @ B.T
        nz = [i for i in info["nonzero"] if not numpy.all(T[:, i] == 0)]
        if all(numpy.all(numpy.abs(T[:, i]) >= 1.0) for i in nz):
            break
    keys = synth.SYSTEM_INDEPENDENT[system]
    cols = ["V"] + [("C" if rng.random() < 0.15 else "c") + k for k in keys]
    vals = [list(1000.0 - 10.0 * numpy.arange(nrows))] + [T[:, fc.SYMS.index("c" + k)].tolist() for k in keys]
    return {"kind": "fill", "seed": seed, "idx": idx, "zero": zero, "system": system}, cols, vals


def eval_fill(payload, driver):
    """returns (fails, disagreement-or-None, record)"""
    from harness import fillcommon as fc
    _, cols, vals = fill_case(payload["seed"], payload["idx"], payload["zero"])
    system = payload["system"]
    r1 = fc.run_impl(cols, vals, system)
    rec = {"system": system, "first": r1["status"]}
    if r1["status"] != "ok":
        return [], None, rec
    r2 = fc.run_impl(r1["columns"], r1["values"], system)
    rec["second"] = r2["status"]
    m2 = fc.decode_model(driver.ask([fc.model_op(r1["columns"], r1["values"], system)])[0])
    rec["model_second"] = m2["status"]
    ok, note = fc.compare_outcomes(r2, m2)
    dis = None if ok else Disagreement("c09.fill(second call)", {"columns": r1["columns"], "values": r1["values"], "system": system}, r2, m2, note)
    rec["dropped"] = sorted(set(c.lower() for c in cols) - set(c.lower() for c in r1["columns"]))
    fails = []
    if not payload["zero"]:
        same_tab, note2 = fc.compare_outcomes(r2, r1)
        if not same_tab:
            fails.append(("fill-twice:" + (r2["status"] if r2["status"] != "ok" else "table-differs"),
                          f"fill_cij applied to its own output ({system}, consistent table, no vanishing independent component) does not return it: {note2}",
                          {"first_columns": r1["columns"], "second": r2.get("columns", r2["status"])}))
    else:
        rec["unchanged"] = bool(r2["status"] == "ok" and fc.compare_outcomes(r2, r1)[0])
    return fails, dis, rec


def part_fill(ctx: Ctx, res: Result, n: int):
    zero_outcomes = {}
    recs = []
    for idx in range(n):
        for zero in (False, True):
            payload, _, _ = fill_case(ctx.seed, idx, zero)
            fails, dis, rec = eval_fill(payload, ctx.driver)
            res.evaluations += 1
            res.distinct_nontrivial += 1
            if dis is None and "second" in rec: res.traces_validated += 1
            if dis is not None: res.disagreements.append(dis)
            for site, what, obs in fails:
                res.oracle_failures.append(OracleFailure(what=what, input=payload, observed=obs, expected="the same table", site=site))
            if zero:
                key = f"{rec.get('second', 'first:' + rec['first'])}" + ("/unchanged" if rec.get("unchanged") else "")
                zero_outcomes[key] = zero_outcomes.get(key, 0) + 1
                if len(recs) < 3: recs.append(rec)
    res.extra["fill_zero_component"] = {
        "what": "second fill_cij call on a table from which the first call dropped an identically-zero INDEPENDENT component "
                "(outside c14_fill_idempotent's hypothesis; theorem c14_fill_not_idempotent_zero_component): outcome of the real code",
        "outcomes": zero_outcomes, "examples": recs}
    res.distribution["fill_twice"] = {"cases": 2 * n, "systems": "all nine (round robin)", "zero_component_cases": n}


# ============================================================================================ (b) end to end
# (one file name is requested in BOTH sections: whichever base is written last owns the file — the order is fixed by the code, not by a hash)
OUT_A = {"pressure_base": ["cij", "cij_t", {"keyword": "bm_VRH", "fname": "bulk_custom_tp.txt"}, "G_VRH", "v", "vs", "vp", "bm_V", "G_R",
                           {"keyword": "G_VRH", "fname": "shared_between_bases.txt"}],
         "volume_base": ["p", "cij", "bm_VRH", "vs", {"keyword": "G_V", "fname": "shear_custom_tv.txt"},
                         {"keyword": "G_VRH", "fname": "shared_between_bases.txt"}]}
OUT_B = {"pressure_base": ["cij", "cij_t", "bm_VRH", "G_VRH", "v", "vs", "vp", "bm_V", "G_R"],
         "volume_base": ["p", "cij", "bm_VRH", "vs", "G_V"]}
GRID = {"NT": 4, "DT": 250, "DT_SAMPLE": 250, "NTV": 10, "DELTA_P": 2.0, "DELTA_P_SAMPLE": 2.0}


def make_pair(seed: int, variant: int = 0):
    """A and B: same volumes/energies/static table/grid settings; B has other frequencies, relies on the packaged
    defaults where A overrides them (mode_gamma order), and has plain output requests where A renames files."""
    systems = [SYSTEM, "hexagonal", "trigonal6", "tetragonal7", "cubic", "orthorhombic"]
    system = systems[variant % len(systems)]
    rng = sub_rng(seed, 3, variant)
    a = synth.make_dataset(rng, nv=6, nq=int(rng.integers(2, 4)), na=2, system=system, lattice=bool(variant % 2),
                           law=["power", "quadratic"][variant % 2],
                           settings={"qha": {"settings": dict(GRID)}, "output": copy.deepcopy(OUT_A),
                                     "elast": {"settings": {"mode_gamma": {"interpolator": "lsq_poly", "order": 2},
                                                            "symmetry": {"system": system, "drop_atol": 1e-7}}}})
    b = copy.deepcopy(a)
    f = rng.uniform(0.9, 1.12, size=a.freqs.shape[1:])
    b.freqs = a.freqs * f[None]
    b.freqs[:, 0, :3] = a.freqs[:, 0, :3]
    b.settings["output"] = copy.deepcopy(OUT_B)
    del b.settings["elast"]["settings"]["mode_gamma"]              # packaged default: lsq_poly order 3
    b.settings["elast"]["settings"]["symmetry"] = {"system": system}
    return a, b, system


def make_twin(a, seed: int, variant: int):
    """C: the same file NAMES, volumes, grid, interpolator, order and output requests as A — only the phonon frequencies differ
    (anything remembered under a key made of names and settings instead of the data would hand C the tables of A)."""
    rng = sub_rng(seed, 6, variant)
    c = copy.deepcopy(a)
    f = rng.uniform(0.88, 1.1, size=a.freqs.shape[1:])
    c.freqs = a.freqs * f[None]
    c.freqs[:, 0, :3] = a.freqs[:, 0, :3]
    return c


INPUT_NAMES = {"input01", "elast.dat", "settings.yaml"}


def add_junk(d: str, system: str):
    os.makedirs(os.path.join(d, system), exist_ok=True)            # a DIRECTORY named like the crystal system
    with open(os.path.join(d, system, "notes.txt"), "w") as fp: fp.write("c11 = c22\n")
    os.makedirs(os.path.join(d, "constraints"), exist_ok=True)
    with open(os.path.join(d, "constraints", system), "w") as fp: fp.write("c11 = -c22\n")
    for n, txt in (("%s.txt" % system, "c11 = c33\n"), ("settings.yaml.bak", "qha: 1\n"), ("writer_rules.yml", "[]\n"),
                   ("elast.dat~", "junk\n"), ("default", "x\n"), ("input01.old", "junk\n")):
        with open(os.path.join(d, n), "w") as fp: fp.write(txt)


def snapshot(d: str):
    """every regular file below d: relative name -> bytes"""
    out = {}
    for root, _, files in os.walk(d):
        for n in files:
            p = os.path.join(root, n)
            with open(p, "rb") as fp: out[os.path.relpath(p, d)] = fp.read()
    return out


def created(before: dict, after: dict) -> dict:
    return {k: v for k, v in after.items() if k not in before or before[k] != v}


def diff_files(ref: dict, got: dict):
    if sorted(ref) != sorted(got):
        return {"only_in_reference": sorted(set(ref) - set(got))[:6], "only_in_this_run": sorted(set(got) - set(ref))[:6]}
    for k in sorted(ref):
        if ref[k] != got[k]:
            a, b = ref[k].decode(errors="replace").splitlines(), got[k].decode(errors="replace").splitlines()
            ln = next((i for i, (x, y) in enumerate(zip(a, b)) if x != y), min(len(a), len(b)))
            ta, tb = (a[ln].split() if ln < len(a) else []), (b[ln].split() if ln < len(b) else [])
            col = next((i for i, (x, y) in enumerate(zip(ta, tb)) if x != y), min(len(ta), len(tb)))
            return {"file": k, "line": ln, "column": col, "reference": ta[col] if col < len(ta) else None,
                    "this_run": tb[col] if col < len(tb) else None, "files_differing": sum(1 for q in ref if ref[q] != got[q])}
    return None


def launch(code: str, args, cwd: str, hashseed):
    env = dict(os.environ)
    env["PYTHONPATH"] = REPO
    env["PYTHONHASHSEED"] = str(hashseed)
    env.pop("PYTHONSTARTUP", None)
    return subprocess.Popen([PY, "-c", code, *args], cwd=cwd, env=env, stdout=subprocess.PIPE, stderr=subprocess.PIPE)


class Sub:
    """one subprocess run of `cij run` / `cij fill` in its own scratch directory"""

    def __init__(self, label, ds, system, what, hashseed, cwd_mode, root):
        self.label, self.what, self.hashseed, self.cwd_mode = label, what, hashseed, cwd_mode
        self.data = os.path.join(root, label, "data")
        synth.write_all(self.data, ds)
        self.cwd = self.data
        if cwd_mode == "junk-in-data":
            add_junk(self.data, system)
        elif cwd_mode == "shadow-file":                             # a regular FILE named exactly like the crystal system
            with open(os.path.join(self.data, system), "w") as fp: fp.write("c11 = c22\n")
        elif cwd_mode == "elsewhere-junk":
            self.cwd = os.path.join(root, label, "cwd")
            os.makedirs(self.cwd)
            add_junk(self.cwd, system)
        self.before = snapshot(self.cwd)
        rel = (lambda n: n) if self.cwd == self.data else (lambda n: os.path.join(self.data, n))
        if what == "run":
            self.proc = launch(RUN_CODE, [rel("settings.yaml")], self.cwd, hashseed)
        elif what == "fill":
            self.proc = launch(FILL_CODE, [rel("elast.dat"), "-s", system], self.cwd, hashseed)
        else:
            self.proc = launch("import cij, sys; sys.stdout.write(cij.__file__)", [], self.cwd, hashseed)

    def finish(self, timeout):
        try:
            out, err = self.proc.communicate(timeout=timeout)
        except subprocess.TimeoutExpired:
            self.proc.kill()
            out, err = self.proc.communicate()
            self.rc, self.stdout, self.stderr, self.files = -9, out, err, {}
            return
        self.rc, self.stdout, self.stderr = self.proc.returncode, out, err
        self.files = created(self.before, snapshot(self.cwd))


@contextlib.contextmanager
def warnings_only():
    """numpy's warnings silenced, `logging` left exactly as the process history left it (level set by an earlier `cij run --debug`)"""
    import warnings
    with warnings.catch_warnings():
        warnings.simplefilter("ignore")
        yield


def run_inproc(ds, root, label, keep_logging=False):
    """the real Calculator in THIS process; returns (calculator, {file: bytes})"""
    import cij.core.calculator as cc
    d = os.path.join(root, label, "data")
    out = os.path.join(root, label, "out")
    os.makedirs(out)
    path = synth.write_all(d, ds)
    cwd = os.getcwd()
    with (warnings_only() if keep_logging else e2e.quiet()):
        calc = cc.Calculator(path)
        os.chdir(out)
        try:
            calc.write_output()
        finally:
            os.chdir(cwd)
    return calc, snapshot(out)


def failed_then_valid(ds, root, label):
    """A calculation whose inputs cannot be loaded (its static table is missing) is attempted and the exception caught — as a driver
    looping over cases does — from a working directory of our own; then a valid calculation is run WITHOUT any further chdir and
    writes relative to the working directory it finds.  Returns (cwd_unchanged, {file: bytes} found in OUR working directory)."""
    import cij.core.calculator as cc
    bad = os.path.join(root, label, "bad")
    synth.write_all(bad, ds)
    os.remove(os.path.join(bad, ds.settings["elast"]["input"]))
    good = os.path.join(root, label, "data")
    out = os.path.join(root, label, "out")
    os.makedirs(out)
    path = synth.write_all(good, ds)
    cwd = os.getcwd()
    os.chdir(out)
    try:
        with e2e.quiet():
            try:
                cc.Calculator(os.path.join(bad, "settings.yaml"))
                raised = False
            except Exception:
                raised = True
            here = os.getcwd()
            calc = cc.Calculator(path)
            calc.write_output()
    finally:
        os.chdir(cwd)
    return raised, os.path.realpath(here) == os.path.realpath(out), snapshot(out)


def other_commands(ds, root, system):
    """`cij run-static` (three modes) and `cij fill` through click's CliRunner in THIS process, on the data set's own files"""
    from click.testing import CliRunner
    import cij.cli.static, cij.cli.fill
    d = os.path.join(root, "other-cmds")
    synth.write_all(d, ds)
    i1, i2 = os.path.join(d, ds.settings["qha"]["input"]), os.path.join(d, ds.settings["elast"]["input"])
    done = []
    with e2e.quiet():
        for args, label in ((["-I", "none"], "run-static"), (["-I", "volume", "-n", "21"], "run-static -I volume"),
                            (["-I", "pressure", "-n", "11", "--delta-p", "0.5"], "run-static -I pressure")):
            r = CliRunner().invoke(cij.cli.static.main, [i1, i2] + args + (["-s", system] if system else []))
            done.append(label + ("" if r.exit_code == 0 else f" (exit {r.exit_code})"))
        if system:
            r = CliRunner().invoke(cij.cli.fill.main, ["-s", system, i2])
            done.append("fill" + ("" if r.exit_code == 0 else f" (exit {r.exit_code})"))
        # `cij run --debug DEBUG`: the command sets the level of the "cij" logger and never restores it — part of the process history
        import cij.cli.main, logging
        out = os.path.join(d, "run-debug-out"); os.makedirs(out)
        cwd = os.getcwd(); os.chdir(out)
        try:
            r = CliRunner().invoke(cij.cli.main.main, ["--debug", "DEBUG", os.path.join(d, "settings.yaml")])
        finally:
            os.chdir(cwd)
            for h in list(logging.getLogger("cij").handlers):            # the handler's stream belongs to the finished CliRunner
                logging.getLogger("cij").removeHandler(h)
        done.append("run --debug DEBUG" + ("" if r.exit_code == 0 else f" (exit {r.exit_code})"))
    return done


def write_again(calc, root, label):
    out = os.path.join(root, label)
    os.makedirs(out)
    cwd = os.getcwd()
    with e2e.quiet():
        os.chdir(out)
        try:
            calc.write_output()
        finally:
            os.chdir(cwd)
    return snapshot(out)


BASE_PROPS = ["bulk_modulus_voigt", "bulk_modulus_reuss", "bulk_modulus_voigt_reuss_hill", "shear_modulus_voigt", "shear_modulus_reuss",
              "shear_modulus_voigt_reuss_hill", "primary_velocities", "secondary_velocities", "c11", "c12", "c33", "c44", "c11t", "c44s",
              "s11", "s12", "s44", "modulus_adiabatic", "modulus_isothermal", "t_array"]


def read_base(calc, base: str, name: str):
    b = calc.volume_base if base == "tv" else calc.pressure_base
    v = getattr(b, name)
    if name.startswith("modulus_"):
        return flat([x for _, x in v.items()])
    return flat(v)


def random_reads(calc, rng, n):
    """random order of property access on both bases, every property read at least twice somewhere; returns failures"""
    fails, first = [], {}
    names = [("tv", p) for p in BASE_PROPS + ["pressures", "v_array"]] + [("tp", p) for p in BASE_PROPS + ["volumes", "p_array"]]
    # every property once (first values), a random stretch, then every property again in another order: whatever a later read
    # (or the second calculate()) does to an array handed out or cached earlier shows up in the final sweep
    seq = [names[int(i)] for i in rng.permutation(len(names))]
    seq = seq + [names[int(i)] for i in rng.integers(0, len(names), size=n)]
    seq = seq + [names[int(i)] for i in rng.permutation(len(names))]
    with e2e.quiet(), numpy.errstate(all="ignore"):
        for k, (base, name) in enumerate(seq):
            if k == len(seq) // 2:        # calculate() again in the middle of the history
                tl = calc._full_modulus._phonon_contribution_task_list
                before = flat([v for _, v in sorted(tl.get_isothermal_results().items(), key=lambda kv: kv[0].v)])
                tl.calculate()
                after = flat([v for _, v in sorted(tl.get_isothermal_results().items(), key=lambda kv: kv[0].v)])
                if not same(before, after):
                    fails.append(("history:calculate-twice", "PhononContributionTaskList.calculate() called again changes the isothermal results", None))
            try:
                v = read_base(calc, base, name)
            except AttributeError:
                continue                                      # component not present for this system
            if (base, name) in first and not same(first[(base, name)], v):
                fails.append((f"read-twice:{base}:{name}", f"{base}.{name} read twice returns different arrays", {"position": k}))
            first.setdefault((base, name), v)
    return fails, len(seq)


def access_order(ds, root, label):
    """Two FRESH calculators on the same files (nothing written, nothing read before): one reads every property of both bases in
    a fixed order, the other in the reverse order — so for any two properties each is read before the other once.  A value that
    depends on what was read earlier (a cached array another property later overwrites, a getter that finishes someone else's
    computation) differs between the two.  Returns failures."""
    import cij.core.calculator as cc
    fails = []
    names = [("tv", p) for p in BASE_PROPS + ["pressures", "v_array"]] + [("tp", p) for p in BASE_PROPS + ["volumes", "p_array"]]
    path = synth.write_all(os.path.join(root, label, "data"), ds)
    got = []
    with e2e.quiet(), numpy.errstate(all="ignore"):
        for order in (names, names[::-1]):
            calc = cc.Calculator(path)
            vals = {}
            for base, name in order:
                try:
                    vals[(base, name)] = read_base(calc, base, name)
                except AttributeError:
                    continue
            got.append(vals)
            del calc
    for key in got[0]:
        if key in got[1] and not same(got[0][key], got[1][key]):
            fails.append((f"access-order:{key[0]}:{key[1]}", f"{key[0]}.{key[1]} read first and read last on fresh calculators differ: "
                          "the value depends on the order of property access", None))
    return fails, 2 * len(names)


def config_isolation(a_settings, b_settings):
    """apply_default_config / update_config must not leak between calls nor touch their arguments"""
    import cij.io
    from cij.io.config.config import update_config
    fails = []
    ua, ub = copy.deepcopy(a_settings), copy.deepcopy(b_settings)
    r1 = copy.deepcopy(cij.io.apply_default_config(ub))
    cij.io.apply_default_config(ua)
    r2 = cij.io.apply_default_config(ub)
    if r1 != r2:
        diff = [k for k in ("qha", "elast", "output") if r1.get(k) != r2.get(k)]
        fails.append(("config-isolation:apply_default_config", "apply_default_config(B) differs after apply_default_config(A) in the same process",
                      {"sections": diff, "before": r1.get("elast", {}).get("settings", {}).get("mode_gamma"), "after": r2.get("elast", {}).get("settings", {}).get("mode_gamma")}))
    if ub != b_settings or ua != a_settings:
        fails.append(("config-isolation:argument-mutated", "apply_default_config changed the user's dictionary in place", None))
    d = {"x": {"y": 1, "z": {"w": [1, 2]}}, "k": 3}
    u = {"x": {"y": 2, "z": {"q": 0}}, "n": {"m": 1}}
    d0, u0 = copy.deepcopy(d), copy.deepcopy(u)
    o1 = update_config(u, d)
    o2 = update_config(u, d)
    if d != d0 or u != u0:
        fails.append(("config-isolation:update_config-mutates-arguments", "update_config changed one of its arguments in place", {"default_after": d, "user_after": u}))
    if o1 != o2:
        fails.append(("config-isolation:update_config-twice", "update_config called twice on the same arguments returns different dictionaries", None))
    return fails


def eval_e2e(seed: int, variant: int, thorough: bool, nseeds: int, time_left: float):
    """the whole end-to-end scenario for one pair of data sets.  returns (fails, stats)"""
    fails, seen, stats = [], set(), {"comparisons": 0, "subprocesses": 0}

    def fail(site, what, obs=None):
        if site not in seen:
            seen.add(site)
            fails.append((site, what, obs))

    a, b, system = make_pair(seed, variant)
    c = make_twin(a, seed, variant)
    rng = sub_rng(seed, 4, variant)
    hs = [0, 1] + [int(x) for x in rng.integers(2, 2**31, size=max(1, nseeds - 2))]
    root = tempfile.mkdtemp(prefix="cijverif_c14_")
    prev_cwd = os.getcwd()
    try:
        subs = []
        modes = ["clean", "elsewhere-junk", "junk-in-data"]
        for k, h in enumerate(hs):
            subs.append(Sub(f"runA{k}", a, system, "run", h, modes[k % 3], root))
        subs.append(Sub("runB", b, system, "run", hs[-1], "clean", root))
        subs.append(Sub("runC", c, system, "run", hs[0], "clean", root))
        for k, h in enumerate(hs):
            subs.append(Sub(f"fillA{k}", a, system, "fill", h, ["clean", "elsewhere-junk", "clean"][k % 3], root))
        subs.append(Sub("runA-shadow", a, system, "run", 0, "shadow-file", root))
        subs.append(Sub("whoami", a, system, "whoami", 0, "clean", root))
        t_end = time.time() + max(60.0, min(time_left - 30.0, 900.0))
        for s in subs:
            s.finish(max(5.0, t_end - time.time()))
        stats["subprocesses"] = len(subs)
        who = subs[-1]
        if who.rc != 0 or not os.path.realpath(who.stdout.decode().strip()).startswith(os.path.realpath(REPO) + os.sep):
            raise RuntimeError(f"subprocesses do not import cij from {REPO}: rc={who.rc} {who.stdout[:200]!r} {who.stderr[-300:]!r}")
        runsA = [s for s in subs if s.label.startswith("runA") and s.cwd_mode != "shadow-file"]
        shadow = next(s for s in subs if s.label == "runA-shadow")
        runB = next(s for s in subs if s.label == "runB")
        fills = [s for s in subs if s.label.startswith("fillA")]
        bad = []
        for group in (runsA, fills):
            gb = [s for s in group if s.rc != 0]
            if gb and len(gb) == len(group):      # not a question of history / hash seed / cwd: C14 cannot say anything
                raise RuntimeError(f"`cij {gb[0].what}` fails in every fresh process: rc={gb[0].rc} {gb[0].stderr.decode(errors='replace')[-600:]}")
            bad += gb
        if runB.rc != 0:
            raise RuntimeError(f"`cij run` on data set B fails in a fresh process: rc={runB.rc} {runB.stderr.decode(errors='replace')[-600:]}")
        for s in bad:
            fail(f"subprocess:{s.what}:fails-only-sometimes", f"`cij {s.what}` exits {s.rc} under PYTHONHASHSEED={s.hashseed}, cwd={s.cwd_mode}, while other runs of the same calculation succeed",
                 s.stderr.decode(errors="replace")[-300:])
        good = [s for s in runsA if s.rc == 0]
        refA = good[0].files if good else None
        for s in good[1:]:
            stats["comparisons"] += 1
            d = diff_files(refA, s.files)
            if d is not None:
                why = "cwd" if s.hashseed == good[0].hashseed else ("hashseed" if s.cwd_mode == good[0].cwd_mode else "hashseed-or-cwd")
                fail(f"run:{why}:files-differ", f"`cij run` output differs between PYTHONHASHSEED={good[0].hashseed}/cwd={good[0].cwd_mode} and PYTHONHASHSEED={s.hashseed}/cwd={s.cwd_mode}", d)
        if refA is not None:
            stats["comparisons"] += 1
            d = {"exit_code": shadow.rc, "stderr": shadow.stderr.decode(errors="replace").strip().splitlines()[-1:]} if shadow.rc != 0 \
                else diff_files(refA, {k: v for k, v in shadow.files.items() if k != system})
            stats["regular_file_named_like_system"] = "ignored" if d is None else d
            if d is not None:
                fail(SITE_SHADOW, f"a regular file named '{system}' in the working directory changes the calculation: it is read as the symmetry "
                                  f"relations instead of the packaged constraints of {system} (fill.py: Path(system).is_file())", d)
        goodf = [s for s in fills if s.rc == 0]
        for s in goodf[1:]:
            stats["comparisons"] += 1
            if s.stdout != goodf[0].stdout:
                x, y = goodf[0].stdout.decode(errors="replace").splitlines(), s.stdout.decode(errors="replace").splitlines()
                ln = next((i for i, (p, q) in enumerate(zip(x, y)) if p != q), min(len(x), len(y)))
                fail("fill:stdout-differs", f"`cij fill -s {system}` prints different tables under PYTHONHASHSEED={goodf[0].hashseed}/cwd={goodf[0].cwd_mode} and PYTHONHASHSEED={s.hashseed}/cwd={s.cwd_mode}",
                     {"line": ln, "reference": x[ln][:200] if ln < len(x) else None, "this_run": y[ln][:200] if ln < len(y) else None})
        stats["files_per_run"] = len(refA) if refA else 0
        stats["fill_new_columns"] = None
        if goodf:
            hdr = goodf[0].stdout.decode(errors="replace").splitlines()[2].split()
            stats["fill_new_columns"] = len(hdr) - 1 - len(a.static_keys)
        refB = runB.files if runB.rc == 0 else None
        runC = next(s for s in subs if s.label == "runC")
        refC = runC.files if runC.rc == 0 else None
        # ------------------------------------------------------------ one process, both orders
        if refA is not None and refB is not None:
            def check(label, ref, files, site, what):
                stats["comparisons"] += 1
                d = diff_files(ref, files)
                if d is not None: fail(site, what, d)
            try:
                ca, fa = run_inproc(a, root, "inA1")
                check("inA1", refA, fa, "inprocess:A:files-differ", "A computed in a process with history differs from A in a fresh process")
                cb, fb = run_inproc(b, root, "inB-afterA-keep")
                check("inB1", refB, fb, "interleave:A-then-B:keep:files-differ", "B computed after A (A still alive) in one process differs from B in a fresh process")
                check("inA1w", refA, write_again(ca, root, "inA1-again"), "interleave:A-written-after-B:files-differ",
                      "A.write_output() after B was computed and written differs from A in a fresh process")
                del ca, cb
                gc.collect()
                cb2, fb2 = run_inproc(b, root, "inB2")
                check("inB2", refB, fb2, "interleave:B-after-release:files-differ", "B computed after A and B were released differs from B in a fresh process")
                del cb2
                gc.collect()
                ca2, fa2 = run_inproc(a, root, "inA-afterB-release")
                check("inA2", refA, fa2, "interleave:B-then-A:release:files-differ", "A computed after B (released) in one process differs from A in a fresh process")
                # ---- a data set that differs from A only in the CONTENT of its phonon file (same names, settings, grid), A alive
                if refC is not None:
                    cc, fc_ = run_inproc(c, root, "inC-afterA-keep")
                    check("inC1", refC, fc_, "interleave:A-then-twin:files-differ",
                          "C (same file names and settings as A, other frequencies) computed after A in one process differs from C in a fresh process")
                    check("inA2c", refA, write_again(ca2, root, "inA2-after-twin"), "interleave:A-written-after-twin:files-differ",
                          "A.write_output() after its same-named twin C was computed differs from A in a fresh process")
                    del cc
                # ---- a calculation that FAILED earlier in the process (inputs missing, exception caught by the caller)
                raised, same_cwd, ff = failed_then_valid(a, root, "inA-after-failed")
                stats["failed_load_then_valid"] = {"first_raised": raised, "cwd_unchanged": same_cwd}
                if raised:
                    if not same_cwd:
                        fail("history:failed-load-changes-cwd", "after a calculation that failed to load its inputs (exception caught) the process "
                             "is in another working directory: the next calculation writes its tables elsewhere", None)
                    check("inA-failed", refA, ff, "history:failed-load-then-run:files-differ",
                          "A computed after another calculation failed to load its inputs differs from A in a fresh process (files in the caller's working directory)")
                # ---- other commands of the package earlier in the same process (run-static in every mode, fill): "process history"
                other = other_commands(a, root, system)
                stats["other_commands_in_history"] = other
                ca3, fa3 = run_inproc(a, root, "inA-after-commands", keep_logging=True)
                check("inA3", refA, fa3, "history:other-commands-then-run:files-differ",
                      f"A computed after {', '.join(other)} ran in the same process differs from A in a fresh process")
                del ca3
                of, no = access_order(a, root, "access-order")
                stats["access_order_reads"] = no
                for f in of[:4]: fail(*f)
                rf, nr = random_reads(ca2, sub_rng(seed, 5, variant), 60 if thorough else 30)
                stats["base_reads"] = nr
                for f in rf: fail(*f)
                check("inA2w", refA, write_again(ca2, root, "inA2-w2"), "history:write-after-reads:files-differ",
                      "write_output() after random reads on both bases and a second calculate() differs from a fresh run")
                check("inA2w3", refA, write_again(ca2, root, "inA2-w3"), "history:write-twice:files-differ", "a repeated write_output() writes different files")
                del ca2
            except Exception as ex:
                fail(f"inprocess:exception:{type(ex).__name__}", f"a calculation that succeeds in a fresh process raises {type(ex).__name__} in a process with history", str(ex)[:300])
            for f in config_isolation(a.settings, b.settings): fail(*f)
            stats["comparisons"] += 3
    finally:
        os.chdir(prev_cwd)
        shutil.rmtree(root, ignore_errors=True)
    stats["system"], stats["hashseeds"] = system, hs
    return fails, stats


def part_e2e(ctx: Ctx, res: Result):
    variants = [0, 1, 2, 3, 4, 5] if ctx.thorough() else [0, 1]
    nseeds = 6 if ctx.thorough() else 4
    allstats = []
    for v in variants:
        if ctx.time_left() < 120: res.notes.append("time budget reached before all end-to-end variants ran"); break
        payload = {"kind": "e2e", "seed": ctx.seed, "variant": v, "thorough": ctx.thorough(), "nseeds": nseeds}
        fails, stats = eval_e2e(ctx.seed, v, ctx.thorough(), nseeds, ctx.time_left())
        allstats.append(stats)
        res.evaluations += stats["comparisons"]
        res.distinct_nontrivial += stats["comparisons"]
        res.traces_validated += stats["comparisons"] - len(fails)
        for site, what, obs in fails:
            res.oracle_failures.append(OracleFailure(what=what, input=dict(payload, site=site), observed=obs, expected="byte-identical files / equal values", site=site))
    res.distribution["end_to_end"] = allstats
    if allstats and len(res.samples) < 4:
        res.samples.append({"end_to_end": allstats[0]})


# ============================================================================================ entry points
def run(ctx: Ctx) -> Result:
    res = Result()
    res.rule = ("evaluation = one property read in a history (value vs fresh object / first read / closed form, cache state vs model), "
                "one byte comparison of a complete output-file set (or fill stdout) between two runs, or one fill-twice case; "
                "non-trivial history = at least 3 distinct (object, property) reads; every file-set comparison and fill case counts")
    part_histories(ctx, res, 400 if ctx.thorough() else 100)
    part_fill(ctx, res, 27 if ctx.thorough() else 9)
    try:
        part_e2e(ctx, res)
    except RuntimeError as ex:
        if not res.oracle_failures:        # nothing concrete found elsewhere: an infrastructure error, not a verdict
            raise
        res.notes.append(f"end-to-end part not evaluated: {ex}")
    return res


def search(ctx: Ctx, res: Result):
    """tie broken and nothing concrete found: more histories, more hash seeds, more data sets"""
    out, seen = [], set()
    c2 = Ctx(pid=ctx.pid, tier="thorough", seed=ctx.seed + 1000, rng=make_rng(ctx.seed + 1000, ctx.pid), driver=ctx.driver,
             corpus_dir=ctx.corpus_dir, deadline=ctx.deadline)
    r2 = Result()
    try:
        part_histories(c2, r2, 200)
        part_fill(c2, r2, 9)
    except Exception as ex:            # the model may not run when the build is broken: the oracle part does not need it
        r2.notes.append(f"search: {type(ex).__name__}: {ex}")
        props = {k: class_props(c) for k, c in real_classes().items()}
        for i in range(200):
            s = gen_scenario(c2.rng, c2.seed, i, props, True)
            _, fails, _ = eval_history(s)
            for site, what, obs in fails:
                r2.oracle_failures.append(OracleFailure(what=what, input=s, observed=obs, site=site))
    for v in (0, 1):
        if ctx.time_left() < 150: break
        fails, _ = eval_e2e(c2.seed, v, True, 6, ctx.time_left())
        for site, what, obs in fails:
            r2.oracle_failures.append(OracleFailure(what=what, input={"kind": "e2e", "seed": c2.seed, "variant": v, "thorough": True, "nseeds": 6, "site": site},
                                                    observed=obs, site=site))
    for f in r2.oracle_failures:
        if f.site not in seen:
            seen.add(f.site)
            out.append(f)
    return out


def replay(ctx: Ctx, payload):
    kind = payload.get("kind")
    if kind == "history":
        _, fails, _ = eval_history(payload)
        pre = payload.get("prefix")
        if not fails and pre and pre.get("n", 0) > 0:
            # the failure may need the process history of the run that found it: regenerate and run the histories that
            # preceded this one (same generator as run()), then this one again
            props = {k: class_props(c) for k, c in real_classes().items()}
            rng = make_rng(payload["seed"], ctx.pid)
            for i in range(pre["n"]):
                eval_history(gen_scenario(rng, payload["seed"], i, props, pre.get("thorough", False)))
            _, fails, _ = eval_history(payload)
        return [OracleFailure(what=w, input=payload, observed=o, site=s) for s, w, o in fails]
    if kind == "fill":
        fails, _, _ = eval_fill(payload, ctx.driver)
        return [OracleFailure(what=w, input=payload, observed=o, site=s) for s, w, o in fails]
    if kind == "e2e":
        fails, _ = eval_e2e(payload["seed"], payload["variant"], payload.get("thorough", False), payload.get("nseeds", 3), ctx.time_left())
        want = payload.get("site")
        hit = [f for f in fails if f[0].split(":")[0] == want.split(":")[0]] if want else [f for f in fails if f[0] != SITE_SHADOW]
        return [OracleFailure(what=w, input=payload, observed=o, site=s) for s, w, o in hit]
    raise ValueError(f"unknown replay payload kind {kind!r}")
