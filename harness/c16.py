"""C16 — effective configuration = user settings over packaged defaults; invalid configurations rejected.

Three streams, each with (a) correspondence real code <-> Lean model and (b) an oracle of the property
STATEMENT that uses neither the code under test nor the model:

  merge      random nested dicts (depth <= 4; shared / disjoint keys; leaf-vs-dict collisions in both directions)
             through the real `update_config` / `apply_default_config`; result compared with the model *as a map*
             (type-aware: 1, 1.0 and True are different); inputs deep-compared before/after; idempotence.
             ORACLE: leaf-path / key-path set computations written here.
  validate   every single-field perturbation (wrong type, out of range, unknown enumeration value, unknown key,
             missing section) of the packaged default, of every shipped example and of a minimal configuration,
             through the real `validate_config`.  ORACLE: the documented constraint table `FIELDS` below, typed from
             the property statement / the documentation of settings.yaml, not from the schema file (the GENERATOR may
             and does read the current schema file for extra candidate values).
             Plus: the evaluator of the model is compared with the real `jsonschema.validate` on systematic variants
             of the packaged schema (so that the model of the third-party validator is not tied to one schema only).
  spelling   the same configuration written as JSON, block-style YAML and flow-style YAML into .json/.yml/.yaml
             files and loaded by the real `read_config` must be equal (type-aware) — the parsers are NOT modelled;
             the choice of parser by suffix is (model op `c16.parser`).

  state      (every quick run) the same user dict OBJECT merged twice, then deep-compared with a pristine copy; one default
             dict object through a sequence of merges with different users, deep-compared before/after, every result
             against an independent reference merge of pristine copies; `apply_default_config` through sequences of
             different users with the results poked in between (a memoised default would leak); a configuration
             validated and then deep-compared with a pristine copy (no default filling); files lacking each top-level
             section through `read_config` (qha / elast missing: must raise, although the defaults would supply them) and
             through `read_config(validate=False)` + `apply_default_config` (must be the reference merge of the raw content
             over the packaged default).  ORACLE: `ref_merge` below (written from the property statement) and the file
             content the harness wrote.
  source     the SOURCE of config.py / validate.py / __init__.py is tied by the translator plug-in tools/gens/config_src.py
             (printed Lean definitions + theorems `*_is_source`); nothing of it runs here.

Repaired genuine defect (fix a3016c4; site `update_config:user-dict-over-non-dict-default`): a user dictionary where
the default has a list/scalar used to raise AttributeError; now the user's dictionary is taken whole.  Such inputs
stay in the generator (about a fifth of the merge cases, and corpus/C16/defect-user-dict-over-default-list.json) and an
AttributeError there is still reported as an OracleFailure under that stable site.
"""
from __future__ import annotations

import copy
import json
import math
import os
import shutil
import tempfile
from fractions import Fraction

import yaml

from harness.common import Ctx, Result, Disagreement, OracleFailure, REPO, make_rng

ASSUMPTIONS = [
    "dict keys are strings; values are None/bool/int/finite float/str/list/dict (YAML dates, tuples, sets, binary, "
    "NaN/inf and non-string keys are outside the model and are not generated)",
    "jsonschema picks Draft 2020-12 for a schema without $schema ($ref siblings honoured) — measured on every run",
    "any exception type other than jsonschema.ValidationError raised by validate_config counts as 'rejected' for the "
    "oracle and as a disagreement for the correspondence",
    "YAML/JSON parsers are not modelled: the spelling clause is tested on the real read_config only",
    "the iteration order of the Python set of keys is not observed: results are compared as maps, and the model is "
    "run with several orders (id / reverse / sorted / rotated) which must agree as maps (theorem c16_order_free)",
]
TRUSTED_EXTRA = [
    "PyYAML / json used by the harness to read the shipped files and to write the spelling variants",
    "the documented constraint table FIELDS in harness/c16.py (typed from the property statement and docs/usage/input.rst)",
]

SITE_DEFECT = "update_config:user-dict-over-non-dict-default"

# ------------------------------------------------------------------------------------------------ documented fields
INTERPOLATORS = ["lsq_poly", "lagrange", "spline", "krogh", "pchip", "hermite", "akima"]
SYSTEMS = ["triclinic", "monoclinic", "hexagonal", "trigonal6", "trigonal7", "orthorhombic", "tetragonal6",
           "tetragonal7", "cubic"]
# (path, json type, minimum or None, admissible strings or None) — the documentation of settings.yaml
FIELDS = [
    (("qha", "input"), "string", None, None),
    (("qha", "settings", "NT"), "integer", 1, None),
    (("qha", "settings", "DT"), "number", None, None),
    (("qha", "settings", "T_MIN"), "number", 0, None),
    (("qha", "settings", "NTV"), "integer", 1, None),
    (("qha", "settings", "P_MIN"), "number", None, None),
    (("qha", "settings", "DELTA_P"), "number", None, None),
    (("qha", "settings", "DELTA_P_SAMPLE"), "number", None, None),
    (("qha", "settings", "volume_ratio"), "number", 1, None),
    (("qha", "settings", "order"), "number", 2, None),
    (("elast", "input"), "string", None, None),
    (("elast", "settings", "mode_gamma", "interpolator"), "string", None, INTERPOLATORS),
    (("elast", "settings", "mode_gamma", "order"), "integer", 1, None),
    (("elast", "settings", "symmetry", "system"), "string", None, SYSTEMS),
    (("elast", "settings", "symmetry", "ignore_residuals"), "boolean", None, None),
    (("elast", "settings", "symmetry", "ignore_rank"), "boolean", None, None),
    (("elast", "settings", "symmetry", "drop_atol"), "number", None, None),
    (("elast", "settings", "symmetry", "residual_atol"), "number", None, None),
]
CLOSED = {  # dictionaries in which unknown keys must be rejected, with their documented keys
    ("elast", "settings"): ["mode_gamma", "symmetry"],
    ("elast", "settings", "symmetry"): ["system", "ignore_residuals", "ignore_rank", "drop_atol", "residual_atol"],
}


def json_type_ok(t, v):
    """JSON data model: booleans are not numbers; a number with zero fractional part is an integer."""
    if t == "string": return isinstance(v, str)
    if t == "boolean": return isinstance(v, bool)
    if isinstance(v, bool): return False
    if t == "number": return isinstance(v, (int, float))
    if t == "integer": return isinstance(v, int) or (isinstance(v, float) and math.isfinite(v) and v == int(v))
    raise ValueError(t)


def documented_ok(spec, v):
    _, t, mn, en = spec
    if not json_type_ok(t, v): return False
    if mn is not None and Fraction(v) < mn: return False
    if en is not None and v not in en: return False
    return True


# ------------------------------------------------------------------------------------------------ wire / canonical forms
def enc(v):
    """Python value -> wire encoding of Cij.J (numbers as exact rationals)."""
    if v is None: return None
    if isinstance(v, bool): return v
    if isinstance(v, int): return ["q", str(v), "1", True]
    if isinstance(v, float):
        if not math.isfinite(v): raise ValueError("non-finite float is outside the model")
        n, d = v.as_integer_ratio()
        return ["q", str(n), str(d), False]
    if isinstance(v, str): return ["s", v]
    if isinstance(v, list): return ["a", [enc(x) for x in v]]
    if isinstance(v, dict):
        for k in v:
            if not isinstance(k, str): raise ValueError("non-string key is outside the model")
        return ["o", [[k, enc(x)] for k, x in v.items()]]
    raise ValueError(f"outside the model: {type(v).__name__}")


def canon(v):
    """type-aware canonical form of a Python value; dicts as sorted key/value tuples (order-insensitive)."""
    if v is None: return ("null",)
    if isinstance(v, bool): return ("bool", v)
    if isinstance(v, int): return ("num", v, True)
    if isinstance(v, float):
        if not math.isfinite(v): return ("float", repr(v))
        return ("num", v, False)
    if isinstance(v, str): return ("str", v)
    if isinstance(v, (list, tuple)): return ("arr" if isinstance(v, list) else "tuple", tuple(canon(x) for x in v))
    if isinstance(v, dict): return ("obj", tuple(sorted(((repr(k), canon(x)) for k, x in v.items()), key=lambda t: t[0])))
    return ("other", type(v).__name__, repr(v))


def canon_wire(w):
    """canonical form of a wire value returned by the model (same shape as canon of the Python value)."""
    if w is None: return ("null",)
    if isinstance(w, bool): return ("bool", w)
    tag = w[0]
    if tag == "q":
        # a Python float is identified by its value: the model holds either its exact binary fraction (values sent by
        # the harness) or the decimal fraction of its shortest spelling (values translated from the YAML/JSON files);
        # both round to the same double
        q = Fraction(int(w[1]), int(w[2]))
        return ("num", int(q), True) if w[3] and q.denominator == 1 else ("num", float(q), bool(w[3]))
    if tag == "s": return ("str", w[1])
    if tag == "a": return ("arr", tuple(canon_wire(x) for x in w[1]))
    if tag == "o": return ("obj", tuple(sorted(((repr(k), canon_wire(x)) for k, x in w[1]), key=lambda t: t[0])))
    raise ValueError(w)


def in_model(v):
    try:
        enc(v); return True
    except ValueError:
        return False


# ------------------------------------------------------------------------------------------------ real code
def _impl():
    from cij.io.config import read_config, update_config, apply_default_config, validate_config
    return read_config, update_config, apply_default_config, validate_config


def call_merge(fn, *args):
    """-> ("ok", result) | ("err", exception type name)"""
    try:
        return ("ok", fn(*args))
    except Exception as e:  # noqa: BLE001
        return ("err", type(e).__name__)


def call_validate(cfg):
    import jsonschema
    validate_config = _impl()[3]
    try:
        validate_config(cfg)
        return "accept"
    except jsonschema.ValidationError:
        return "reject"
    except Exception as e:  # noqa: BLE001
        return "error:" + type(e).__name__


_SHIPPED = None


def load_shipped():
    """the packaged default and the shipped examples, read by the harness itself (PyYAML), not by cij (read once per process,
    handed out as fresh deep copies)"""
    global _SHIPPED
    if _SHIPPED is None:
        _SHIPPED = _load_shipped()
    return copy.deepcopy(_SHIPPED)


def _load_shipped():
    out = {}
    p = os.path.join(REPO, "cij", "data", "default", "settings.yaml")
    out["default"] = yaml.load(open(p), Loader=yaml.FullLoader)
    exdir = os.path.join(REPO, "examples")
    for name in sorted(os.listdir(exdir)):
        q = os.path.join(exdir, name, "settings.yaml")
        if os.path.exists(q):
            out["examples/%s/settings.yaml" % name] = yaml.load(open(q), Loader=yaml.FullLoader)
    return out


def load_schema_file():
    return json.load(open(os.path.join(REPO, "cij", "data", "schema", "config.schema.json")))


# ------------------------------------------------------------------------------------------------ merge: oracle
def leaf_items(t, prefix=()):
    """{path: canon(value)} for every non-dict value reachable through dicts"""
    out = {}
    if isinstance(t, dict):
        for k, v in t.items():
            out.update(leaf_items(v, prefix + (k,)))
    else:
        out[prefix] = canon(t)
    return out


def key_paths(t, prefix=()):
    """every key path (to leaves and to dict nodes, including empty dicts)"""
    out = set()
    if isinstance(t, dict):
        for k, v in t.items():
            out.add(prefix + (k,))
            out |= key_paths(v, prefix + (k,))
    return out


def unspecified(u, p):
    """following p in the user's dict runs into a missing key (not into a leaf, and p itself is absent)"""
    node = u
    for k in p:
        if not isinstance(node, dict): return False
        if k not in node: return True
        node = node[k]
    return False


def excluded_points(u, d, prefix=()):
    """paths where the user has a dict and the default has something that is not a dict"""
    out = []
    if isinstance(u, dict) and not isinstance(d, dict):
        return [prefix]
    if isinstance(u, dict) and isinstance(d, dict):
        for k, v in u.items():
            if k in d and isinstance(v, dict):
                out += excluded_points(v, d[k], prefix + (k,))
    return out


def oracle_merge(fn, u, d, what="update_config", with_default=False):
    """evaluate the merge clause of the property on the real code. Returns a list of (what, observed, expected, site)."""
    u0, d0 = copy.deepcopy(u), copy.deepcopy(d)
    args = (u,) if with_default else (u, d)
    tag, r = call_merge(fn, *args)
    fails = []
    if canon(u) != canon(u0):
        fails.append(("user input modified", repr(u)[:300], repr(u0)[:300], what + ":mutates-user"))
    if not with_default and canon(d) != canon(d0):
        fails.append(("default input modified", repr(d)[:300], repr(d0)[:300], what + ":mutates-default"))
    if tag == "err":
        ex = excluded_points(u0, d0)
        site = SITE_DEFECT if (ex and r == "AttributeError") else what + ":raises"
        fails.append((f"no effective configuration: {r}" + (f" (user dict over non-dict default at {list(ex[0])})" if ex else ""),
                      r, "a dict keeping every user leaf", site))
        return fails, None
    if not isinstance(r, dict):
        fails.append(("result is not a dict", type(r).__name__, "dict", what + ":result-type"))
        return fails, r
    lu, ld, lr = leaf_items(u0), leaf_items(d0), leaf_items(r)
    for p, v in lu.items():
        if lr.get(p) != v:
            fails.append((f"user leaf {list(p)} not kept", lr.get(p), v, what + ":user-leaf-lost"))
            break
    for p, v in ld.items():
        if unspecified(u0, p) and lr.get(p) != v:
            fails.append((f"unspecified leaf {list(p)} not taken from the default", lr.get(p), v, what + ":default-leaf-missing"))
            break
    for p, v in lr.items():
        if not (lu.get(p) == v or (unspecified(u0, p) and ld.get(p) == v)):
            fails.append((f"leaf {list(p)} of the result comes from neither input", v, (lu.get(p), ld.get(p)), what + ":foreign-leaf"))
            break
    extra = key_paths(r) - key_paths(u0) - key_paths(d0)
    if extra:
        fails.append(("result has other keys", sorted(map(list, extra))[:5], "subset of user/default key paths", what + ":other-keys"))
    # idempotence
    r0 = copy.deepcopy(r)
    tag2, r2 = call_merge(fn, *((r,) if with_default else (r, d)))
    if tag2 == "err" or canon(r2) != canon(r0):
        fails.append(("not idempotent", r2 if tag2 == "err" else repr(r2)[:300], repr(r0)[:300], what + ":not-idempotent"))
    if canon(r) != canon(r0):
        fails.append(("second merge modified its input", repr(r)[:300], repr(r0)[:300], what + ":mutates-user"))
    return fails, r0


# ------------------------------------------------------------------------------------------------ merge: generator
KEYS = ["a", "b", "c", "d", "e", "qha", "settings", "x y", "", "ü", "0", "A"]
STRS = ["", "x", "cubic", "input01", "yes", "null", "1", "1.0", "ü", "a b", "line\nbreak", "~", "{}", "- x", "# c", "a: b"]


def gen_leaf(rng, lists=True):
    c = int(rng.integers(0, 9 if lists else 7))
    if c == 0: return None
    if c == 1: return bool(rng.integers(0, 2))
    if c == 2: return int(rng.integers(-5, 50))
    if c == 3: return int(rng.choice([0, 1, -1, 2**31, -2**63, 10**20]))
    if c == 4: return float(rng.choice([0.0, 1.0, 3.0, 0.5, -2.25, 1e-8, 1.2, 1e22, 123456.789, 5e-324]))
    if c == 5: return float(round(rng.normal() * 10 ** int(rng.integers(-3, 6)), int(rng.integers(0, 6))))
    if c == 6: return str(rng.choice(STRS))
    if c == 7: return [gen_leaf(rng, lists=False) for _ in range(int(rng.integers(0, 4)))]
    return [{"k": gen_leaf(rng, lists=False)}, gen_leaf(rng, lists=False)]      # a list containing a dict is still a leaf


def gen_tree(rng, depth):
    if depth <= 0 or rng.random() < 0.35:
        return gen_leaf(rng)
    n = int(rng.integers(0, 4))
    return {str(k): gen_tree(rng, depth - 1) for k in rng.choice(KEYS, size=n, replace=False)}


def gen_pair(rng, depth, p_excl, stats):
    """a pair of dicts (user, default) built key by key so that every collision kind occurs"""
    u, d = {}, {}
    n = int(rng.integers(0, 5)) if depth < 4 else int(rng.integers(1, 5))
    for k in rng.choice(KEYS, size=n, replace=False):
        k = str(k)
        kind = str(rng.choice(["u_only", "d_only", "both_leaf", "same_leaf", "u_leaf_d_dict", "both_dict", "u_dict_d_leaf"],
                              p=[0.17, 0.17, 0.14, 0.06, 0.12, 0.34 - p_excl, p_excl]))
        if kind == "both_dict" and depth <= 1: kind = "both_leaf"
        stats[kind] = stats.get(kind, 0) + 1
        if kind == "u_only": u[k] = gen_tree(rng, depth - 1)
        elif kind == "d_only": d[k] = gen_tree(rng, depth - 1)
        elif kind == "both_leaf": u[k], d[k] = gen_leaf(rng), gen_leaf(rng)
        elif kind == "same_leaf":
            v = gen_leaf(rng); u[k], d[k] = v, copy.deepcopy(v)
        elif kind == "u_leaf_d_dict":
            u[k] = gen_leaf(rng); d[k] = gen_tree(rng, max(depth - 1, 1))
            if not isinstance(d[k], dict): d[k] = {"z": d[k]}
        elif kind == "both_dict":
            u[k], d[k] = gen_pair(rng, depth - 1, p_excl, stats)
        else:  # user dict over a non-dict default (the formerly excluded point): the user's dict is taken whole
            u[k] = gen_tree(rng, max(depth - 1, 1))
            if not isinstance(u[k], dict): u[k] = {}
            d[k] = gen_leaf(rng)
    return u, d


def depth_of(t):
    return 1 + max([depth_of(v) for v in t.values()] + [0]) if isinstance(t, dict) else 0


def gen_user_of_default(rng, default, stats):
    """a user configuration written against the packaged default: override / drop / add / collide"""
    paths = sorted(leaf_items(default).keys())
    u = {}
    for p in paths:
        r = rng.random()
        if r < 0.45: continue                       # unspecified
        node = u
        ok = True
        for k in p[:-1]:
            nxt = node.setdefault(k, {})
            if not isinstance(nxt, dict): ok = False; break
            node = nxt
        if not ok: continue
        if r < 0.85:
            node[p[-1]] = gen_leaf(rng); stats["override_leaf"] = stats.get("override_leaf", 0) + 1
        elif r < 0.93:
            node[p[-1]] = copy.deepcopy(get_path(default, p)); stats["same_as_default"] = stats.get("same_as_default", 0) + 1
        elif r < 0.97:
            node[p[-1]] = {}; stats["u_dict_d_leaf"] = stats.get("u_dict_d_leaf", 0) + 1
        else:
            node[p[-1]] = {"k": gen_leaf(rng)}; stats["u_dict_d_leaf"] = stats.get("u_dict_d_leaf", 0) + 1
    if rng.random() < 0.3:
        u["extra"] = gen_tree(rng, 2); stats["u_only"] = stats.get("u_only", 0) + 1
    if rng.random() < 0.15:
        sec = str(rng.choice(["qha", "elast", "output"]))
        u[sec] = gen_leaf(rng); stats["u_leaf_d_dict"] = stats.get("u_leaf_d_dict", 0) + 1
    if rng.random() < 0.2:
        u.setdefault("qha", {})
        if isinstance(u["qha"], dict):
            u["qha"].setdefault("settings", {})
            if isinstance(u["qha"]["settings"], dict):
                u["qha"]["settings"]["NTV"] = int(rng.integers(1, 200))
    return u


def get_path(t, p):
    for k in p:
        t = t[k]
    return t


def set_path(t, p, v):
    """copy of t with t[p] = v, creating dicts on the way (a non-dict on the way is replaced)"""
    t = copy.deepcopy(t) if isinstance(t, dict) else {}
    node = t
    for k in p[:-1]:
        if not isinstance(node.get(k), dict): node[k] = {}
        node = node[k]
    node[p[-1]] = copy.deepcopy(v)
    return t


def del_path(t, p):
    t = copy.deepcopy(t)
    node = t
    for k in p[:-1]:
        node = node.get(k) if isinstance(node, dict) else None
        if node is None: return t
    if isinstance(node, dict): node.pop(p[-1], None)
    return t


ORDS = ["id", "rev", "sort", "rot"]


# ------------------------------------------------------------------------------------------------ stream 1: merge
def stream_merge(ctx: Ctx, res: Result, n_random: int, n_default: int, shipped, stop_at_first=False):
    _, update_config, apply_default_config, _ = _impl()
    rng = ctx.rng
    stats, depths = {}, {}
    cases = []            # (kind, u, d)
    # hand-written corner cases first
    corner = [({}, {}), ({"a": 1}, {}), ({}, {"a": 1}), ({"a": {}}, {"a": {"b": 1}}), ({"a": {}}, {}),
              ({"a": {"b": {"c": {"d": 1}}}}, {"a": {"b": {"c": {"e": 2}, "f": 3}}}),
              ({"a": 1}, {"a": 1.0}), ({"a": True}, {"a": 1}), ({"a": [1, {"b": 2}]}, {"a": [3]}),
              ({"a": None}, {"a": {"b": 1}}), ({"a": {"b": 1}}, {"a": None}), ({"a": {}}, {"a": []}),
              ({"a": {"b": {}}}, {"a": {"b": 5, "c": 6}})]
    for u, d in corner:
        cases.append(("merge", u, d))
    for i in range(n_random):
        depth = int(rng.integers(1, 5))
        p_excl = 0.0 if rng.random() < 0.85 else 0.08
        u, d = gen_pair(rng, depth, p_excl, stats)
        cases.append(("merge", u, d))
    default = shipped["default"]
    for name, cfg in shipped.items():
        cases.append(("apply_default", copy.deepcopy(cfg), default))
        cases.append(("merge", copy.deepcopy(cfg), {}))
        cases.append(("merge", {}, copy.deepcopy(cfg)))
    cases.append(("apply_default", {}, default))
    cases.append(("apply_default", {"output": {"pressure_base": {"cij": True}}}, default))     # Lean: c16_user_dict_over_default_list_kept
    for i in range(n_default):
        cases.append(("apply_default", gen_user_of_default(rng, default, stats), default))

    ops, meta = [], []
    n_excl = 0
    for kind, u, d in cases:
        dd = max(depth_of(u), depth_of(d)); depths[dd] = depths.get(dd, 0) + 1
        o1 = "id"; o2 = ORDS[1 + int(rng.integers(0, 3))]
        for o in (o1, o2):
            if kind == "merge":
                ops.append({"op": "c16.update", "u": enc(u), "d": enc(d), "ord": o})
            else:
                ops.append({"op": "c16.apply_default", "u": enc(u), "ord": o})
        meta.append((kind, u, d))
    answers = ctx.driver.ask(ops)
    seen = set()
    for i, (kind, u, d) in enumerate(meta):
        fn = update_config if kind == "merge" else apply_default_config
        fails, r = oracle_merge(fn, copy.deepcopy(u), copy.deepcopy(d), what=("update_config" if kind == "merge" else "apply_default_config"),
                                with_default=(kind != "merge"))
        res.evaluations += 1
        seen.add(json.dumps([kind, enc(u), enc(d)], sort_keys=True))
        if excluded_points(u, d): n_excl += 1
        # correspondence, both iteration orders
        tag, rr = call_merge(fn, *((copy.deepcopy(u),) if kind != "merge" else (copy.deepcopy(u), copy.deepcopy(d))))
        impl = ("ok", canon(rr)) if tag == "ok" else ("err", rr)
        agree = True
        for a in (answers[2 * i], answers[2 * i + 1]):
            model = ("ok", canon_wire(a["ok"])) if "ok" in a else ("err", a["err"])
            if model != impl:
                agree = False
                res.disagreements.append(Disagreement("c16.update" if kind == "merge" else "c16.apply_default",
                                                      {"check": kind, "u": u, "d": d if kind == "merge" else None},
                                                      repr(impl)[:400], repr(model)[:400]))
        if agree: res.traces_validated += 1
        for what, obs, exp, site in fails:
            res.oracle_failures.append(OracleFailure(what=what, input={"check": kind, "u": u, "d": d if kind == "merge" else None},
                                                     observed=obs, expected=exp, site=site))
        if len(res.samples) < 2 and kind == "merge" and r and depth_of(u) >= 2 and u and d:
            res.samples.append({"update_config": {"user": u, "default": d, "result": r}})
        if stop_at_first and res.oracle_failures and any(f.site != SITE_DEFECT for f in res.oracle_failures):
            break
    res.distribution.setdefault("merge", {})
    res.distribution["merge"] = {"cases": len(meta), "key_kinds": stats, "max_depth_histogram": depths,
                                 "with_user_dict_over_non_dict_default": n_excl,
                                 "iteration_orders_per_case": 2}
    return seen


# ------------------------------------------------------------------------------------------------ stream 2: validation
def schema_candidates(schema):
    """GENERATOR side only: values mentioned by the *current* schema file (enum entries, minima) — used to propose
    perturbations (e.g. an enumeration entry that was added), never to decide what is expected."""
    enums, minima = set(), set()

    def walk(s):
        if isinstance(s, dict):
            if isinstance(s.get("enum"), list):
                for e in s["enum"]:
                    if isinstance(e, (str, int, float)) and not isinstance(e, bool): enums.add(e)
            if isinstance(s.get("minimum"), (int, float)) and not isinstance(s.get("minimum"), bool): minima.add(s["minimum"])
            for v in s.values(): walk(v)
        elif isinstance(s, list):
            for v in s: walk(v)
    walk(schema)
    return sorted(enums, key=repr), sorted(minima)


WRONG = {
    "integer": [None, True, False, "3", 1.5, [], {}, [1], {"a": 1}, "abc", 2.000001],
    "number": [None, True, False, "1.0", [], {}, [1.0], "abc"],
    "string": [None, 1, 1.5, True, [], {}, ["cubic"], 0],
    "boolean": [None, 0, 1, "true", "False", 1.0, [], {}],
}


def field_values(spec, extra_enum, extra_min):
    """(kind, value) candidates for one documented field"""
    _, t, mn, en = spec
    out = [("wrong_type", v) for v in WRONG[t]]
    if t == "integer":
        good = [1, 2, 16, 31, 10**6, 3.0, 2**40]
        out += [("value", v) for v in good] + [("value", 0), ("value", -1), ("value", 0.0), ("value", -3.0)]
    elif t == "number":
        out += [("value", v) for v in [0, 1, 2, 3, 100, 0.5, 1.2, 1.25, 1e-8, 1e10, -1, -0.5, 0.0, 2.0, 1.0, 1.9999999, 0.999]]
    elif t == "string" and en is None:
        out += [("value", v) for v in ["", "x", "input01", "elast.dat", "ü", "1"]]
    elif t == "boolean":
        out += [("value", True), ("value", False)]
    if mn is not None:
        out += [("boundary", mn), ("boundary", float(mn)), ("out_of_range", mn - 1), ("out_of_range", mn - 0.5),
                ("out_of_range", mn - 1e-9), ("out_of_range", -1e6), ("out_of_range", float(mn - 1))]
    for m in extra_min:                                   # minima mentioned by the current schema: probe around them
        if t in ("integer", "number"):
            out += [("probe", m), ("probe", m - 1), ("probe", m + 1)]
            if t == "number": out += [("probe", m - 0.5)]
    if en is not None:
        out += [("enum_value", v) for v in en]
        out += [("unknown_enum", v) for v in ["", "Cubic", "cubic ", " spline", "orthrohombic", "x", "spline2", "SPLINE", "none"]]
        out += [("unknown_enum", v) for v in (SYSTEMS if en is INTERPOLATORS else INTERPOLATORS)[:3]]
        out += [("probe_enum", v) for v in extra_enum if isinstance(v, str) and v not in en]
    return out


def expectation(base_is_shipped, spec, v):
    """a value violating the documented constraint must be rejected whatever the rest of the configuration is; a
    documented value must be accepted in a configuration the statement declares valid (the shipped files)"""
    if not documented_ok(spec, v): return "reject"
    return "accept" if base_is_shipped else None


def validation_cases(shipped, schema, rng, thorough):
    """list of dicts {cfg, expect (accept/reject/None), kind, field, base}"""
    extra_enum, extra_min = schema_candidates(schema)
    bases = dict(shipped)
    bases["minimal"] = {"qha": {}, "elast": {}}
    cases = []
    dedup = set()

    def add(cfg, expect, kind, field, base):
        if in_model(cfg):
            key = json.dumps(enc(cfg), sort_keys=True)
            if key in dedup: return
            dedup.add(key)
            cases.append({"cfg": cfg, "expect": expect, "kind": kind, "field": list(field), "base": base})

    for bname, base in bases.items():
        is_shipped = bname in shipped
        # "the shipped default and example files validate"
        add(copy.deepcopy(base), "accept" if is_shipped else None, "base", (), bname)
        for spec in FIELDS:
            path = spec[0]
            vals = field_values(spec, extra_enum, extra_min)
            if not thorough and bname != "default":
                # quick tier: the full value sweep runs on the default; the other bases get every boundary / range /
                # enumeration candidate and a rotating third of the rest
                keep = ("boundary", "out_of_range", "unknown_enum", "enum_value", "probe_enum")
                off = (len(bname) + len(path[-1])) % 3
                vals = [kv for i, kv in enumerate(vals) if kv[0] in keep or i % 3 == off]
            for kind, v in vals:
                add(set_path(base, path, v), expectation(is_shipped, spec, v), kind, path, bname)
        # unknown keys
        for dpath, known in CLOSED.items():
            for k in ["foo", "System", "order ", "", "additionalProperties", "mode_gamma2"]:
                if k in known: continue
                add(set_path(base, dpath + (k,), 1), "reject", "unknown_key", dpath + (k,), bname)
                add(set_path(base, dpath + (k,), {"a": None}), "reject", "unknown_key", dpath + (k,), bname)
        for dpath in [(), ("qha",), ("qha", "settings"), ("elast",), ("elast", "settings", "mode_gamma"), ("output",)]:
            for k in ["foo", "additionalProperties", "title"]:
                add(set_path(base, dpath + (k,), 1), None, "unknown_key_elsewhere", dpath + (k,), bname)
        # missing sections
        add(del_path(base, ("qha",)), "reject", "missing_section", ("qha",), bname)
        add(del_path(base, ("elast",)), "reject", "missing_section", ("elast",), bname)
        add(del_path(del_path(base, ("qha",)), ("elast",)), "reject", "missing_section", ("qha", "elast"), bname)
        for p in [("output",), ("qha", "settings"), ("qha", "input"), ("elast", "settings"), ("elast", "settings", "mode_gamma"),
                  ("elast", "settings", "symmetry"), ("elast", "input")]:
            add(del_path(base, p), None, "optional_removed", p, bname)       # the statement is silent: correspondence only
        # sections of the wrong type
        for sec in [("qha",), ("elast",), ("qha", "settings"), ("elast", "settings"), ("elast", "settings", "symmetry"),
                    ("elast", "settings", "mode_gamma"), ("output",)]:
            for v in [None, 1, "x", [], True]:
                add(set_path(base, sec, v), None, "section_wrong_type", sec, bname)   # statement silent: correspondence only
    for v in [None, 1, "x", [], True, 1.5, {}]:
        add(v, "reject", "not_a_dict_or_empty", (), "-")
    if thorough:
        names = list(bases)
        for _ in range(1500):                                             # two or three simultaneous perturbations
            bname = names[int(rng.integers(0, len(names)))]
            cfg = copy.deepcopy(bases[bname]); exp = "accept" if bname in shipped else None
            for _ in range(int(rng.integers(2, 4))):
                spec = FIELDS[int(rng.integers(0, len(FIELDS)))]
                vals = field_values(spec, extra_enum, extra_min)
                kind, v = vals[int(rng.integers(0, len(vals)))]
                cfg = set_path(cfg, spec[0], v)
            # expectation from the final configuration: every documented field present must satisfy its constraint
            for spec in FIELDS:
                try:
                    v = get_path(cfg, spec[0])
                except (KeyError, TypeError):
                    continue
                if not documented_ok(spec, v): exp = "reject"
            add(cfg, exp, "multi", (), bname)
    return cases


def stream_validate(ctx: Ctx, res: Result, shipped, schema, stop_at_first=False):
    cases = validation_cases(shipped, schema, ctx.rng, ctx.thorough())
    answers = ctx.driver.ask([{"op": "c16.validate", "cfg": enc(c["cfg"])} for c in cases])
    kinds, outcomes = {}, {"accept": 0, "reject": 0, "error": 0}
    seen = set()
    for c, m in zip(cases, answers):
        impl = call_validate(copy.deepcopy(c["cfg"]))
        res.evaluations += 1
        kinds[c["kind"]] = kinds.get(c["kind"], 0) + 1
        outcomes[impl if impl in outcomes else "error"] += 1
        seen.add(json.dumps(enc(c["cfg"]), sort_keys=True))
        model = "accept" if m is True else "reject"
        payload = {"check": "validate", "cfg": c["cfg"], "expect": c["expect"], "field": c["field"], "kind": c["kind"], "base": c["base"]}
        if impl != model:
            res.disagreements.append(Disagreement("c16.validate", payload, impl, model))
        else:
            res.traces_validated += 1
        if c["expect"] is not None:
            obs = "accept" if impl == "accept" else "reject"
            if obs != c["expect"]:
                res.oracle_failures.append(OracleFailure(
                    what=f"validate_config {obs}s a configuration that must be {c['expect']}ed ({c['kind']} at {'.'.join(c['field']) or '<root>'} of {c['base']})",
                    input=payload, observed=impl, expected=c["expect"],
                    site=f"validate:{c['kind']}:{'.'.join(c['field'])}:{c['expect']}"))
                if stop_at_first: break
        if len(res.samples) < 5 and c["kind"] in ("out_of_range", "unknown_enum") and c["base"] == "default" and len(res.samples) < 4:
            res.samples.append({"validate_config": {"field": ".".join(c["field"]), "value": get_path(c["cfg"], c["field"]), "impl": impl, "model": model}})
    res.distribution["validate"] = {"cases": len(cases), "by_kind": kinds, "impl_outcomes": outcomes,
                                    "with_documented_expectation": sum(1 for c in cases if c["expect"] is not None)}
    return seen, cases


# ------------------------------------------------------------------------------------------------ schema variants
def schema_variants(schema):
    """systematic edits of the packaged schema inside the modelled fragment, to compare the model's evaluator with the
    real jsonschema beyond the one packaged schema"""
    out = [("packaged", schema)]

    def sub(s, path):
        for k in path: s = s[k]
        return s
    qs = ["definitions", "qha_settings", "properties"]
    es = ["definitions", "elast_settings"]
    def variant(name, f):
        s = copy.deepcopy(schema)
        try:
            f(s); out.append((name, s))
        except (KeyError, TypeError, ValueError, IndexError):
            pass                                            # the (possibly mutated) schema has no such place: skip
    for fld in ["NT", "T_MIN", "NTV", "volume_ratio", "order"]:
        variant(f"no-minimum:{fld}", lambda s, fld=fld: sub(s, qs)[fld].pop("minimum"))
        variant(f"minimum+1.5:{fld}", lambda s, fld=fld: sub(s, qs)[fld].__setitem__("minimum", sub(s, qs)[fld]["minimum"] + 1.5))
    variant("type-list:NT", lambda s: sub(s, qs)["NT"].__setitem__("type", ["integer", "string"]))
    variant("type-number:NT", lambda s: sub(s, qs)["NT"].__setitem__("type", "number"))
    variant("enum-drop", lambda s: sub(s, es)["properties"]["mode_gamma"]["properties"]["interpolator"]["enum"].pop())
    variant("enum-add", lambda s: sub(s, es)["properties"]["symmetry"]["properties"]["system"]["enum"].append("cubic "))
    variant("enum-mixed", lambda s: sub(s, es)["properties"]["symmetry"]["properties"]["system"].__setitem__("enum", ["cubic", 1, True, None]))
    variant("enum-on-number", lambda s: sub(s, qs)["order"].__setitem__("enum", [2, 3.0, 4]))
    variant("required-short", lambda s: s.__setitem__("required", ["qha"]))
    variant("required-long", lambda s: s.__setitem__("required", ["qha", "elast", "output"]))
    variant("required-inner", lambda s: sub(s, es).__setitem__("required", ["symmetry"]))
    variant("ap-true:elast_settings", lambda s: sub(s, es).__setitem__("additionalProperties", True))
    variant("ap-true:symmetry", lambda s: sub(s, es)["properties"]["symmetry"].__setitem__("additionalProperties", True))
    variant("ap-schema:symmetry", lambda s: sub(s, es)["properties"]["symmetry"].__setitem__("additionalProperties", {"type": "integer", "minimum": 1}))
    variant("ap-root-proper", lambda s: (s["properties"].pop("additionalProperties"), s.__setitem__("additionalProperties", False)))
    variant("ap-qha-proper", lambda s: (sub(s, qs).pop("additionalProperties"), sub(s, ["definitions", "qha_settings"]).__setitem__("additionalProperties", False)))
    variant("ap-false:mode_gamma", lambda s: sub(s, es)["properties"]["mode_gamma"].__setitem__("additionalProperties", False))
    variant("no-ref-sibling-type", lambda s: s["properties"]["elast"]["properties"]["settings"].pop("type"))
    variant("ref-chain", lambda s: (s["definitions"].__setitem__("alias", {"$ref": "#/definitions/elast_settings"}),
                                    s["properties"]["elast"]["properties"]["settings"].__setitem__("$ref", "#/definitions/alias")))
    variant("bool-schema-prop", lambda s: s["properties"].__setitem__("output", False))
    variant("true-schema-prop", lambda s: s["properties"].__setitem__("qha", True))
    return out


def stream_variants(ctx: Ctx, res: Result, schema, cases):
    import jsonschema
    variants = schema_variants(schema)
    # a spread of configurations: every kind, default base first
    picked, per_kind = [], {}
    for c in cases:
        k = (c["kind"], tuple(c["field"]))
        if per_kind.get(k, 0) >= (3 if ctx.thorough() else 1): continue
        per_kind[k] = per_kind.get(k, 0) + 1
        picked.append(c["cfg"])
    if not ctx.thorough():
        picked = picked[:: max(1, len(picked) // 45)]
    ops, meta = [], []
    for name, s in variants:
        es = enc(s)
        for cfg in picked:
            ops.append({"op": "c16.validate_with", "schema": es, "cfg": enc(cfg)}); meta.append((name, s, cfg))
    answers = ctx.driver.ask(ops)
    n_unsupported = 0
    for (name, s, cfg), a in zip(meta, answers):
        if not a["supported"]:
            n_unsupported += 1; continue
        try:
            jsonschema.validate(instance=copy.deepcopy(cfg), schema=s); impl = True
        except jsonschema.ValidationError:
            impl = False
        except Exception as e:  # noqa: BLE001
            impl = "error:" + type(e).__name__
        res.evaluations += 1
        if impl != a["valid"]:
            res.disagreements.append(Disagreement("c16.validate_with", {"check": "variant", "variant": name, "cfg": cfg}, impl, a["valid"],
                                                  note="model of jsonschema differs from jsonschema on a variant of the packaged schema"))
        else:
            res.traces_validated += 1
    res.distribution["schema_variants"] = {"variants": len(variants), "configs_per_variant": len(picked),
                                           "skipped_as_unsupported_by_model": n_unsupported}


# ------------------------------------------------------------------------------------------------ stream 3: spellings
def spell_files(tmp, cfg, stem):
    """the same configuration in JSON and two YAML spellings, under the three supported suffixes"""
    files = {}
    def w(name, text):
        p = os.path.join(tmp, name)
        with open(p, "w", encoding="utf-8") as fp: fp.write(text)
        files[name] = p
    w(f"{stem}.json", json.dumps(cfg))
    w(f"{stem}.indent.json", json.dumps(cfg, indent=2, sort_keys=True, ensure_ascii=False))
    w(f"{stem}.yaml", yaml.safe_dump(cfg, default_flow_style=False, allow_unicode=True))
    w(f"{stem}.yml", yaml.safe_dump(cfg, default_flow_style=True))
    w(f"{stem}.sorted.yml", yaml.safe_dump(cfg, default_flow_style=False, sort_keys=True))
    return files


def oracle_spelling(cfg, validate_flag=False):
    read_config = _impl()[0]
    tmp = tempfile.mkdtemp(prefix="cij_c16_")
    fails = []
    try:
        files = spell_files(tmp, cfg, "settings")
        want = canon(cfg)
        for name, p in files.items():
            try:
                got = read_config(p, validate=validate_flag)
            except Exception as e:  # noqa: BLE001
                fails.append((f"read_config fails on the {name} spelling", f"{type(e).__name__}: {str(e)[:200]}", "the configuration",
                              "read_config:" + name.split(".", 1)[1] + ":raises"))
                continue
            if canon(got) != want:
                fails.append((f"the {name} spelling loads differently", repr(got)[:300], repr(cfg)[:300],
                              "read_config:" + name.split(".", 1)[1] + ":differs"))
    finally:
        shutil.rmtree(tmp, ignore_errors=True)
    return fails


def spelling_safe(v):
    """values every spelling can carry (JSON has no NaN/inf; everything else in the model is fine)"""
    return in_model(v)


SUFFIX_NAMES = ["s.json", "s.yml", "s.yaml", "s.JSON", "s.Yaml", "s.txt", "s", "s.json.bak", "s.tar.json", "s.yaml.json",
                ".json", ".yml", "s.json.", "s..yaml", "s.jsonx", "s.ym", "dir.yml/s", "dir.json/s.yaml", "a b.yml", "s.yml "]


def stream_partial(ctx: Ctx, res: Result, shipped):
    """The flow a run takes — `apply_default_config(read_config(file))` — on settings files that spell out only PART of a block
    (e.g. `mode_gamma: {order: 4}`): validation only checks (it does not change what it is given), `read_config` returns what the file
    says, and every leaf the file leaves out comes from the packaged default."""
    read_config, update_config, apply_default_config, validate_config = _impl()
    rng = ctx.rng
    tmp = tempfile.mkdtemp(prefix="cij_c16p_")
    n = 0
    try:
        for name, cfg in shipped.items():
            if name == "default": continue
            leaves = [p for p in leaf_items(cfg) if len(p) >= 3]
            for k in range(24 if ctx.thorough() else 6):
                v = copy.deepcopy(cfg)
                for p in [leaves[i] for i in rng.permutation(len(leaves))[:int(rng.integers(1, 5))]]:
                    v = del_path(v, p)
                if call_validate(copy.deepcopy(v)) != "accept": continue
                before = copy.deepcopy(v)
                res.evaluations += 1; n += 1
                ok = True
                try:
                    validate_config(v)
                except Exception:
                    pass
                if canon(v) != canon(before):
                    ok = False
                    res.oracle_failures.append(OracleFailure(what="validate_config changes the configuration it is given", input={"check": "partial", "cfg": before},
                                                             observed=repr(v)[:300], expected=repr(before)[:300], site="validate_config:mutates"))
                pth = os.path.join(tmp, f"p{n}.yaml")
                with open(pth, "w") as fp: fp.write(yaml.safe_dump(before))
                try:
                    got = read_config(pth)
                    eff = apply_default_config(copy.deepcopy(got))
                    ref = apply_default_config(copy.deepcopy(before))
                except Exception as e:  # noqa: BLE001
                    ok = False
                    res.oracle_failures.append(OracleFailure(what="a valid partly specified settings file is not loaded", input={"check": "partial", "cfg": before},
                                                             observed=f"{type(e).__name__}: {str(e)[:200]}", expected="the effective configuration", site="read_config:partial:raises"))
                    continue
                if canon(got) != canon(before):
                    ok = False
                    res.oracle_failures.append(OracleFailure(what="read_config (validating) returns something else than the file says", input={"check": "partial", "cfg": before},
                                                             observed=repr(got)[:300], expected=repr(before)[:300], site="read_config:partial:differs"))
                if canon(eff) != canon(ref):
                    ok = False
                    res.oracle_failures.append(OracleFailure(what="effective configuration of a partly specified file is not user-over-packaged-default", input={"check": "partial", "cfg": before},
                                                             observed=repr(eff)[:300], expected=repr(ref)[:300], site="effective:partial:differs"))
                if ok: res.traces_validated += 1
        # ---- a working directory that itself holds `default/settings.yaml` and `schema/config.schema.json` (foreign files with the packaged
        #      RELATIVE names): the packaged defaults and the packaged schema are what count, wherever the process happens to stand
        shadow = os.path.join(tmp, "shadow-cwd")
        os.makedirs(os.path.join(shadow, "default")); os.makedirs(os.path.join(shadow, "schema"))
        with open(os.path.join(shadow, "default", "settings.yaml"), "w") as fp:
            fp.write(yaml.safe_dump({"qha": {"settings": {"NT": 3, "foreign_key": 1}}, "foreign_section": {"x": 1}}))
        with open(os.path.join(shadow, "schema", "config.schema.json"), "w") as fp:
            fp.write("{}")                                                  # accepts everything
        n_sh = 0
        for name, cfg in list(shipped.items())[:3]:
            if name == "default": continue
            user = copy.deepcopy(cfg)
            ref_eff = apply_default_config(copy.deepcopy(user))
            broken = del_path(copy.deepcopy(user), ("qha",)) if "qha" in user else None
            cwd = os.getcwd(); os.chdir(shadow)
            try:
                eff = apply_default_config(copy.deepcopy(user))
                verdict = call_validate(copy.deepcopy(broken)) if broken is not None else "reject"
            finally:
                os.chdir(cwd)
            res.evaluations += 2; n_sh += 1
            if canon(eff) != canon(ref_eff):
                res.oracle_failures.append(OracleFailure(what="effective configuration depends on files lying in the working directory (default/settings.yaml there shadows the packaged defaults)",
                                                         input={"check": "shadow-cwd", "cfg": user}, observed=repr(eff)[:300], expected=repr(ref_eff)[:300], site="effective:shadow-cwd"))
            elif verdict != "reject":
                res.oracle_failures.append(OracleFailure(what="a configuration without its qha section is accepted when the working directory holds schema/config.schema.json",
                                                         input={"check": "shadow-cwd", "cfg": broken}, observed=verdict, expected="reject", site="validate:shadow-cwd"))
            else:
                res.traces_validated += 2
        res.distribution["shadowing_working_directory_cases"] = n_sh
    finally:
        shutil.rmtree(tmp, ignore_errors=True)
    res.distribution["partial_file_flow_cases"] = n


def stream_spelling(ctx: Ctx, res: Result, shipped, vcases, n_random):
    read_config = _impl()[0]
    rng = ctx.rng
    cfgs = [copy.deepcopy(c) for c in shipped.values()]
    step = max(1, len(vcases) // (200 if ctx.thorough() else 40))
    cfgs += [c["cfg"] for c in vcases[::step] if isinstance(c["cfg"], dict)]
    for _ in range(n_random):
        t = gen_tree(rng, int(rng.integers(1, 5)))
        if isinstance(t, dict): cfgs.append(t)
    n = 0
    for cfg in cfgs:
        if not spelling_safe(cfg): continue
        fails = oracle_spelling(cfg)
        res.evaluations += 1; n += 1
        if not fails: res.traces_validated += 1
        for what, obs, exp, site in fails:
            res.oracle_failures.append(OracleFailure(what=what, input={"check": "spelling", "cfg": cfg}, observed=obs, expected=exp, site=site))
    # validate=True: invalid files are refused by read_config, valid ones returned
    tmp = tempfile.mkdtemp(prefix="cij_c16_")
    n_flag = 0
    try:
        for j, c in enumerate(vcases[:: max(1, len(vcases) // (120 if ctx.thorough() else 30))]):
            if not isinstance(c["cfg"], dict): continue
            p = os.path.join(tmp, f"v{j}.yaml")
            with open(p, "w") as fp: fp.write(yaml.safe_dump(c["cfg"]))
            direct = call_validate(copy.deepcopy(c["cfg"]))
            try:
                got = read_config(p); via = "accept"
            except Exception as e:  # noqa: BLE001
                via = "reject" if type(e).__name__ == "ValidationError" else "error:" + type(e).__name__
            res.evaluations += 1; n_flag += 1
            if via != direct:
                res.oracle_failures.append(OracleFailure(
                    what="read_config(validate=True) and validate_config disagree", input={"check": "read_validate", "cfg": c["cfg"]},
                    observed=via, expected=direct, site="read_config:validate-flag"))
            else:
                res.traces_validated += 1
        # suffix dispatch against the model: a probe document that the two parsers read differently
        names = SUFFIX_NAMES
        model = ctx.driver.ask([{"op": "c16.parser", "fname": os.path.join(tmp, "sfx", nme)} for nme in names])
        n_sfx = 0
        for nme, m in zip(names, model):
            p = os.path.join(tmp, "sfx", nme)
            os.makedirs(os.path.dirname(p), exist_ok=True)
            with open(p, "w") as fp: fp.write('{"a": 1e3}')      # json: 1000.0 ; yaml 1.1: the string "1e3"
            try:
                got = read_config(p, validate=False)
                impl = "json" if got == {"a": 1000.0} and isinstance(got["a"], float) else ("yaml" if got == {"a": "1e3"} else "other:" + repr(got))
            except Exception as e:  # noqa: BLE001
                impl = "error:" + type(e).__name__
            res.evaluations += 1; n_sfx += 1
            if impl != m:
                res.disagreements.append(Disagreement("c16.parser", {"check": "suffix", "name": nme}, impl, m))
            else:
                res.traces_validated += 1
            expected = {"s.json": "json", "s.yml": "yaml", "s.yaml": "yaml"}.get(nme)
            if expected and impl != expected:
                res.oracle_failures.append(OracleFailure(what=f"read_config does not read a {nme[1:]} file as {expected}",
                                                         input={"check": "suffix", "name": nme}, observed=impl, expected=expected,
                                                         site="read_config:suffix:" + nme[1:]))
    finally:
        shutil.rmtree(tmp, ignore_errors=True)
    res.distribution["spelling"] = {"configurations": n, "spellings_each": 5, "validate_flag_cases": n_flag, "suffix_names": n_sfx}


# ------------------------------------------------------------------------------------------------ stream 5: state / purity
def ref_merge(u, d):
    """the property statement as a function: user over default, dictionaries merged key by key, anything else taken from
    the user whole (independent of the code under test and of the model; always returns fresh objects)"""
    if isinstance(u, dict) and isinstance(d, dict):
        out = {}
        for k in d:
            if k not in u: out[k] = copy.deepcopy(d[k])
        for k, v in u.items():
            out[k] = ref_merge(v, d[k]) if k in d else copy.deepcopy(v)
        return out
    return copy.deepcopy(u)


def poke(t, tag):
    """overwrite a result in place at every depth (what a careless caller may do with a returned configuration)"""
    if isinstance(t, dict):
        for k in list(t.keys()):
            if isinstance(t[k], dict): poke(t[k], tag)
            elif isinstance(t[k], list): t[k].append(tag)
            else: t[k] = tag
        t["__poked__"] = tag


def oracle_merge_twice(u, d):
    """the same user OBJECT merged twice (d is None: apply_default_config); -> [(what, observed, expected, site)]"""
    _, update_config, apply_default_config, _ = _impl()
    what = "apply_default_config" if d is None else "update_config"
    dref = load_shipped()["default"] if d is None else copy.deepcopy(d)
    u0 = copy.deepcopy(u)
    want = canon(ref_merge(u0, dref))
    fails = []
    for i in (1, 2):
        tag, r = call_merge(*((apply_default_config, u) if d is None else (update_config, u, d)))
        if tag == "err":
            fails.append((f"merge {i} of the same user object raises", r, "the effective configuration", what + ":twice:raises")); break
        if canon(r) != want:
            fails.append((f"merge {i} of the same user object is not user-over-default", repr(r)[:300], repr(ref_merge(u0, dref))[:300],
                          what + ":twice:differs")); break
    if canon(u) != canon(u0):
        fails.append(("user dict modified by merging it twice", repr(u)[:300], repr(u0)[:300], what + ":mutates-user"))
    if d is not None and canon(d) != canon(dref):
        fails.append(("default dict modified by merging into/over it twice", repr(d)[:300], repr(dref)[:300], what + ":mutates-default"))
    return fails


def oracle_sequence(users, d, poked):
    """different users one after the other against ONE default (d is None: the packaged one inside apply_default_config, results
    poked in between when `poked`); every result must be the reference merge of pristine copies; d unchanged at the end"""
    _, update_config, apply_default_config, _ = _impl()
    what = "apply_default_config" if d is None else "update_config"
    d0 = load_shipped()["default"] if d is None else copy.deepcopy(d)
    fails = []
    for i, u in enumerate(users):
        uu = copy.deepcopy(u)
        tag, r = call_merge(*((apply_default_config, uu) if d is None else (update_config, uu, d)))
        if tag == "err":
            fails.append((f"call {i + 1} of a sequence raises", r, "the effective configuration", what + ":sequence:raises")); break
        want = ref_merge(u, d0)
        if canon(r) != canon(want):
            fails.append((f"call {i + 1} of a sequence of merges with different users is not user-over-(pristine)-default"
                          + (": earlier calls leak" if i else ""),
                          repr(r)[:300], repr(want)[:300], what + ":sequence:leaks")); break
        if d is not None and canon(d) != canon(d0):
            fails.append((f"default dict modified by call {i + 1} of a sequence", repr(d)[:300], repr(d0)[:300], what + ":mutates-default")); break
        if poked and d is None: poke(r, f"poked{i}")
    return fails


def oracle_validate_pure(cfg):
    """validate_config must only check: the configuration it was given is deep-equal to a pristine copy afterwards"""
    validate_config = _impl()[3]
    before = copy.deepcopy(cfg)
    try:
        validate_config(cfg)
    except Exception:  # noqa: BLE001
        pass
    if canon(cfg) != canon(before):
        return [("validate_config changes the configuration it is given (keys filled / values rewritten)", repr(cfg)[:300], repr(before)[:300],
                 "validate_config:mutates")]
    return []


def write_cfg(path, cfg):
    with open(path, "w", encoding="utf-8") as fp:
        fp.write(json.dumps(cfg) if path.endswith(".json") else yaml.safe_dump(cfg, default_flow_style=False))


def oracle_section_file(raw, suffix):
    """a settings file whose content is `raw` (some top-level section left out): read_config validates the FILE (qha / elast
    missing -> must raise, whatever the defaults would supply); unvalidated it is returned as written and its effective
    configuration is raw-over-packaged-default"""
    read_config, _, apply_default_config, _ = _impl()
    default = load_shipped()["default"]
    must_raise = not isinstance(raw, dict) or "qha" not in raw or "elast" not in raw
    fails = []
    tmp = tempfile.mkdtemp(prefix="cij_c16s_")
    try:
        pth = os.path.join(tmp, "settings" + suffix)
        write_cfg(pth, raw)
        try:
            got = read_config(pth); via = "returned"
        except Exception as e:  # noqa: BLE001
            got = None; via = "raised:" + type(e).__name__
        if must_raise and via == "returned":
            fails.append(("read_config accepts a settings file without a qha / elast section", via, "raises (ValidationError)", "read_config:section-missing:accepted"))
        if via == "returned" and canon(got) != canon(raw):
            fails.append(("read_config (validating) returns something else than the file says", repr(got)[:300], repr(raw)[:300], "read_config:returns-other"))
        direct = call_validate(copy.deepcopy(raw))
        if (via == "returned") != (direct == "accept"):
            fails.append(("read_config(validate=True) and validate_config(file content) disagree", via, direct, "read_config:validate-flag"))
        try:
            got2 = read_config(pth, validate=False)
        except Exception as e:  # noqa: BLE001
            fails.append(("read_config(validate=False) raises on a well-formed file", f"{type(e).__name__}: {str(e)[:200]}", "the file content", "read_config:novalidate:raises"))
            return fails
        if canon(got2) != canon(raw):
            fails.append(("read_config(validate=False) returns something else than the file says", repr(got2)[:300], repr(raw)[:300], "read_config:novalidate:differs"))
        if isinstance(raw, dict):
            tag, eff = call_merge(apply_default_config, got2)
            want = ref_merge(raw, default)
            if tag == "err" or canon(eff) != canon(want):
                fails.append(("apply_default_config(read_config(file, validate=False)) is not the file content over the packaged default",
                              eff if tag == "err" else repr(eff)[:300], repr(want)[:300], "effective:section-missing:differs"))
    finally:
        shutil.rmtree(tmp, ignore_errors=True)
    return fails


def stream_state(ctx: Ctx, res: Result, shipped, stop_at_first=False):
    rng = ctx.rng
    th = ctx.thorough()
    default = shipped["default"]
    stats = {}
    counts = {"same_user_object_merged_twice": 0, "default_object_sequences": 0, "apply_default_sequences": 0, "sequence_calls": 0,
              "validated_then_compared": 0, "section_files": 0, "section_files_must_raise": 0}

    def report(fails, payload):
        res.evaluations += 1
        if not fails: res.traces_validated += 1
        for what, obs, exp, site in fails:
            res.oracle_failures.append(OracleFailure(what=what, input=payload, observed=obs, expected=exp, site=site))
        return bool(fails) and stop_at_first

    # (a) the same user dict object merged twice
    pairs = [(copy.deepcopy(cfg), None) for cfg in shipped.values()]
    pairs += [(gen_user_of_default(rng, default, stats), None) for _ in range(60 if th else 12)]
    for _ in range(200 if th else 40):
        u, d = gen_pair(rng, int(rng.integers(1, 5)), 0.05, stats)
        pairs.append((u, d))
    pairs.append((copy.deepcopy(default), copy.deepcopy(default)))
    for u, d in pairs:
        counts["same_user_object_merged_twice"] += 1
        if report(oracle_merge_twice(copy.deepcopy(u), copy.deepcopy(d) if d is not None else None), {"check": "merge_twice", "u": u, "d": d}): return
    # (b) one default, many users
    for s in range(40 if th else 8):
        n = int(rng.integers(3, 7))
        if s % 2 == 0:
            d = copy.deepcopy(default); users = [gen_user_of_default(rng, default, stats) for _ in range(n)]
        else:
            _, d = gen_pair(rng, 4, 0.0, stats)
            users = []
            for _ in range(n):
                u = ref_merge(gen_pair(rng, 3, 0.05, stats)[0], {})
                for k, v in d.items():                                  # users that go INTO the nested sections of d
                    if isinstance(v, dict) and rng.random() < 0.7: u[k] = gen_pair(rng, 3, 0.0, stats)[0]
                users.append(u)
        counts["default_object_sequences"] += 1; counts["sequence_calls"] += n
        if report(oracle_sequence(users, d, False), {"check": "sequence", "users": users, "d": d, "poked": False}): return
    for s in range(30 if th else 6):
        n = int(rng.integers(3, 7))
        users = [gen_user_of_default(rng, default, stats) for _ in range(n - 1)] + [{}]
        if s == 0: users = [copy.deepcopy(c) for k, c in shipped.items() if k != "default"][:4] + [{}, {"qha": {}, "elast": {}}]
        poked = s % 2 == 1
        counts["apply_default_sequences"] += 1; counts["sequence_calls"] += len(users)
        if report(oracle_sequence(users, None, poked), {"check": "sequence", "users": users, "d": None, "poked": poked}): return
    # (c) validated, then compared with a pristine copy: complete files, and files that leave documented leaves / blocks out
    vcfgs = [copy.deepcopy(c) for c in shipped.values()] + [{"qha": {}, "elast": {}}, {"qha": {"settings": {}}, "elast": {"settings": {}}},
             {"qha": {}, "elast": {"settings": {"mode_gamma": {}, "symmetry": {}}}}, {}, {"qha": {}}, {"elast": {"settings": {"symmetry": {"system": "cubic"}}}}]
    for name, cfg in shipped.items():
        leaves = sorted(leaf_items(cfg).keys())
        for _ in range(12 if th else 3):
            v = copy.deepcopy(cfg)
            for i in rng.permutation(len(leaves))[:int(rng.integers(1, 6))]:
                v = del_path(v, leaves[i])
            vcfgs.append(v)
        for spec in FIELDS[:: (1 if th else 4)]:
            vcfgs.append(set_path(cfg, spec[0], WRONG[spec[1]][int(rng.integers(0, len(WRONG[spec[1]])))]))   # invalid ones too
    for cfg in vcfgs:
        counts["validated_then_compared"] += 1
        if report(oracle_validate_pure(copy.deepcopy(cfg)), {"check": "validate_pure", "cfg": cfg}): return
    # (d) files lacking each top-level section
    sfx = [".yaml", ".yml", ".json"]
    j = 0
    bases = dict(shipped); bases["minimal"] = {"qha": {}, "elast": {}}
    for name, cfg in bases.items():
        raws = [del_path(cfg, (k,)) for k in cfg] + [del_path(del_path(cfg, ("qha",)), ("elast",)), {}]
        for raw in raws:
            for suffix in (sfx if th else [sfx[j % 3]]):
                counts["section_files"] += 1
                counts["section_files_must_raise"] += int("qha" not in raw or "elast" not in raw)
                if report(oracle_section_file(copy.deepcopy(raw), suffix), {"check": "section_file", "cfg": raw, "suffix": suffix}): return
            j += 1
    res.distribution["state"] = counts


# ------------------------------------------------------------------------------------------------ translator tie
def stream_translator(ctx: Ctx, res: Result, shipped, schema):
    """what the model holds as packaged default / schema / examples is what the real files contain now"""
    a = ctx.driver.ask([{"op": "c16.default"}, {"op": "c16.schema"}, {"op": "c16.examples"}])
    checks = [("c16.default", shipped["default"], a[0]), ("c16.schema", schema, a[1])]
    ex = {k: v for k, v in shipped.items() if k != "default"}
    got_ex = {name: w for name, w in a[2]}
    for name, cfg in ex.items():
        checks.append(("c16.examples:" + name, cfg, got_ex.get(name)))
    for op, real, w in checks:
        res.evaluations += 1
        if w is None or canon(real) != canon_wire(w):
            res.disagreements.append(Disagreement(op, {"check": "translator"}, "file content", "translated value differs"))
        else:
            res.traces_validated += 1
    if set(got_ex) != set(ex):
        res.disagreements.append(Disagreement("c16.examples", {"check": "translator"}, sorted(ex), sorted(got_ex)))


# ------------------------------------------------------------------------------------------------ entry points
def measure_contracts(res: Result, schema):
    import jsonschema
    from jsonschema import validators
    cls = validators.validator_for(schema)
    if cls is not jsonschema.Draft202012Validator:
        res.contract_failures.append(f"jsonschema picks {cls.__name__} for the packaged schema, the model assumes Draft202012Validator")
    probe = {"definitions": {"a": {"type": "object"}}, "properties": {"p": {"type": "string", "$ref": "#/definitions/a"}}}
    if cls(probe).is_valid({"p": {}}) or cls(probe).is_valid({"p": "s"}):
        res.contract_failures.append("$ref siblings are not honoured by the installed jsonschema: the model assumes they are")
    res.extra["jsonschema_validator_class"] = cls.__name__


def run(ctx: Ctx) -> Result:
    res = Result()
    res.rule = ("a case is one call of the real code (update_config / apply_default_config / validate_config / read_config / "
                "jsonschema.validate on a schema variant) compared with the model and, where the property statement fixes the "
                "outcome, with the oracle; distinct_nontrivial counts distinct inputs after canonical JSON encoding, excluding "
                "the empty dict")
    shipped = load_shipped()
    schema = load_schema_file()
    measure_contracts(res, schema)
    # corpus first
    for payload in ctx.corpus():
        for f in replay(ctx, payload.get("input", payload)):
            res.oracle_failures.append(f)
    th = ctx.thorough()
    seen = set()
    stream_translator(ctx, res, shipped, schema)
    seen |= stream_merge(ctx, res, n_random=6000 if th else 700, n_default=1500 if th else 200, shipped=shipped)
    s2, vcases = stream_validate(ctx, res, shipped, schema)
    seen |= s2
    stream_variants(ctx, res, schema, vcases)
    stream_spelling(ctx, res, shipped, vcases, n_random=400 if th else 40)
    stream_partial(ctx, res, shipped)
    stream_state(ctx, res, shipped)
    seen.discard(json.dumps(["merge", enc({}), enc({})], sort_keys=True))
    res.distinct_nontrivial = len(seen)
    res.notes.append("parsers (PyYAML/json) are not modelled; YAML/JSON equivalence is tested on the real read_config only")
    res.notes.append("mutation of inputs is checked on the real code by deep comparison before/after every merge call")
    res.notes.append("the source of update_config / apply_default_config / read_config / validate_config is tied by the translator plug-in "
                     "tools/gens/config_src.py (printed definitions in Generated/ConfigSrc.lean, theorems *_is_source)")
    return res


def search(ctx: Ctx, res: Result):
    """the proof or the correspondence is broken and run() saw no oracle failure: search harder with fresh seeds"""
    out = Result()
    shipped = load_shipped(); schema = load_schema_file()
    found = []
    import time
    t_end = time.time() + (240 if ctx.thorough() else 100)
    for k in range(1, 6):
        if ctx.time_left() < 60 or time.time() > t_end: break
        c2 = Ctx(pid=ctx.pid, tier="thorough", seed=ctx.seed, rng=make_rng(ctx.seed + 1000 * k, "C16-search"), driver=ctx.driver,
                 corpus_dir=ctx.corpus_dir, deadline=ctx.deadline)
        stream_merge(c2, out, n_random=3000, n_default=800, shipped=shipped, stop_at_first=True)
        stream_validate(c2, out, shipped, schema)
        stream_state(c2, out, shipped, stop_at_first=True)
        found = list(out.oracle_failures)
        if any(f.site != SITE_DEFECT for f in found): break
    # disagreeing inputs themselves, through the oracle
    for d in res.disagreements[:50]:
        inp = d.input if isinstance(d.input, dict) else {}
        try:
            found += replay(ctx, inp)
        except Exception:  # noqa: BLE001
            pass
    return found


def replay(ctx: Ctx, payload):
    read_config, update_config, apply_default_config, validate_config = _impl()
    chk = payload.get("check")
    fails = []
    if chk == "merge":
        fl, _ = oracle_merge(update_config, copy.deepcopy(payload["u"]), copy.deepcopy(payload["d"]), "update_config")
        fails = fl
    elif chk == "apply_default":
        default = load_shipped()["default"]
        fl, _ = oracle_merge(apply_default_config, copy.deepcopy(payload["u"]), default, "apply_default_config", with_default=True)
        fails = fl
    elif chk == "validate":
        if payload.get("expect") is not None:
            impl = call_validate(copy.deepcopy(payload["cfg"]))
            obs = "accept" if impl == "accept" else "reject"
            if obs != payload["expect"]:
                fails = [(f"validate_config {obs}s a configuration that must be {payload['expect']}ed", impl, payload["expect"],
                          f"validate:{payload.get('kind')}:{'.'.join(payload.get('field', []))}:{payload['expect']}")]
    elif chk == "spelling":
        fails = oracle_spelling(payload["cfg"])
    elif chk == "merge_twice":
        fails = oracle_merge_twice(copy.deepcopy(payload["u"]), copy.deepcopy(payload["d"]) if payload.get("d") is not None else None)
    elif chk == "sequence":
        fails = oracle_sequence(copy.deepcopy(payload["users"]), copy.deepcopy(payload["d"]) if payload.get("d") is not None else None,
                                bool(payload.get("poked")))
    elif chk == "validate_pure":
        fails = oracle_validate_pure(copy.deepcopy(payload["cfg"]))
    elif chk == "section_file":
        fails = oracle_section_file(copy.deepcopy(payload["cfg"]), payload.get("suffix", ".yaml"))
    elif chk == "shadow-cwd":
        cfg = payload["cfg"]
        tmp = tempfile.mkdtemp(prefix="cij_c16_")
        try:
            os.makedirs(os.path.join(tmp, "default")); os.makedirs(os.path.join(tmp, "schema"))
            with open(os.path.join(tmp, "default", "settings.yaml"), "w") as fp:
                fp.write(yaml.safe_dump({"qha": {"settings": {"NT": 3, "foreign_key": 1}}, "foreign_section": {"x": 1}}))
            with open(os.path.join(tmp, "schema", "config.schema.json"), "w") as fp: fp.write("{}")
            ref_eff = apply_default_config(copy.deepcopy(cfg)) if isinstance(cfg, dict) and "qha" in cfg else None
            cwd = os.getcwd(); os.chdir(tmp)
            try:
                if ref_eff is not None:
                    eff = apply_default_config(copy.deepcopy(cfg))
                    if canon(eff) != canon(ref_eff):
                        fails.append(("effective configuration depends on files lying in the working directory", repr(eff)[:300], repr(ref_eff)[:300], "effective:shadow-cwd"))
                else:
                    verdict = call_validate(copy.deepcopy(cfg))
                    if verdict != "reject":
                        fails.append(("a configuration without its qha section is accepted when the working directory holds schema/config.schema.json", verdict, "reject", "validate:shadow-cwd"))
            finally:
                os.chdir(cwd)
        finally:
            shutil.rmtree(tmp, ignore_errors=True)
    elif chk == "partial":
        cfg = payload["cfg"]
        v = copy.deepcopy(cfg)
        try: validate_config(v)
        except Exception: pass
        if canon(v) != canon(cfg):
            fails.append(("validate_config changes the configuration it is given", repr(v)[:300], repr(cfg)[:300], "validate_config:mutates"))
        tmp = tempfile.mkdtemp(prefix="cij_c16_")
        try:
            pth = os.path.join(tmp, "p.yaml")
            with open(pth, "w") as fp: fp.write(yaml.safe_dump(cfg))
            got = read_config(pth)
            if canon(got) != canon(cfg):
                fails.append(("read_config (validating) returns something else than the file says", repr(got)[:300], repr(cfg)[:300], "read_config:partial:differs"))
            eff, ref = apply_default_config(copy.deepcopy(got)), apply_default_config(copy.deepcopy(cfg))
            if canon(eff) != canon(ref):
                fails.append(("effective configuration of a partly specified file is not user-over-packaged-default", repr(eff)[:300], repr(ref)[:300], "effective:partial:differs"))
        finally:
            shutil.rmtree(tmp, ignore_errors=True)
    elif chk == "read_validate":
        tmp = tempfile.mkdtemp(prefix="cij_c16_")
        try:
            p = os.path.join(tmp, "v.yaml")
            with open(p, "w") as fp: fp.write(yaml.safe_dump(payload["cfg"]))
            direct = call_validate(copy.deepcopy(payload["cfg"]))
            try:
                read_config(p); via = "accept"
            except Exception as e:  # noqa: BLE001
                via = "reject" if type(e).__name__ == "ValidationError" else "error:" + type(e).__name__
            if via != direct:
                fails = [("read_config(validate=True) and validate_config disagree", via, direct, "read_config:validate-flag")]
        finally:
            shutil.rmtree(tmp, ignore_errors=True)
    elif chk == "suffix":
        tmp = tempfile.mkdtemp(prefix="cij_c16_")
        try:
            nme = payload["name"]
            p = os.path.join(tmp, "sfx", nme); os.makedirs(os.path.dirname(p), exist_ok=True)
            with open(p, "w") as fp: fp.write('{"a": 1e3}')
            expected = {"s.json": "json", "s.yml": "yaml", "s.yaml": "yaml"}.get(nme)
            try:
                got = read_config(p, validate=False)
                impl = "json" if got == {"a": 1000.0} and isinstance(got["a"], float) else ("yaml" if got == {"a": "1e3"} else "other")
            except Exception as e:  # noqa: BLE001
                impl = "error:" + type(e).__name__
            if expected and impl != expected:
                fails = [(f"read_config does not read a {nme[1:]} file as {expected}", impl, expected, "read_config:suffix:" + nme[1:])]
        finally:
            shutil.rmtree(tmp, ignore_errors=True)
    return [OracleFailure(what=w, input=payload, observed=o, expected=e, site=s) for (w, o, e, s) in fails]
