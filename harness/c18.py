"""C18 — `cij run-static` reports a consistent static EoS / elasticity table in every mode.

generator      synthetic E(V) data (Birch–Murnaghan + optional noise, 5–12 decreasing volumes) written with
               harness/synth.py's writers; optional static table whose volume column DIFFERS from input01's (other count,
               other range, shuffled row order, C11 / c21-style spellings); the three modes; grid sizes 11–401; pressure
               grids inside the pressure range of the data; with/without static table, `-s` (all nine systems, independent
               components of synth.SYSTEM_INDEPENDENT), `--cellmass` (≠ header), `--delta-p-sample`, `--v-ratio`.
correspondence the REAL command (`cij.cli.static.main` through click's CliRunner, stdout parsed) against
               `CijModel/Static.lean` (`c18.run`): every column, the column order and the row labels.
source tie     (tools/gens/static_src.py, `static_model_is_source…`): an option that is NOT on the command line is not sent to the
               model either — the driver takes the default the click declaration in the source declares now; every fifth case (and every case of the added streams) the
               driver also interprets the translated blocks of `main` and reports whether that is bit-identical to the model;
               streams added because the tie showed them untested: the bare command / `-I pressure` with the declared defaults,
               `--delta-p-sample` that is not a multiple of `--delta-p`, `--delta-p-sample` outside pressure mode and equal to 0,
               small `--ntv` (edge stream).
oracle         independent numpy evaluation of the property statement on the printed table: own Eulerian strains and own
               quadratic least squares (numpy.polyfit), analytic P = −dF/dV of that fit, F(V) on the fit, CODATA unit
               factors typed in below, own fit of every static column at the row's volume, VRH by contraction of the full
               3x3x3x3 tensors (numpy.einsum), velocities sqrt(M/rho), requested pressure grid, symmetry filling compared with a
               run on a pre-filled table (pre-filling by the Laue-invariant basis of harness/fillcommon.py: rotations only),
               `--cellmass` against the header mass.
"""
from __future__ import annotations

import hashlib
import io
import json
import math
import os
import shutil
import tempfile
import time
import types
from decimal import Decimal
from typing import Dict, List, Optional

import numpy

from harness import synth
from harness.common import Ctx, Result, Disagreement, OracleFailure, enc, dec_arr, family_close, jsonable

ASSUMPTIONS = [
    "the table is read from stdout as pandas prints it; the harness sets pandas' display.precision to 17 in-process so that the "
    "printed numbers round-trip (a second pass with the default options checks the 6-decimal print of the same numbers)",
    "qha's calculate_eulerian_strain, numpy.sqrt, numpy.linalg.inv, scipy's InterpolatedUnivariateSpline and Python's round are "
    "parameters of the model (Ext); run by the driver as libm pow, Float.sqrt, Gauss-Jordan, a not-a-knot cubic spline, "
    "ties-to-even; the spline contract (it interpolates its nodes) is measured per run on scipy itself",
    "numpy.linalg.lstsq (inside qha) is compared with the exact normal-equation solution over Rat: tolerance 1e-7 of the family",
    "numpy.gradient as a derivative and the spline of mode none are numerical approximations: the oracle compares the printed P "
    "with the analytic derivative of the fit within C*h^2 (interior rows) / C*h (the two end rows of mode volume)",
    "pressure mode: V(P) and F(P) come from the same 4-point Lagrange rule in P (qha v2p): the pair (V, F) lies on the fit to "
    "interpolation accuracy, measured on the oracle's own emulation of a 4-point Lagrange rule on its own curve (x C_LAG); exact "
    "when V and F are cubic in P and at node pressures (theorems)",
    "pressure grids are drawn inside the pressure range spanned by the input volumes (the property's 'inside the fitted range')",
    "without -s the static table carries every non-zero component of its system (the command warns that this is the user's duty)",
]
TRUSTED_EXTRA = [
    "click.testing.CliRunner (in-process invocation of the real command, stdout captured separately from stderr)",
    "pandas.read_csv(sep=r'\\s+') to parse the printed table",
    "an independent pint.UnitRegistry created by the harness supplies the six unit factors of the model run; the oracle uses "
    "CODATA-2018 numbers typed into harness/c18.py",
]

# ---- the oracle's own constants (CODATA 2018, typed in; never read from the code under test) ---------------------------
BOHR_M = 5.29177210903e-11
RY_J = 2.1798723611035e-18
EV_J = 1.602176634e-19
AMU_KG = 1.66053906660e-27
ANG3_PER_BOHR3 = (BOHR_M * 1e10) ** 3
EV_PER_RY = RY_J / EV_J
GPA_PER_AU = RY_J / BOHR_M ** 3 / 1e9
GCM3_PER_AMU_BOHR3 = (AMU_KG * 1e3) / (BOHR_M * 1e2) ** 3
VOIGT = {1: (0, 0), 2: (1, 1), 3: (2, 2), 4: (1, 2), 5: (0, 2), 6: (0, 1)}      # documented map, oracle's own copy

SITE_SYSTEM_NO_TABLE = "cli/static.py:main:fill_cij-called-without-input02"

TOL_EXACT = 1e-9      # columns that are copies / products of inputs
TOL_FIT = 1e-7        # least-squares quantities (numpy lstsq vs exact / vs numpy.polyfit)
C_P_INT = 1.5         # |P_fd − P_analytic| <= C_P_INT * h^2 * max|P''|   (interior rows)   [theory 1/6; measured <= 0.28 incl. the spline of mode none]
C_P_END = 1.5         # ... <= C_P_END * h * max|P'|  (one-sided end rows of mode volume)  [theory 1/2; measured <= 0.50]
C_LAG = 4.0           # pressure mode: deviations from the fit <= C_LAG * (deviation of the oracle's own 4-point Lagrange emulation)
                      #   (+ the C_P_INT term for P, + 1e-6 * spread for F)                         [measured ratio <= 1.6]


# ======================================================================================================== helpers
def _units():
    """six factors from an independent pint registry (not cij.util.units)"""
    if "u" not in _units.__dict__:
        import pint
        u = pint.UnitRegistry()
        q = lambda a, b: float(u.Quantity(1.0, a).to(b).magnitude)
        _units.u = {
            "to_ang3": q(u.bohr ** 3, u.angstrom ** 3), "to_ev": q(u.rydberg, u.eV),
            "to_gpa": q(u.rydberg / u.bohr ** 3, u.GPa), "from_gpa": q(u.GPa, u.rydberg / u.bohr ** 3),
            "to_gcm3": q((u.g / u.mol) / (u.bohr ** 3 / u.particle), u.g / u.cm ** 3),
            "to_kms": q((u.GPa / (u.g / u.cm ** 3)) ** (1 / 2), u.km / u.s)}
    return _units.u


def strain(v0, v):
    return 0.5 * ((v0 / numpy.asarray(v, dtype=float)) ** (2.0 / 3.0) - 1.0)


class OwnFit:
    """the oracle's finite-strain fit: quadratic in the Eulerian strain w.r.t. volumes[0], by numpy.polyfit"""

    def __init__(self, volumes, values):
        self.v0 = float(volumes[0])
        self.coef = numpy.polyfit(strain(self.v0, volumes), numpy.asarray(values, dtype=float), 2)
        self.dcoef = numpy.polyder(self.coef)

    def __call__(self, v):
        return numpy.polyval(self.coef, strain(self.v0, v))

    def minus_ddv(self, v):
        """−d/dV of the fit, analytically: df/dV = −(1/3) (v0/V)^(2/3) / V"""
        v = numpy.asarray(v, dtype=float)
        dfdv = -(1.0 / 3.0) * (self.v0 / v) ** (2.0 / 3.0) / v
        return -numpy.polyval(self.dcoef, strain(self.v0, v)) * dfdv

    def d2(self, v, eps=1e-4):
        """numerical bounds for P' and P'' on a range (only used to scale tolerances)"""
        v = numpy.asarray(v, dtype=float)
        h = eps * v
        p0, pp, pm = self.minus_ddv(v), self.minus_ddv(v + h), self.minus_ddv(v - h)
        return (pp - pm) / (2 * h), (pp - 2 * p0 + pm) / h ** 2


def lagrange_deviation(fit: "OwnFit", grid: numpy.ndarray, wanted: numpy.ndarray):
    """What "to interpolation accuracy" means on THIS grid — the oracle's own emulation of the conversion: the grid volumes
    labelled with the difference quotients of the oracle's own fit (central inside, one-sided at the two ends), own bracket,
    cubic through the 4 bracketing nodes by numpy.polyfit.  Returns (max |P(V_or) - p|, max |F_or - fit(V_or)|) with P(.) the
    ANALYTIC derivative of the oracle's fit, or (None, None) when the labels are not monotonic on the grid."""
    f = fit(grid)
    Pn = numpy.empty_like(grid)
    Pn[1:-1] = -(f[2:] - f[:-2]) / (grid[2:] - grid[:-2])
    Pn[0] = -(f[1] - f[0]) / (grid[1] - grid[0])
    Pn[-1] = -(f[-1] - f[-2]) / (grid[-1] - grid[-2])
    if not numpy.all(numpy.diff(Pn) < 0):
        return None, None
    Pa, Va, Fa = Pn[::-1], grid[::-1], f[::-1]                    # increasing pressure
    n = len(Pa)
    dp_max, df_max = 0.0, 0.0
    for p in wanted:
        k = int(numpy.searchsorted(Pa, p, side="right")) - 1
        lo = min(max(k - 1, 0), n - 4)
        idx = slice(lo, lo + 4)
        sc = float(Pa[lo + 3] - Pa[lo])
        x = (Pa[idx] - p) / sc
        v_or = float(numpy.polyval(numpy.polyfit(x, Va[idx], 3), 0.0))
        f0 = float(Fa[lo])
        f_or = float(numpy.polyval(numpy.polyfit(x, Fa[idx] - f0, 3), 0.0)) + f0
        dp_max = max(dp_max, abs(float(fit.minus_ddv(v_or)) - p))
        df_max = max(df_max, abs(f_or - float(fit(v_or))))
    return dp_max, df_max


def full_tensor(c6):
    T = numpy.zeros((3, 3, 3, 3))
    for a in range(1, 7):
        for b in range(1, 7):
            i, j = VOIGT[a]; k, l = VOIGT[b]
            for (p, q) in ((i, j), (j, i)):
                for (r, s) in ((k, l), (l, k)):
                    T[p, q, r, s] = c6[a - 1, b - 1]
    return T


def compliance_tensor(s6):
    T = numpy.zeros((3, 3, 3, 3))
    w = lambda a: 1.0 if a <= 3 else 0.5
    for a in range(1, 7):
        for b in range(1, 7):
            i, j = VOIGT[a]; k, l = VOIGT[b]
            for (p, q) in ((i, j), (j, i)):
                for (r, s) in ((k, l), (l, k)):
                    T[p, q, r, s] = s6[a - 1, b - 1] * w(a) * w(b)
    return T


def prefill(system: str, names: List[str], rows: numpy.ndarray):
    """the full set of non-zero components implied by the supplied independent ones, from the rotation-invariant basis"""
    from harness import fillcommon
    info = fillcommon.invariant_basis(system)
    B = info["B"]
    sel = [fillcommon.SYMS.index(n) for n in names]
    coef, *_ = numpy.linalg.lstsq(B[sel, :], rows.T, rcond=None)
    full = (B @ coef).T                                   # rows x 21
    nz = info["nonzero"]
    return [fillcommon.SYMS[i] for i in nz], full[:, nz]


# ======================================================================================================== generator
SYSTEMS = list(synth.SYSTEM_INDEPENDENT)
NTVS = [11, 12, 15, 21, 33, 51, 101, 201, 401]


def _canon_name(n: str) -> str:
    d = "".join(ch for ch in n if ch.isdigit())
    i, j = sorted((int(d[0]), int(d[1])))
    return f"c{i}{j}"


def draw_case(rng: numpy.random.Generator, force: Optional[dict] = None, thorough: bool = False) -> dict:
    force = dict(force or {})
    nv = int(force.get("nv", rng.integers(5, 13)))
    v0 = float(rng.uniform(300.0, 900.0))
    if rng.random() < 0.5:
        fr = numpy.linspace(1.06, 0.86, nv)
    else:                                                  # uneven spacing
        fr = numpy.sort(rng.uniform(0.84, 1.08, nv))[::-1].copy()
        fr = fr + numpy.linspace(0.004, -0.004, nv)       # keep them strictly decreasing and apart
    vols = v0 * fr
    b0 = float(rng.uniform(120.0, 300.0)) / synth.GPA_PER_RY_BOHR3
    bp = float(rng.uniform(3.4, 5.0))
    e0 = float(rng.uniform(-4000.0, -20.0))
    en = synth.birch_murnaghan_energy(vols, v0, b0, bp, e0)
    if rng.random() < 0.5:
        en = en + rng.normal(0.0, 2e-5, nv)                # a genuine least-squares residual
    interp = force.get("interp", ["none", "volume", "pressure"][int(rng.integers(3))])
    ntv = int(force.get("ntv", NTVS[int(rng.integers(len(NTVS)))] if rng.random() < 0.8 else rng.integers(11, 402)))
    v_ratio = force.get("v_ratio", None if rng.random() < 0.5 else float(rng.choice([1.05, 1.1, 1.2, 1.3])))
    with_table = force.get("table", rng.random() < 0.7)
    system = force.get("system", (SYSTEMS[int(rng.integers(9))] if rng.random() < 0.55 else None)) if with_table else force.get("system")
    cellmass = force.get("cellmass", float(numpy.round(rng.uniform(20.0, 500.0), 3)) if rng.random() < 0.5 else None)
    case = {"kind": "static", "input01": {"volumes": vols.tolist(), "energies": en.tolist()}, "input02": None,
            "args": {"interp": interp, "ntv": ntv, "v_ratio": v_ratio, "system": system, "cellmass": cellmass,
                     "p_min": None, "delta_p": None, "delta_p_sample": None}}
    case["exponent_notation"] = bool(force.get("exponent_notation", rng.random() < 0.25))
    # ---- static table on its OWN volumes
    if with_table:
        tsys = system or SYSTEMS[int(rng.integers(9))]
        nv2 = int(rng.integers(4, 11))
        while nv2 == nv: nv2 = int(rng.integers(4, 11))
        lo, hi = vols.min() * rng.uniform(0.95, 1.03), vols.max() * rng.uniform(0.97, 1.05)
        v2 = numpy.sort(rng.uniform(lo, hi, nv2) + numpy.linspace(0, 1e-3, nv2))[::-1].copy()
        order = rng.random()
        if order < 0.35: v2 = v2[::-1].copy()              # increasing
        elif order < 0.7: v2 = rng.permutation(v2)         # shuffled rows
        keys = list(synth.SYSTEM_INDEPENDENT[tsys])
        for attempt in range(50):
            tab = numpy.zeros((nv2, len(keys)))
            for c, k in enumerate(keys):
                i, j = int(k[0]), int(k[1])
                if i == j and i <= 3: base = rng.uniform(350.0, 550.0)
                elif i == j: base = rng.uniform(90.0, 180.0)
                elif j <= 3: base = rng.uniform(80.0, 150.0)
                else: base = rng.uniform(-18.0, 18.0) * 0.85 ** attempt
                tab[:, c] = base * (v0 / v2) ** rng.uniform(1.5, 3.5)
            names = ["c" + k for k in keys]
            fnames, ftab = prefill(tsys, names, tab)
            ok = True
            for r in range(nv2):
                M = numpy.zeros((6, 6))
                for n, x in zip(fnames, ftab[r]):
                    M[int(n[1]) - 1, int(n[2]) - 1] = M[int(n[2]) - 1, int(n[1]) - 1] = x
                w = numpy.linalg.eigvalsh(M)
                if w[0] < 0.03 * w[-1]: ok = False
            if ok: break
        if system is None:                                  # no -s: the table itself carries every non-zero component
            names, tab = fnames, ftab
        elif force.get("full21") or (("full21" not in force) and rng.random() < 0.15):
            # -s SYSTEM on a table that already lists all 21 components (vanishing ones as zero columns): the system is still
            # applied — same result as on the independent components alone, vanishing components omitted
            allk = [f"c{i}{j}" for i in range(1, 7) for j in range(i, 7)]
            full = numpy.zeros((nv2, 21))
            for c, n in enumerate(fnames): full[:, allk.index(n)] = ftab[:, c]
            names, tab = allk, full
        perm = rng.permutation(len(names))
        names = [names[i] for i in perm]; tab = tab[:, perm]
        style = rng.random()
        spelled = []
        for n in names:
            if style < 0.15: n = n.upper()
            elif style < 0.3 and n[1] != n[2] and rng.random() < 0.5: n = "c" + n[2] + n[1]
            spelled.append(n)
        case["input02"] = {"vref": float(v2[0]), "cellmass": float(numpy.round(rng.uniform(20.0, 500.0), 4)),
                           "names": spelled, "volumes": v2.tolist(), "rows": tab.tolist(), "table_system": tsys}
        if system is not None:
            case["prefilled"] = {"names": fnames, "rows": ftab.tolist()}
    # ---- pressure grid inside the pressure range of the data
    if interp == "pressure":
        fit = OwnFit(vols, en)
        p_lo = float(fit.minus_ddv(vols.max())) * GPA_PER_AU
        p_hi = float(fit.minus_ddv(vols.min())) * GPA_PER_AU
        span = p_hi - p_lo
        p_min = p_lo + span * rng.uniform(0.02, 0.4)
        p_min = float(numpy.round(p_min, int(rng.integers(0, 3))))
        if rng.random() < 0.3 and p_lo < 0 < p_hi: p_min = 0.0
        dp_max = (p_hi - 0.02 * span - p_min) / (ntv - 1)
        dec = 3 if dp_max < 0.02 else (2 if dp_max < 0.2 else 1)
        dp = math.floor(dp_max * rng.uniform(0.5, 1.0) * 10 ** dec) / 10 ** dec
        if dp <= 0: dp = math.floor(dp_max * 10 ** 4) / 10 ** 4
        dp_s = f"{dp:.{dec if dp >= 10 ** -dec else 4}f}"
        if force.get("delta_p") is not None and float(force["delta_p"]) <= dp_max:
            dp_s = str(force["delta_p"])                   # e.g. "0.1": 0.3/0.1 = 2.9999999999999996 in floating point
        case["args"]["p_min"] = repr(p_min)
        case["args"]["delta_p"] = dp_s
        if force.get("defaults_p"):
            # `-I pressure` with the DECLARED --p-min / --delta-p (0 and 1.0 GPa), when the data cover 0 … ntv-1 GPa
            if p_lo + 0.02 * span <= 0.0 and (ntv - 1) * 1.0 <= p_hi - 0.02 * span:
                case["args"]["p_min"] = None; case["args"]["delta_p"] = None
                case["declared"] = {"p_min": 0.0, "delta_p": 1.0}
                dp_s = "1.0"
        if force.get("sample_ratio") is not None:
            # DELTA_P_SAMPLE that is NOT a multiple of DELTA_P: the step is the nearest whole number of grid intervals
            ratio = Decimal(str(force["sample_ratio"]))
            case["args"]["delta_p_sample"] = str(Decimal(dp_s) * ratio)
            case["sample_ratio"] = float(ratio)
        elif force.get("sample", rng.random() < 0.6):
            m = int(force.get("sample_m", rng.choice([1, 2, 3, 5, 7, 10])))
            case["args"]["delta_p_sample"] = str(Decimal(dp_s) * m)
            case["sample_m"] = m
        if force.get("sample_zero"):
            case["args"]["delta_p_sample"] = "0"; case.pop("sample_m", None)       # falsy: no sampling
    elif force.get("sample_outside") is not None:
        case["args"]["delta_p_sample"] = str(force["sample_outside"])      # ignored: the sampling is guarded by interp == "pressure"
    if force.get("stream") and not (force.get("defaults_p") and "declared" not in case):
        case["stream"] = force["stream"]
    if force.get("bare"):
        case["omit"] = [k for k, dflt in (("interp", "none"), ("ntv", 201)) if case["args"][k] == dflt]
    return case


# ======================================================================================================== real command
def _write_files(d: str, case: dict, table: Optional[dict] = None):
    i1 = case["input01"]
    nv = len(i1["volumes"])
    ds = types.SimpleNamespace(nv=nv, nq=1, np_=3, nm=1, na=1, pressures=numpy.zeros(nv), volumes=numpy.array(i1["volumes"]),
                               energies=numpy.array(i1["energies"]), q_coords=numpy.zeros((1, 3)),
                               freqs=numpy.full((nv, 1, 3), 100.0), weights=numpy.array([1.0]))
    # numbers of INPUT01 in exponent notation for some cases (Fortran-style output; `float()` reads both spellings exactly)
    synth.write_input01(os.path.join(d, "input01"), ds, number=(lambda x: "%.16E" % x) if case.get("exponent_notation") else None)
    t = table if table is not None else case["input02"]
    if t is not None:
        with open(os.path.join(d, "elast.dat"), "w") as fp:      # layout of synth.write_elast, with free column names
            fp.write("V_0 N cellmass synthetic\n")
            fp.write("%s %d %s\n" % (repr(float(t["vref"])), len(t["volumes"]), repr(float(t["cellmass"]))))
            fp.write("V " + " ".join(t["names"]) + "\n")
            for v, row in zip(t["volumes"], t["rows"]):
                fp.write(repr(float(v)) + " " + " ".join(repr(float(x)) for x in row) + "\n")


def _argv(d: str, case: dict, with_table: bool, system="__case__") -> List[str]:
    a = case["args"]
    argv = [os.path.join(d, "input01")]
    if with_table: argv.append(os.path.join(d, "elast.dat"))
    omit = case.get("omit", [])
    if "interp" not in omit: argv += ["-I", a["interp"]]
    if "ntv" not in omit: argv += ["-n", str(a["ntv"])]
    if a.get("v_ratio") is not None: argv += ["--v-ratio", repr(float(a["v_ratio"]))]
    if a.get("p_min") is not None: argv += ["--p-min", str(a["p_min"])]
    if a.get("delta_p") is not None: argv += ["--delta-p", str(a["delta_p"])]
    if a.get("delta_p_sample") is not None: argv += ["--delta-p-sample", str(a["delta_p_sample"])]
    if a.get("cellmass") is not None: argv += ["--cellmass", repr(float(a["cellmass"]))]
    sysname = a.get("system") if system == "__case__" else system
    if sysname is not None: argv += ["-s", sysname]
    return argv


def run_impl(case: dict, table: Optional[dict] = None, system="__case__", precision: Optional[int] = 17,
             cellmass="__case__") -> dict:
    """the real command on files; returns {'status': 'ok', columns, index, values} or {'status': 'error', 'exc': tag}"""
    import pandas
    import logging
    from click.testing import CliRunner
    from cij.cli.static import main
    d = tempfile.mkdtemp(prefix="cijverif_c18_")
    try:
        c = case
        if cellmass != "__case__":
            c = dict(case); c["args"] = dict(case["args"]); c["args"]["cellmass"] = cellmass
        _write_files(d, c, table)
        argv = _argv(d, c, (table if table is not None else c["input02"]) is not None, system)
        logging.disable(logging.WARNING)
        try:
            if precision is None:
                r = CliRunner().invoke(main, argv)
            else:
                with pandas.option_context("display.precision", precision):
                    r = CliRunner().invoke(main, argv)
        finally:
            logging.disable(logging.NOTSET)
        if r.exit_code != 0 or r.exception is not None:
            return {"status": "error", "exc": type(r.exception).__name__ if r.exception is not None else f"exit{r.exit_code}",
                    "msg": str(r.exception)[:200]}
        text = r.stdout
        lines = [l for l in text.splitlines() if l.strip()]
        while lines and not lines[0].split()[0] == "V":      # anything a logging handler may have put on stdout
            lines.pop(0)
        try:
            df = pandas.read_csv(io.StringIO("\n".join(lines)), sep=r"\s+")
        except Exception as e:                              # nothing that looks like a table on stdout
            return {"status": "error", "exc": "unparsable-stdout", "msg": f"{type(e).__name__}: {text[:120]!r}"}
        return {"status": "ok", "columns": [str(c) for c in df.columns], "index": [int(i) for i in df.index],
                "values": {str(c): df[c].to_numpy(dtype=float) for c in df.columns}}
    finally:
        shutil.rmtree(d, ignore_errors=True)


# ======================================================================================================== model
def model_op(case: dict) -> dict:
    a = case["args"]
    i1 = case["input01"]
    op = {"op": "c18.run",
          "input01": {"nv": len(i1["volumes"]), "volumes": enc(i1["volumes"]), "energies": enc(i1["energies"])},
          "input02": None,
          "units": {k: enc(v) for k, v in _units().items()},
          # an option that is not on the command line is None here: the driver then uses the default DECLARED IN THE SOURCE
          "options": {"interp": None if "interp" in case.get("omit", []) else a["interp"],
                      "ntv": None if "ntv" in case.get("omit", []) else int(a["ntv"]),
                      "p_min": enc(float(a["p_min"])) if a.get("p_min") is not None else None,
                      "delta_p": enc(float(a["delta_p"])) if a.get("delta_p") is not None else None,
                      "delta_p_sample": enc(float(a["delta_p_sample"])) if a.get("delta_p_sample") is not None else None,
                      "cellmass": enc(float(a["cellmass"])) if a.get("cellmass") is not None else None,
                      "v_ratio": enc(float(a["v_ratio"])) if a.get("v_ratio") is not None else None,
                      "system": a.get("system")}}
    if case.get("check_source"):
        op["check_source"] = True
    t = case["input02"]
    if t is not None:
        keys = []
        for n in t["names"]:
            d = "".join(ch for ch in n if ch.isdigit())
            keys.append([int(d[0]), int(d[1])] if len(d) == 2 else n)      # no digits: read_elast_data keeps the raw name
        op["input02"] = {"vref": enc(t["vref"]), "cellmass": enc(t["cellmass"]), "keys": keys,
                         "volumes": enc(t["volumes"]), "rows": enc(t["rows"])}
    return op


def decode_model(r) -> dict:
    if not isinstance(r, dict) or r.get("status") != "ok":
        return {"status": "error"}
    return {"status": "ok", "columns": list(r["columns"]), "index": [int(i) for i in r["index"]],
            "values": {c: dec_arr(v) for c, v in zip(r["columns"], r["values"])}}


FIT_COLS_PREFIX = ("c", "bm_", "G_", "v_")


def col_tol(name: str, interp: str) -> float:
    if name in ("V", "F", "density") and interp == "none": return TOL_EXACT
    if name == "P" and interp == "pressure": return TOL_EXACT
    if name in ("V", "density") and interp == "volume": return TOL_EXACT
    return TOL_FIT


def col_scale(name: str, x: numpy.ndarray, y: numpy.ndarray) -> Optional[float]:
    """F is compared relative to its spread (its absolute value is an arbitrary energy zero)"""
    if name == "F":
        f = x[numpy.isfinite(x)]
        if f.size >= 2:
            return float(max(numpy.max(f) - numpy.min(f), 1e-9 * numpy.max(numpy.abs(f))))
    return None


def compare(case: dict, impl: dict, model: dict) -> Optional[str]:
    if impl["status"] != model["status"]:
        return f"status impl={impl['status']}({impl.get('exc')}) model={model['status']}"
    if impl["status"] != "ok":
        return None
    if impl["columns"] != model["columns"]:
        return f"columns impl={impl['columns']} model={model['columns']}"
    if impl["index"] != model["index"]:
        return f"row labels impl={impl['index'][:6]}.. model={model['index'][:6]}.."
    interp = case["args"]["interp"]
    for c in impl["columns"]:
        x, y = impl["values"][c], model["values"][c]
        tol = col_tol(c, interp)
        sc = col_scale(c, x, y)
        ok, err, s = family_close(x, y, rtol=tol, scale=sc)
        if not ok:
            return f"column {c}: rel.err {err:.3g} (scale {s:.6g}, tol {tol:g})"
    return None


# ======================================================================================================== oracle
def _fail(check, observed, expected, **kw):
    d = {"check": check, "observed": observed, "expected": expected}
    d.update(kw)
    return d


def _close(a, b, rtol, scale=None, atol=0.0):
    ok, err, s = family_close(a, b, rtol=rtol, scale=scale, atol=atol)
    return ok, err


def _energy_check(check, got_ry, want_ry, tol_ry, shown_got, shown_want) -> List[dict]:
    """energies carry an arbitrary zero of ~1e3 Ry while the property is about ~1e-2 Ry differences: the absolute values are
    compared to the accuracy of the unit constant (1e-8), the differences within a row-to-row tolerance `tol_ry`"""
    got_ry, want_ry = numpy.asarray(got_ry), numpy.asarray(want_ry)
    big = float(numpy.max(numpy.abs(want_ry)))
    d_abs = float(numpy.max(numpy.abs(got_ry - want_ry)))
    d_rel = float(numpy.max(numpy.abs((got_ry - got_ry[0]) - (want_ry - want_ry[0]))))
    if not (d_abs <= 1e-8 * big + tol_ry) or not (d_rel <= tol_ry + 1e-13 * big):
        return [_fail(check, list(shown_got[:4]), list(shown_want[:4]), err=f"abs {d_abs:.3g} Ry, differences {d_rel:.3g} Ry, allowed {tol_ry:.3g} Ry")]
    return []


def oracle(case: dict, impl: Optional[dict] = None) -> List[dict]:
    """evaluates the property statement on what the real command prints; [] = holds"""
    a = case["args"]
    interp, ntv = a["interp"], int(a["ntv"])
    t2 = case["input02"]
    fails: List[dict] = []
    if impl is None:
        impl = run_impl(case)
    # ---------------------------------------------------------------- the command must report a table
    if impl["status"] != "ok":
        if t2 is None and a.get("system") is not None:
            return [_fail("reports-a-table:system-without-table", f"{impl.get('exc')}: {impl.get('msg')}", "a table (V, F, P)",
                          site=SITE_SYSTEM_NO_TABLE)]
        return [_fail("reports-a-table", f"{impl.get('exc')}: {impl.get('msg')}", "a table")]
    val = impl["values"]
    cols = impl["columns"]
    for need in ("V", "F", "P"):
        if need not in val:
            return [_fail("columns", cols, "V, F, P present")]
    vols = numpy.array(case["input01"]["volumes"]); en = numpy.array(case["input01"]["energies"])
    fit = OwnFit(vols, en)
    v_ratio = float(a["v_ratio"]) if a.get("v_ratio") is not None else 1.2
    grid = numpy.linspace(vols.min() / v_ratio, vols.max() * v_ratio, ntv)
    h = float(grid[1] - grid[0])
    V = val["V"] / ANG3_PER_BOHR3                 # reported volumes back in bohr^3 (oracle's own factor)
    F = val["F"] / EV_PER_RY
    P = val["P"] / GPA_PER_AU
    spread = float(numpy.max(fit(grid)) - numpy.min(fit(grid)))
    d1, d2 = fit.d2(grid)
    maxd1, maxd2 = float(numpy.max(numpy.abs(d1))), float(numpy.max(numpy.abs(d2)))
    pscale = float(numpy.max(numpy.abs(fit.minus_ddv(grid))))
    tol_p_int = C_P_INT * h * h * maxd2 + 1e-7 * pscale
    tol_p_end = C_P_END * h * maxd1 + 1e-7 * pscale
    nrow = len(V)
    # ---------------------------------------------------------------- rows / V / F per mode
    if interp == "none":
        if nrow != len(vols):
            return [_fail("rows", nrow, len(vols))]
        ok, err = _close(V, vols, 1e-7)
        if not ok: fails.append(_fail("V-is-input-volume-in-A3", val["V"][:4], (vols * ANG3_PER_BOHR3)[:4], err=err))
        fails += _energy_check("F-is-input-energy-in-eV", F, en, 1e-9 * spread, val["F"], en * EV_PER_RY)
        dP = numpy.abs(P - fit.minus_ddv(vols))
        if not numpy.all(dP <= tol_p_int):
            fails.append(_fail("P-is-minus-dF/dV-of-the-fit", float(dP.max()), f"<= {tol_p_int:.3g} Ry/bohr3", row=int(dP.argmax())))
    elif interp == "volume":
        if nrow != ntv:
            return [_fail("rows", nrow, ntv)]
        ok, err = _close(V, grid, 1e-7)
        if not ok: fails.append(_fail("V-is-the-volume-grid-in-A3", val["V"][:4], (grid * ANG3_PER_BOHR3)[:4], err=err))
        fails += _energy_check("F-is-the-fit-at-V", F, fit(V), 1e-6 * spread, val["F"], fit(V) * EV_PER_RY)
        dP = numpy.abs(P - fit.minus_ddv(V))
        tol = numpy.full(nrow, tol_p_int); tol[0] = tol[-1] = tol_p_end
        if not numpy.all(dP <= tol):
            k = int(numpy.argmax(dP / tol))
            fails.append(_fail("P-is-minus-dF/dV-of-the-fit", float(dP[k]), f"<= {tol[k]:.3g} Ry/bohr3", row=k))
    else:
        decl = case.get("declared") or {}
        p_min = float(a["p_min"]) if a.get("p_min") is not None else float(decl["p_min"])     # documented defaults: 0 and 1.0 GPa
        dp = float(a["delta_p"]) if a.get("delta_p") is not None else float(decl["delta_p"])
        step = 1
        if case.get("sample_ratio") is not None:
            # not a multiple of DELTA_P: equally spaced rows, the spacing being a whole number of grid intervals nearest to the
            # requested one (either neighbour when the request lies exactly in the middle)
            got = impl["index"]
            r = float(case["sample_ratio"])
            step = (got[1] - got[0]) if len(got) > 1 else max(1, round(r))
            if not (step >= 1 and abs(step - r) <= 0.5 + 1e-9):
                return [_fail("sampled-rows:nearest-multiple", got[:8], f"spacing within 0.5 of {r} grid intervals")]
        elif a.get("delta_p_sample") is not None and float(a["delta_p_sample"]) != 0.0:
            step = int(case.get("sample_m") or int(Decimal(str(a["delta_p_sample"])) / Decimal(str(dp))))
        labels = list(range(0, ntv, step))
        if impl["index"] != labels:
            return [_fail("sampled-rows", impl["index"][:8], labels[:8])]
        want = numpy.array([p_min + j * dp for j in labels])
        ok, err = _close(val["P"], want, 1e-9, atol=1e-9 * max(abs(dp), 1e-300))
        if not ok: fails.append(_fail("rows-at-requested-pressures", val["P"][:5], want[:5], err=err))
        # P(V) of the fit at the reported V is the requested pressure, and (V, F) lies on the fit — both to the accuracy of
        # the numerical pressure (C*h^2) and of a 4-point Lagrange interpolation in P.  The size of the latter is measured
        # on the oracle's own emulation: analytic P(V) at the grid volumes, own bracket, numpy.polyfit through 4 nodes.
        dev_p, dev_f = lagrange_deviation(fit, grid, want / GPA_PER_AU)
        if dev_p is None:
            fails.append(_fail("pressure-grid-inside-a-monotonic-range", "P(V) of the fit is not monotonic on the grid", "monotonic"))
        else:
            dP = numpy.abs(fit.minus_ddv(V) - want / GPA_PER_AU)
            tolp = C_LAG * dev_p + 1e-7 * pscale
            if not numpy.all(dP <= tolp):
                fails.append(_fail("P-is-minus-dF/dV-of-the-fit", float(dP.max()), f"<= {tolp:.3g} Ry/bohr3", row=int(dP.argmax())))
            tolf = C_LAG * dev_f + 1e-6 * spread
            fails += _energy_check("F-is-the-fit-at-V", F, fit(V), tolf, val["F"], fit(V) * EV_PER_RY)
    # ---------------------------------------------------------------- density
    header_mass = t2["cellmass"] if t2 is not None else None
    mass = a.get("cellmass") if a.get("cellmass") else header_mass
    if mass is not None:
        if "density" not in val:
            fails.append(_fail("density-column", cols, "density present"))
        else:
            want = float(mass) * GCM3_PER_AMU_BOHR3 / V
            ok, err = _close(val["density"], want, 1e-7)
            if not ok:
                fails.append(_fail("density-is-cellmass/V-in-g/cm3" + (":--cellmass" if a.get("cellmass") else ""),
                                   val["density"][:4], want[:4], err=err))
    elif "density" in val:
        fails.append(_fail("density-column", cols, "no density without a mass"))
    # ---------------------------------------------------------------- moduli, VRH, velocities
    if t2 is not None:
        names = [_canon_name(n) for n in t2["names"]]
        rows = numpy.array(t2["rows"]); v2 = numpy.array(t2["volumes"])
        expected: Dict[str, numpy.ndarray] = {}
        if a.get("system") is not None:
            pf = case["prefilled"]
            src_names, src_rows = pf["names"], numpy.array(pf["rows"])
        else:
            src_names, src_rows = names, rows
        for n, col in zip(src_names, src_rows.T):
            expected[n] = OwnFit(v2, col)(V)
        got_c = sorted(c for c in cols if len(c) == 3 and c[0] == "c" and c[1:].isdigit())
        if got_c != sorted(expected):
            fails.append(_fail("modulus-columns" + (":system-applied" if a.get("system") else ""), got_c, sorted(expected)))
        else:
            cscale = float(max(numpy.max(numpy.abs(x)) for x in expected.values()))
            for n in got_c:
                ok, err = _close(val[n], expected[n], 1e-6, scale=cscale)
                if not ok:
                    fails.append(_fail("moduli-are-the-fit-of-the-static-table-at-the-row-volume"
                                       + (":system-applied" if a.get("system") else ""), val[n][:4], expected[n][:4], key=n, err=err))
                    break
            # VRH from the PRINTED moduli by full-tensor contraction
            C6 = numpy.zeros((nrow, 6, 6))
            for n in got_c:
                i, j = int(n[1]) - 1, int(n[2]) - 1
                C6[:, i, j] = val[n]; C6[:, j, i] = val[n]
            want = {k: numpy.full(nrow, numpy.nan) for k in ("bm_V", "bm_R", "bm_VRH", "G_V", "G_R", "G_VRH")}
            spd = numpy.zeros(nrow, dtype=bool)
            for r in range(nrow):
                if not numpy.all(numpy.isfinite(C6[r])): continue
                w = numpy.linalg.eigvalsh(C6[r])
                T = full_tensor(C6[r])
                iijj = numpy.einsum("iijj->", T); ijij = numpy.einsum("ijij->", T)
                want["bm_V"][r] = iijj / 9.0
                want["G_V"][r] = (3.0 * ijij - iijj) / 30.0
                if w[0] > 1e-6 * abs(w[-1]):
                    spd[r] = True
                    S = compliance_tensor(numpy.linalg.inv(C6[r]))
                    siijj = numpy.einsum("iijj->", S); sijij = numpy.einsum("ijij->", S)
                    want["bm_R"][r] = 1.0 / siijj
                    want["G_R"][r] = 15.0 / (6.0 * sijij - 2.0 * siijj)
                    want["bm_VRH"][r] = 0.5 * (want["bm_V"][r] + want["bm_R"][r])
                    want["G_VRH"][r] = 0.5 * (want["G_V"][r] + want["G_R"][r])
            for k in want:
                if k not in val:
                    fails.append(_fail("vrh-columns", cols, k)); break
                m = numpy.isfinite(want[k])
                ok, err = _close(val[k][m], want[k][m], 1e-7, scale=cscale)
                if not ok:
                    fails.append(_fail(f"{k}-from-the-printed-moduli", val[k][m][:4], want[k][m][:4], err=err)); break
            if spd.any() and all(k in val for k in want):
                e = 1e-9 * cscale
                if not (numpy.all(val["bm_R"][spd] <= val["bm_VRH"][spd] + e) and numpy.all(val["bm_VRH"][spd] <= val["bm_V"][spd] + e)
                        and numpy.all(val["G_R"][spd] <= val["G_VRH"][spd] + e) and numpy.all(val["G_VRH"][spd] <= val["G_V"][spd] + e)):
                    fails.append(_fail("Reuss<=Hill<=Voigt", "violated", "ordered"))
            if "density" in val and all(k in val for k in ("v_p", "v_s", "v_phi", "bm_VRH", "G_VRH")):
                rho = val["density"] * 1e3                                   # kg/m^3
                K, G = val["bm_VRH"] * 1e9, val["G_VRH"] * 1e9               # Pa
                with numpy.errstate(invalid="ignore", divide="ignore"):
                    wv = {"v_p": numpy.sqrt((K + 4.0 * G / 3.0) / rho) / 1e3, "v_s": numpy.sqrt(G / rho) / 1e3,
                          "v_phi": numpy.sqrt(K / rho) / 1e3}
                for k in wv:
                    m = numpy.isfinite(wv[k]) & spd
                    ok, err = _close(val[k][m], wv[k][m], 1e-8)
                    if not ok:
                        fails.append(_fail(f"{k}-is-sqrt(M/rho)-in-km/s", val[k][m][:4], wv[k][m][:4], err=err)); break
            else:
                fails.append(_fail("velocity-columns", cols, "v_p, v_s, v_phi"))
    return fails


def fill_crosscheck(case: dict, impl: dict) -> List[dict]:
    """`-s SYSTEM` on the independent components == no `-s` on the table pre-filled by the Laue-invariant basis"""
    if case["input02"] is None or case["args"].get("system") is None or impl["status"] != "ok":
        return []
    t = dict(case["input02"])
    t["names"] = list(case["prefilled"]["names"]); t["rows"] = case["prefilled"]["rows"]
    ref = run_impl(case, table=t, system=None)
    if ref["status"] != "ok":
        return [_fail("system-applied:reference-run", ref.get("exc"), "ok")]
    fails = []
    if sorted(ref["columns"]) != sorted(impl["columns"]):
        return [_fail("system-applied:columns", sorted(impl["columns"]), sorted(ref["columns"]))]
    cs = [c for c in ref["columns"] if c[0] == "c" and c[1:].isdigit()]
    cscale = float(max(numpy.max(numpy.abs(ref["values"][c])) for c in cs))
    for c in ref["columns"]:
        sc = cscale if (c in cs or c.startswith(("bm_", "G_"))) else col_scale(c, ref["values"][c], impl["values"][c])
        ok, err = _close(impl["values"][c], ref["values"][c], 1e-7, scale=sc)
        if not ok:
            fails.append(_fail("system-applied:equals-run-on-prefilled-table", impl["values"][c][:4], ref["values"][c][:4], key=c, err=err))
            break
    return fails


def cellmass_crosscheck(case: dict, impl: dict) -> List[dict]:
    """`--cellmass m` scales density by m/header and the velocities by sqrt(header/m), and changes nothing else"""
    a = case["args"]
    if case["input02"] is None or not a.get("cellmass") or impl["status"] != "ok":
        return []
    ref = run_impl(case, cellmass=None)
    if ref["status"] != "ok":
        return [_fail("cellmass-applied:reference-run", ref.get("exc"), "ok")]
    ratio = float(a["cellmass"]) / float(case["input02"]["cellmass"])
    fails = []
    for c in ref["columns"]:
        x, y = impl["values"].get(c), ref["values"][c]
        if x is None: return [_fail("cellmass-applied:columns", impl["columns"], ref["columns"])]
        if c == "density": y = y * ratio
        elif c in ("v_p", "v_s", "v_phi"): y = y / math.sqrt(ratio)
        ok, err = _close(x, y, 1e-9, scale=col_scale(c, x, y))
        if not ok:
            fails.append(_fail("cellmass-applied", x[:4], y[:4], key=c, err=err)); break
    return fails


def print_crosscheck(case: dict, impl: dict) -> List[dict]:
    """the table as the user sees it (default pandas options) shows the same numbers to the printed 6 decimals"""
    if impl["status"] != "ok":
        return []
    ref = run_impl(case, precision=None)
    if ref["status"] != "ok":
        return [_fail("default-print", ref.get("exc"), "ok")]
    if ref["columns"] != impl["columns"] or ref["index"] != impl["index"]:
        return [_fail("default-print:layout", ref["columns"], impl["columns"])]
    for c in ref["columns"]:
        x, y = ref["values"][c], impl["values"][c]
        m = numpy.isfinite(y)
        if not numpy.array_equal(numpy.isfinite(x), m) or not numpy.all(numpy.abs(x[m] - y[m]) <= 0.51e-6 + 1e-12 * numpy.abs(y[m])):
            return [_fail("default-print:values", x[:4], y[:4], key=c)]
    return []


def contract_spline(res: Result):
    """external contract of mode none: scipy's InterpolatedUnivariateSpline interpolates its nodes; the driver's
    not-a-knot spline is the same function"""
    from scipy.interpolate import InterpolatedUnivariateSpline
    x = numpy.linspace(50.0, 120.0, 41); y = numpy.sin(x / 9.0) + 0.01 * x
    s = InterpolatedUnivariateSpline(x, y)
    if float(numpy.max(numpy.abs(s(x) - y))) > 1e-12:
        res.contract_failures.append("InterpolatedUnivariateSpline does not interpolate its nodes")
    return x, y, s


# ======================================================================================================== run
def _sub(ctx: Ctx) -> numpy.random.Generator:
    return numpy.random.Generator(numpy.random.PCG64(int(ctx.rng.integers(0, 2 ** 62))))


def plan(ctx: Ctx, n: int) -> List[dict]:
    """forced coverage first: three modes x (no table | table | table+system) ; all nine systems; grid ends 11 and 401;
    the sampling steps whose float quotient is not an integer; then free draws"""
    forced: List[dict] = []
    for interp in ("none", "volume", "pressure"):
        forced.append({"interp": interp, "table": False, "system": None})
        forced.append({"interp": interp, "table": True, "system": None})
    for i, s in enumerate(SYSTEMS):
        forced.append({"interp": ["none", "volume", "pressure"][i % 3], "table": True, "system": s, "ntv": [11, 21, 33][i % 3]})
    forced.append({"interp": "pressure", "table": True, "system": None, "ntv": 401, "sample": True, "sample_m": 10})
    forced.append({"interp": "volume", "table": True, "system": "cubic", "ntv": 101})
    forced.append({"interp": ["none", "volume", "pressure"][(ctx.seed + 1) % 3], "table": False, "system": None, "ntv": 21, "exponent_notation": True})
    forced.append({"interp": ["none", "volume", "pressure"][ctx.seed % 3], "table": True, "system": SYSTEMS[1 + ctx.seed % 8], "ntv": 21, "full21": True})
    forced.append({"interp": "none", "table": True, "system": None, "ntv": 401, "cellmass": 123.456})
    forced.append({"interp": "pressure", "table": True, "system": "hexagonal", "ntv": 31, "sample": True, "sample_m": 3, "cellmass": 77.7})
    forced.append({"interp": "volume", "table": False, "system": None, "ntv": 11, "cellmass": 55.5})
    forced.append({"interp": "pressure", "table": False, "system": None, "ntv": 11, "sample": True, "sample_m": 2})
    forced.append({"interp": "none", "table": False, "system": "cubic", "ntv": 21})          # -s without a table
    forced.append({"interp": "pressure", "table": False, "system": "cubic", "ntv": 11, "cellmass": 10.0})
    # DELTA_P_SAMPLE / DELTA_P is 2.9999999999999996 in floating point: round -> 3 rows apart (floor would give 2)
    forced.append({"interp": "pressure", "table": True, "system": None, "ntv": 41, "sample": True, "sample_m": 3, "delta_p": "0.1"})
    forced.append({"interp": "pressure", "table": False, "system": None, "ntv": 22, "sample": True, "sample_m": 3, "delta_p": "0.4"})
    forced.append({"interp": "pressure", "table": False, "system": None, "ntv": 25, "sample": True, "sample_m": 3, "delta_p": "0.2"})
    # ---- streams added with the source tie (counted in distribution["source_tie_streams"])
    forced.append({"interp": "none", "table": False, "system": None, "ntv": 201, "bare": True, "v_ratio": None, "cellmass": None, "stream": "bare command"})
    forced.append({"interp": "none", "table": True, "system": None, "ntv": 201, "bare": True, "v_ratio": None, "cellmass": None, "stream": "bare command"})
    forced.append({"interp": "volume", "table": ctx.seed % 2 == 0, "system": None, "ntv": 201, "bare": True, "v_ratio": None, "stream": "-n omitted"})
    forced.append({"interp": "pressure", "table": False, "system": None, "ntv": 11, "defaults_p": True, "sample": False, "stream": "declared --p-min/--delta-p"})
    forced.append({"interp": "pressure", "table": True, "system": None, "ntv": 12, "defaults_p": True, "sample": True, "sample_m": 2, "stream": "declared --p-min/--delta-p"})
    for k, r in enumerate(["2.4", "1.4", "3.6", "2.5", "1.5"][:(5 if ctx.thorough() else 3)]):
        forced.append({"interp": "pressure", "table": k % 2 == 1, "system": None, "ntv": [21, 33, 25, 41, 15][k], "sample_ratio": r, "stream": "sampling interval not a multiple"})
    forced.append({"interp": "volume", "table": False, "system": None, "ntv": 15, "sample_outside": "2.0", "stream": "--delta-p-sample outside pressure mode"})
    forced.append({"interp": "none", "table": True, "system": None, "ntv": 21, "sample_outside": "3.0", "stream": "--delta-p-sample outside pressure mode"})
    forced.append({"interp": "pressure", "table": False, "system": None, "ntv": 21, "sample": False, "sample_zero": True, "stream": "--delta-p-sample 0"})
    out = forced[:n]
    while len(out) < n:
        out.append({})
    return out


def _payload(case: dict, check: str) -> dict:
    return {"case": case, "check": check}


def evaluate(ctx: Ctx, res: Result, cases: List[dict], budget_s: float, extras_every: int = 1):
    t0 = time.time()
    dist = res.distribution
    for name in ("interp", "ntv", "table", "system", "cellmass", "sample", "nv", "table_rows", "outcome", "source_tie_streams",
                 "source_interpreter", "options_left_to_declared_defaults"):
        dist.setdefault(name, {})
    pend = []
    shapes = set()
    for k, case in enumerate(cases):
        if time.time() - t0 > budget_s or ctx.time_left() < 20:
            res.notes.append(f"stopped after {k} cases (time budget)")
            break
        a = case["args"]
        impl = run_impl(case)
        res.evaluations += 1
        if case.get("stream"):
            dist["source_tie_streams"][case["stream"]] = dist["source_tie_streams"].get(case["stream"], 0) + 1
        if k % 5 == 0 or case.get("stream"):
            case["check_source"] = True
        left = [o for o in ("p_min", "delta_p", "v_ratio") if a.get(o) is None and (o == "v_ratio" or a["interp"] == "pressure")] \
            + list(case.get("omit", []))
        for o in left:
            dist["options_left_to_declared_defaults"][o] = dist["options_left_to_declared_defaults"].get(o, 0) + 1
        desc = {"interp": a["interp"], "ntv": a["ntv"], "table": case["input02"] is not None, "system": a.get("system"),
                "cellmass": a.get("cellmass") is not None, "sample": case.get("sample_m"),
                "nv": len(case["input01"]["volumes"]),
                "table_rows": len(case["input02"]["volumes"]) if case["input02"] else 0, "outcome": impl["status"]}
        for name, v in desc.items():
            key = str(v); dist[name][key] = dist[name].get(key, 0) + 1
        shapes.add(tuple(str(v) for v in desc.values()))
        fails = oracle(case, impl)
        if impl["status"] == "ok" and (k % extras_every == 0):
            fails += fill_crosscheck(case, impl) + cellmass_crosscheck(case, impl)
            if k % (3 * extras_every) == 0:
                fails += print_crosscheck(case, impl)
        seen = set()
        for f in fails:
            if f["check"] in seen or len(res.oracle_failures) >= 12: continue
            seen.add(f["check"])
            res.oracle_failures.append(OracleFailure(
                what=f"C18 {f['check']}" + (f" ({f['key']})" if f.get("key") else ""), input=_payload(case, f["check"]),
                observed=f["observed"], expected=f["expected"], site=f.get("site") or f"c18:{f['check']}"))
        if len(res.samples) < 5 and impl["status"] == "ok":
            res.samples.append({"args": {k2: v for k2, v in a.items() if v is not None}, "columns": impl["columns"],
                                "rows": len(impl["index"]), "first_row": {c: float(impl["values"][c][0]) for c in impl["columns"][:8]}})
        pend.append((case, impl))
        if len(pend) >= 16:
            flush(ctx, res, pend); pend = []
    flush(ctx, res, pend)
    res.distinct_nontrivial += len(shapes)


def flush(ctx: Ctx, res: Result, pend):
    if not pend:
        return
    ans = ctx.driver.ask([model_op(c) for c, _ in pend], timeout=900.0)
    for (case, impl), r in zip(pend, ans):
        model = decode_model(r)
        why = compare(case, impl, model)
        if case.get("check_source") and isinstance(r, dict) and "source_agrees" in r:
            d = res.distribution.setdefault("source_interpreter", {})
            key = "bit-identical to the model" if r["source_agrees"] else "DIFFERS from the model"
            d[key] = d.get(key, 0) + 1
            if not r["source_agrees"]:
                res.disagreements.append(Disagreement("c18.run:source-interpreter", _payload(case, "correspondence:source-interpreter"),
                                                      {"status": impl["status"]}, {"status": model["status"]},
                                                      note="the interpretation of the translated blocks of main differs from Static.runWith on this input"))
        if why is None:
            res.traces_validated += 1
        else:
            res.disagreements.append(Disagreement("c18.run", _payload(case, "correspondence"),
                                                  {"status": impl["status"], "exc": impl.get("exc"), "columns": impl.get("columns")},
                                                  {"status": model["status"], "columns": model.get("columns")}, note=why))


def edge_cases(rng: numpy.random.Generator) -> List[dict]:
    """inputs OUTSIDE the property's quantifier (malformed stream): only the correspondence with the model is checked, and only
    where the command prints a table (then the model must print the same one); where the command raises, the outcome is
    recorded (the model is expected to refuse too — a difference there is a note, not a broken tie: the property says nothing
    about such inputs and a later version of the command may legitimately accept them)"""
    out = []
    def base(force):
        return draw_case(numpy.random.Generator(numpy.random.PCG64(int(rng.integers(0, 2 ** 62)))), force)
    c = base({"interp": "pressure", "table": False, "system": None, "ntv": 21}); c["args"]["delta_p"] = "40"; c["edge"] = "pressures beyond the fitted range"
    out.append(c)
    c = base({"interp": "pressure", "table": False, "system": None, "ntv": 21}); c["args"]["p_min"] = "-400"; c["edge"] = "pressures below the fitted range"
    out.append(c)
    c = base({"interp": "pressure", "table": True, "system": None, "ntv": 21, "sample": True, "sample_m": 2})
    c["args"]["delta_p_sample"] = str(Decimal(c["args"]["delta_p"]) * Decimal("0.3")); c["edge"] = "sampling step rounds to 0"
    out.append(c)
    c = base({"interp": "pressure", "table": False, "system": None, "ntv": 21, "sample": True, "sample_m": 2})
    c["args"]["delta_p_sample"] = str(Decimal(c["args"]["delta_p"]) * Decimal("2.5")); c["edge"] = "half-integer sampling quotient (ties to even)"
    out.append(c)
    c = base({"interp": "volume", "table": False, "system": None, "ntv": 3}); c["edge"] = "ntv = 3"
    out.append(c)
    c = base({"interp": "pressure", "table": False, "system": None, "ntv": 11}); c["args"]["ntv"] = 3; c["edge"] = "ntv = 3 in pressure mode"
    out.append(c)
    c = base({"interp": "volume", "table": False, "system": None, "ntv": 11}); c["args"]["ntv"] = 1; c["edge"] = "ntv = 1"
    out.append(c)
    c = base({"interp": "pressure", "table": False, "system": None, "ntv": 11, "sample": False}); c["args"]["ntv"] = 4; c["edge"] = "ntv = 4 in pressure mode (smallest grid qha's v2p accepts)"
    out.append(c)
    c = base({"interp": "none", "table": True, "system": None, "ntv": 11}); c["args"]["ntv"] = 5; c["edge"] = "ntv = 5 in mode none (spline through 5 nodes)"
    out.append(c)
    c = base({"interp": "volume", "table": True, "system": None, "ntv": 11}); c["args"]["ntv"] = 7; c["edge"] = "ntv = 7 with a static table"
    out.append(c)
    c = base({"interp": "volume", "table": True, "system": None, "ntv": 11, "cellmass": 0.0}); c["edge"] = "--cellmass 0 (falsy)"
    out.append(c)
    c = base({"interp": "none", "table": True, "system": "cubic", "ntv": 11}); c["args"]["system"] = None; c["edge"] = "incomplete tensor without -s (singular 6x6)"
    out.append(c)
    c = base({"interp": "volume", "table": True, "system": None, "ntv": 11})
    t = c["input02"]; k = t["names"].index(next(n for n in t["names"] if _canon_name(n) == "c12"))
    t["names"] = t["names"] + ["c21"]; t["rows"] = [r + [r[k] * 1.5] for r in t["rows"]]; c["edge"] = "c12 and c21 both tabulated (last value wins)"
    out.append(c)
    c = base({"interp": "none", "table": True, "system": None, "ntv": 11})
    t = c["input02"]; t["names"] = t["names"] + ["extra"]; t["rows"] = [r + [1.0] for r in t["rows"]]; c["edge"] = "column without digits (raw str key)"
    out.append(c)
    c = base({"interp": "none", "table": True, "system": "cubic", "ntv": 11}); c["args"]["system"] = "hexagonal"; c["edge"] = "-s of another system (rank-deficient)"
    out.append(c)
    return out


def evaluate_edges(ctx: Ctx, res: Result):
    cases = edge_cases(_sub(ctx))
    dist = res.distribution.setdefault("edge_stream", {})
    impls = [run_impl(c) for c in cases]
    ans = ctx.driver.ask([model_op(c) for c in cases], timeout=300.0)
    for case, impl, r in zip(cases, impls, ans):
        res.evaluations += 1
        model = decode_model(r)
        dist[case["edge"]] = impl["status"] + ("" if impl["status"] == "ok" else ":" + str(impl.get("exc")))
        why = compare(case, impl, model)
        if why is None:
            res.traces_validated += 1
        elif impl["status"] != "ok":
            res.notes.append(f"edge stream [{case['edge']}]: the command raises {impl.get('exc')}, the model prints a table")
        else:
            res.disagreements.append(Disagreement("c18.run", _payload(case, "correspondence:" + case["edge"]),
                                                  {"status": impl["status"], "exc": impl.get("exc")}, {"status": model["status"]}, note=why))


def warm_up() -> float:
    t = time.time()
    rng = numpy.random.Generator(numpy.random.PCG64(12345))
    run_impl(draw_case(rng, {"interp": "pressure", "table": True, "system": "cubic", "ntv": 11}))
    return time.time() - t


def run(ctx: Ctx) -> Result:
    res = Result()
    res.rule = ("a case = one synthetic (input01, optional static table, option set) written to files + the real command on it "
                "(+ reference runs for -s / --cellmass / default print); distinct = distinct (mode, ntv, table, system, cellmass, "
                "sampling, nv, table rows, outcome) tuples; non-trivial = all (every case has >= 5 volumes and a grid of >= 11 points)")
    res.extra["warmup_s"] = round(warm_up(), 2)
    u = _units()
    typed = {"to_ang3": ANG3_PER_BOHR3, "to_ev": EV_PER_RY, "to_gpa": GPA_PER_AU, "from_gpa": 1.0 / GPA_PER_AU,
             "to_gcm3": GCM3_PER_AMU_BOHR3, "to_kms": 1.0}
    for k, v in typed.items():
        if abs(u[k] / v - 1.0) > 1e-7:
            res.contract_failures.append(f"pint factor {k} = {u[k]!r} differs from CODATA-2018 {v!r}")
    res.extra["unit_factors"] = {k: [u[k], typed[k]] for k in typed}
    # external contracts of the driver's stand-ins
    x, y, s = contract_spline(res)
    t = numpy.linspace(55.0, 118.0, 17)
    m = dec_arr(ctx.driver.ask([{"op": "c18.spline", "x": enc(x), "y": enc(y), "t": enc(t)}])[0])
    if float(numpy.max(numpy.abs(m - s(t)))) > 1e-10:
        res.contract_failures.append(f"driver spline differs from scipy by {float(numpy.max(numpy.abs(m - s(t)))):.3g}")
    xs = [0.5, 1.5, 2.5, 2.9999999999999996, 3.0000000000000004, 2.6, 0.49999999999999994, 10.0, 4.5, 7.5]
    r = ctx.driver.ask([{"op": "c18.round", "xs": enc(xs)}])[0]
    if [int(v) for v in r] != [round(v) for v in xs]:
        res.contract_failures.append(f"driver round {r} differs from Python {[round(v) for v in xs]}")
    for payload in ctx.corpus():
        for f in replay(ctx, payload.get("input", payload)):
            res.oracle_failures.append(f)
    n, budget = (420, 400.0) if ctx.thorough() else (100, 50.0)
    forces = plan(ctx, n)
    cases = [draw_case(_sub(ctx), f, ctx.thorough()) for f in forces]
    evaluate(ctx, res, cases, budget, extras_every=1 if not ctx.thorough() else 2)
    evaluate_edges(ctx, res)
    res.distribution["tolerances"] = {"copied_columns": TOL_EXACT, "fitted_columns": TOL_FIT,
                                      "P_vs_analytic": f"{C_P_INT}*h^2*max|P''| interior, {C_P_END}*h*max|P'| end rows",
                                      "F_on_fit_pressure_mode": f"{C_LAG}*(own 4-point Lagrange emulation) + 1e-6*spread"}
    return res


def search(ctx: Ctx, res: Result):
    """tie broken and no failing input yet: more cases, every mode x table x system"""
    r2 = Result()
    forces = [{"interp": i, "table": t, "system": s, "ntv": n}
              for i in ("none", "volume", "pressure") for t, s in ((False, None), (True, None), (True, "cubic"), (True, "trigonal7"))
              for n in (11, 51)]
    cases = [draw_case(_sub(ctx), f) for f in forces] + [draw_case(_sub(ctx)) for _ in range(40)]
    evaluate(ctx, r2, cases, 150.0)
    res.evaluations += r2.evaluations
    # a disagreement with the model on a column the property determines is cross-checked by the oracle above; nothing else
    return r2.oracle_failures


def replay(ctx: Ctx, payload) -> List[OracleFailure]:
    case = payload["case"]
    warm_up()
    impl = run_impl(case)
    fails = oracle(case, impl)
    if impl["status"] == "ok":
        fails += fill_crosscheck(case, impl) + cellmass_crosscheck(case, impl) + print_crosscheck(case, impl)
    fails.sort(key=lambda f: f["check"] != payload.get("check"))
    return [OracleFailure(what=f"C18 {f['check']}" + (f" ({f['key']})" if f.get("key") else ""), input=payload,
                          observed=f["observed"], expected=f["expected"], site=f.get("site") or f"c18:{f['check']}") for f in fails]
