"""End-to-end helpers shared by the checks that run the real `Calculator` (C05, C06, C12, C13, C14, C15).

`run_calculator(ds)` writes a synthetic data set to a scratch directory (outside /repo and /verif), constructs the
real `cij.core.calculator.Calculator`, and removes the directory.  Nothing is monkey-patched.
"""
from __future__ import annotations

import contextlib
import io
import logging
import os
import shutil
import tempfile
import warnings
from typing import Callable, Optional

import numpy

from harness import synth


@contextlib.contextmanager
def quiet():
    """cij logs through `logging` and numpy warns about the T=0 row (inf/inf before it is zeroed)."""
    prev = logging.root.manager.disable
    logging.disable(logging.CRITICAL)
    try:
        with warnings.catch_warnings():
            warnings.simplefilter("ignore")
            yield
    finally:
        logging.disable(prev)


@contextlib.contextmanager
def scratch_dir(prefix="cijverif_"):
    d = tempfile.mkdtemp(prefix=prefix)
    try:
        yield d
    finally:
        shutil.rmtree(d, ignore_errors=True)


def run_calculator(ds: synth.DataSet, then: Optional[Callable] = None):
    """returns ("ok", calculator-or-then(calculator, dir)) or ("error", exception)"""
    import cij.core.calculator as cc
    with scratch_dir() as d, quiet():
        path = synth.write_all(d, ds)
        try:
            calc = cc.Calculator(path)
        except Exception as e:  # the property decides whether this is acceptable
            return "error", e
        if then is not None:
            cwd = os.getcwd()
            os.chdir(d)
            try:
                return "ok", then(calc, d)
            finally:
                os.chdir(cwd)
        return "ok", calc


def stiffness_matrices(modulus: dict, shape) -> numpy.ndarray:
    """(nt, nv, 6, 6) symmetric assembly from a {key: array} dict (keys are cij C_ objects)."""
    m = numpy.zeros((*shape, 6, 6))
    for key, val in modulus.items():
        i, j = key.voigt
        m[..., i - 1, j - 1] = val
        m[..., j - 1, i - 1] = val
    return m


def spd_mask(mats: numpy.ndarray) -> numpy.ndarray:
    """grid points where the 6x6 stiffness is finite and positive definite"""
    fin = numpy.isfinite(mats).all(axis=(-1, -2))
    out = numpy.zeros(mats.shape[:-2], dtype=bool)
    idx = numpy.argwhere(fin)
    for t, v in idx:
        w = numpy.linalg.eigvalsh(mats[t, v])
        out[t, v] = w.min() > 1e-9 * max(abs(w).max(), 1e-300)
    return out
