"""C05 — total modulus = interpolated static table + phonon part, end to end from files.

Per case: a synthetic-but-physical data set (harness/tvdata.draw_case: 4–12 volumes, 1–8 q-points, 1–10 atoms,
± lattice block, one of the nine crystal systems or no symmetry request, grid settings with the requested
pressures inside the range) is written to real files and the real `cij.core.calculator.Calculator(settings)`
runs on it.

* correspondence (model = lean/CijModel/{LeastSq,FullModulus}.lean, run over Rat by the driver on the arrays the
  Python code actually had): every key's static part, both totals, `static_p_array`, the axial strains, the
  equal-thirds normalisation; plus OPTIMALITY of numpy's fit against the exact minimum (library contract).
  Since round 4 also the TRANSLATED SOURCE itself (`Generated/FullModulusGlue.lean`, every def of full_modulus.py as statement lists,
  interpreted by `CijModel/FullModulusGlue.lean` in the driver, op `c05.src`): static part of every key, axial strains, static
  pressure, and `fit_modulus` called directly with NON-default orders (the theorems cover every order, the Calculator uses one).
* oracle (independent of cij and of the model): everything recomputed from the *files* with the harness' own
  parsers, own least squares (long double, scaled basis), own Eulerian strain, own CODATA factor, own symmetry
  completion by group averaging: grid; key set; total − static_ref == task-list output re-run on the constructed
  calculator; static part independent of T; phonon part unchanged when the table values are altered (second real
  run, same keys / volumes / lattice); strain fractions = normalised d ln a_i / dV of the fitted axis lengths
  (tolerance from the grid spacing) or equal thirds; static pressure = −dE_fit/dV (tolerance from the spacing);
  the mode parameters handed to the phonon part are [V dγ/dV, γ, γ²] of the per-mode fit, in that order.
"""
from __future__ import annotations

import copy
import time
from typing import Dict, List, Optional

import numpy

from harness import synth, tvdata
from harness.common import Ctx, Result, Disagreement, OracleFailure, enc, dec_arr, dec, family_close, jsonable

ASSUMPTIONS = [
    "qha's fine volume grid, temperature grid and Eulerian strains enter the model as data (the oracle recomputes grid and strains itself)",
    "the phonon contribution is the value produced by the real PhononContributionTaskList (subject of C01-C04); C05 owns the static part, the decomposition and the wiring",
    "numpy.polyfit returns the least-squares polynomial (measured per case: residual <= exact minimum*(1+1e-9) + rounding floor; a miss is reported as a contract failure)",
    "the crystal-system filling itself is the subject of C08/C09; here its result is compared with an independent group-averaging completion of the same table",
    "finite-difference clauses (axial strains, static pressure) are compared with analytic derivatives of the same fitted functions within a tolerance proportional to the (squared) relative grid spacing",
]
TRUSTED_EXTRA = [
    "harness/tvdata.py: own parsers of input01 / elast.dat / settings.yaml, own least squares, own Laue-group completion, CODATA via scipy.constants",
    "Rat<->double conversion in lean/CijModel/Ops/C05.lean (exact in, <=1 ulp out)",
]

TOL_MODEL = 1e-7        # fitted quantities, model (exact LSQ) vs numpy (conditioning of the cubic fit)
TOL_SUM = 1e-12         # static + phonon in double precision
TOL_DIRECT = {1: 1e-7, 2: 1e-7, 3: 1e-5}   # fit_modulus(order=k) called directly; the quartic (order 3) is worse conditioned in doubles
TOL_ORACLE = 1e-8       # independent reference vs real code, relative to the family scale
C_AX_INT, C_AX_END = 0.6, 0.4      # axial strains: interior C*h^2, ends C*h   (h = max relative grid step)
C_SP_INT, C_SP_END = 2.5, 3.5      # static pressure: interior C*h^2, ends C*h (relative to max |P_static|)


def kstr(k) -> str:
    return "%d%d" % tuple(k)


# ----------------------------------------------------------------------------- observing the real run
def observe(calc) -> dict:
    """every quantity of the real run the check looks at (public attributes / pure re-calls)"""
    from qha.grid_interpolation import calculate_eulerian_strain
    from cij.util import _from_gpa
    fm = calc._full_modulus
    keys = list(calc.modulus_keys)
    vols = numpy.array([v.volume for v in calc.elast_data.volumes])
    with tvdata.quiet():
        ob = {
            "keys": [tuple(k.v) for k in keys],
            "volumes": vols,
            "qha_volumes": numpy.array([v.volume for v in calc.qha_input.volumes]),
            "energies": numpy.array([v.energy for v in calc.qha_input.volumes]),
            "v_array": numpy.array(calc.v_array), "t_array": numpy.array(calc.t_array),
            "strains": numpy.array(calculate_eulerian_strain(vols[0], vols)),
            "strain_array": numpy.array(calculate_eulerian_strain(vols[0], calc.v_array)),
            "table": {tuple(k.v): numpy.array([v.static_elastic_modulus[k] for v in calc.elast_data.volumes])
                      for k in keys},
            "lattice": numpy.array(calc.elast_data.lattice_parmeters, dtype=float),
            "static": {tuple(k.v): numpy.array(fm.get_static_modulus(k)) for k in keys},
            "ph_iso": {tuple(k.v): numpy.array(fm._isothermal_phonon_contribution[k]) for k in keys},
            "ph_adi": {tuple(k.v): numpy.array(fm._adiabatic_phonon_contribution[k]) for k in keys},
            "iso": {tuple(k.v): numpy.array(calc.modulus_isothermal[k]) for k in keys},
            "adi": {tuple(k.v): numpy.array(calc.modulus_adiabatic[k]) for k in keys},
            "axial": numpy.array(fm.get_axial_strains()),
            "static_p": numpy.array(calc.static_p_array),
            "gpa_real": float(_from_gpa(1.0)),
            "mode_gamma": [numpy.array(a) for a in calc.mode_gamma],
            "freq_array": numpy.array(calc.freq_array),
            "p_tv": numpy.array(calc.qha_calculator.volume_base.pressures),
            "cv_tv": numpy.array(calc.qha_calculator.volume_base.heat_capacity),
            "v_tp": numpy.array(calc.qha_calculator.pressure_base.volumes),
        }
        qv = ob["qha_volumes"]
        ob["e_strains"] = numpy.array(calculate_eulerian_strain(qv[0], qv))
        ob["e_strain_array"] = numpy.array(calculate_eulerian_strain(qv[0], calc.v_array))
        # `fit_modulus` called directly with explicit orders (the Calculator itself only ever uses the default): order 1 always,
        # order 3 (a quartic) when the table has at least 6 rows
        ob["direct_fits"] = []
        col = numpy.array(_from_gpa(ob["table"][tuple(keys[0].v)]))
        for order in (1, 2, 3):
            if order + 2 > len(vols) or (order == 3 and len(vols) < 6): continue
            ob["direct_fits"].append({"moduli": col, "order": order, "value": numpy.array(fm.fit_modulus(col, order=order))})
    return ob


def rerun_task_list(calc, axial):
    """the phonon contribution of C01–C04 'evaluated with …' these strain fractions: the real task list, run by us"""
    from cij.core.tasks import PhononContributionTaskList
    with tvdata.quiet():
        tl = PhononContributionTaskList(calc)
        tl.resolve(axial, calc.modulus_keys)
        tl.calculate()
        iso, adi = tl.get_isothermal_results(), tl.get_adiabatic_results()
    return ({tuple(k.v): numpy.array(v) for k, v in iso.items()}, {tuple(k.v): numpy.array(v) for k, v in adi.items()})


# ----------------------------------------------------------------------------- correspondence
def model_ops(ob: dict) -> List[dict]:
    base = {"strains": enc(ob["strains"]), "strain_array": enc(ob["strain_array"]), "volumes": enc(ob["volumes"]),
            "v_array": enc(ob["v_array"]), "table": {kstr(k): enc(v) for k, v in ob["table"].items()},
            "lattice": enc(ob["lattice"]) if ob["lattice"].size else [], "gpa_factor": enc(tvdata.gpa_in_au())}
    ops = [dict(base, op="c05.static"), dict(base, op="c05.axial"),
           {"op": "c05.static_p", "strains": enc(ob["e_strains"]), "energies": enc(ob["energies"]),
            "strain_array": enc(ob["e_strain_array"]), "v_array": enc(ob["v_array"])},
           {"op": "c05.task_fraction", "rows": enc(ob["axial"][:2])},
           dict(base, op="c05.src", qha_volumes=enc(ob["qha_volumes"]), energies=enc(ob["energies"]),
                e_strains=enc(ob["e_strains"]), e_strain_array=enc(ob["e_strain_array"]),
                fits=[{"moduli": enc(f["moduli"]), "order": int(f["order"])} for f in ob.get("direct_fits", [])])]
    return ops


def compare_model(ob: dict, ans: List, driver, res: Result, label: dict) -> int:
    """returns number of validated comparisons; appends Disagreements"""
    n_ok = 0
    m_static, m_axial, m_sp, m_frac, m_src = ans

    def dis(op, impl, model, note):
        res.disagreements.append(Disagreement(op, label, jsonable(impl), jsonable(model), note))

    # static part of every key (model: exact least squares over Rat, CODATA factor)
    ops2, index = [], []
    for k in ob["keys"]:
        ms = m_static.get(kstr(k))
        if ms is None or isinstance(ms, str):
            dis("c05.static", ob["static"][k][:3], ms, f"key {k}: model has no value"); continue
        ms = dec_arr(ms)
        ok, err, _ = family_close(ob["static"][k], ms, rtol=TOL_MODEL)
        if ok: n_ok += 1
        else: dis("c05.static", ob["static"][k], ms, f"key {k} relerr {err:.3e}")
        for kind, ph in (("iso", ob["ph_iso"][k]), ("adi", ob["ph_adi"][k])):
            ops2.append({"op": "c05.total", "static": enc(ms), "phonon": enc(ph)}); index.append((k, kind))
    for (k, kind), a in zip(index, driver.ask(ops2)):
        tot = dec_arr(a)
        ok, err, _ = family_close(ob[kind][k], tot, rtol=TOL_MODEL)
        if ok: n_ok += 1
        else: dis("c05.total", ob[kind][k][:2], tot[:2], f"{kind} key {k} relerr {err:.3e}")
    # axial strains
    if isinstance(m_axial, str):
        dis("c05.axial", ob["axial"][:2], m_axial, "model error")
    else:
        ok, err, _ = family_close(ob["axial"], dec_arr(m_axial), rtol=TOL_MODEL)
        if ok: n_ok += 1
        else: dis("c05.axial", ob["axial"], dec_arr(m_axial), f"relerr {err:.3e}")
    # static pressure
    if isinstance(m_sp, str):
        dis("c05.static_p", ob["static_p"][:3], m_sp, "model error")
    else:
        ok, err, _ = family_close(ob["static_p"], dec_arr(m_sp), rtol=TOL_MODEL)
        if ok: n_ok += 1
        else: dis("c05.static_p", ob["static_p"], dec_arr(m_sp), f"relerr {err:.3e}")
    # _make_param_by_strain_key (non-shear) on the first rows
    from cij.core.tasks import PhononContributionTaskParams
    from cij.util import c_
    with tvdata.quiet():
        a, b = PhononContributionTaskParams._make_param_by_strain_key(ob["axial"][:2], c_(12))
    impl = numpy.array([[a[0], b[0]], [a[1], b[1]]])
    mod = dec_arr(m_frac)[:, :2]
    ok, err, _ = family_close(impl, mod, rtol=1e-12)
    if ok: n_ok += 1
    else: dis("c05.task_fraction", impl, mod, f"relerr {err:.3e}")
    # the translated source, interpreted: what full_modulus.py SAYS now, evaluated exactly on the arrays this run had
    cnt = res.distribution.setdefault("translated_source_interpreted", {"static_keys": 0, "axial": 0, "static_pressure": 0,
                                                                         "fit_modulus_direct": {}})
    if not isinstance(m_src, dict):
        dis("c05.src", None, m_src, "interpreter of the translated source answered nothing")
        return n_ok
    for k in ob["keys"]:
        v = m_src["static"].get(kstr(k))
        if v is None or isinstance(v, str):
            dis("c05.src.static", ob["static"][k][:3], v, f"key {k}: the translated get_static_modulus does not evaluate"); continue
        ok, err, _ = family_close(ob["static"][k], dec_arr(v), rtol=TOL_MODEL)
        cnt["static_keys"] += 1
        if ok: n_ok += 1
        else: dis("c05.src.static", ob["static"][k], dec_arr(v), f"key {k} relerr {err:.3e}")
    for name, got, want in (("axial", m_src["axial"], ob["axial"]), ("static_p", m_src["static_p"], ob["static_p"])):
        if isinstance(got, str):
            dis("c05.src." + name, want[:2], got, "the translated statements do not evaluate"); continue
        ok, err, _ = family_close(want, dec_arr(got), rtol=TOL_MODEL)
        cnt["axial" if name == "axial" else "static_pressure"] += 1
        if ok: n_ok += 1
        else: dis("c05.src." + name, want, dec_arr(got), f"relerr {err:.3e}")
    for f, got in zip(ob.get("direct_fits", []), m_src.get("fits", [])):
        o = str(f["order"]); cnt["fit_modulus_direct"][o] = cnt["fit_modulus_direct"].get(o, 0) + 1
        if isinstance(got, str):
            dis("c05.src.fit", f["value"][:3], got, f"order {o}: the translated fit_modulus does not evaluate"); continue
        ok, err, _ = family_close(f["value"], dec_arr(got), rtol=TOL_DIRECT[f["order"]])
        if ok: n_ok += 1
        else: dis("c05.src.fit", f["value"], dec_arr(got), f"fit_modulus(order={o}) relerr {err:.3e}")
    return n_ok


def optimality(ob: dict, driver, res: Result, label: dict, max_keys: int = 4) -> int:
    """library contract: numpy.polyfit's cubic has (to rounding) the exact minimal residual"""
    keys = ob["keys"][:max_keys]
    gpa = ob["gpa_real"]
    ops, cands = [], []
    for k in keys:
        ys = ob["volumes"] * (ob["table"][k] * gpa)
        p = numpy.polyfit(ob["strains"], ys, 3)
        cands.append((k, ys))
        ops.append({"op": "c05.lsq", "xs": enc(ob["strains"]), "ys": enc(ys), "deg": 3, "candidate": enc(p)})
    n = 0
    for (k, ys), a in zip(cands, driver.ask(ops)):
        if isinstance(a, str):
            res.contract_failures.append(f"exact least squares unavailable for {label} key {k}"); continue
        rmin, rc = dec(a["min"]), dec(a["cand"])
        floor = (1e-11 * float(numpy.max(numpy.abs(ys)))) ** 2 * len(ys)
        if not a["cand_ge_min"]:
            res.disagreements.append(Disagreement("c05.lsq", label, rc, rmin, f"key {k}: candidate beats the 'exact minimum'"))
        elif rc <= rmin * (1 + 1e-9) + floor:
            n += 1
        else:
            res.contract_failures.append(f"numpy.polyfit residual {rc:.6e} > exact minimum {rmin:.6e}*(1+1e-9) for {label} key {k}")
    return n


# ----------------------------------------------------------------------------- the independent oracle
def reference_from_files(files: Dict[str, str]) -> dict:
    st = tvdata.parse_settings(files["settings.yaml"])
    el = tvdata.parse_elast(files[st["elast"]])
    inp = tvdata.parse_input01(files[st["input"]])
    V = el["volumes"]
    va = tvdata.fine_grid(inp["volumes"], st["NTV"], st["volume_ratio"])
    K = tvdata.gpa_in_au()
    table = tvdata.symmetry_fill(st["system"], el["table"])
    f, fa = tvdata.eulerian_strain(V[0], V), tvdata.eulerian_strain(V[0], va)
    static = {}
    for k, col in table.items():
        fit, _ = tvdata.lsq_poly(f, V * (col * K), 3)
        static[k] = fit(fa) / va
    dfdv = -(1.0 / 3.0) * (V[0] / va) ** (2.0 / 3.0) / va            # d(strain)/dV
    axial = None
    if el["lattice"] is not None:
        dl = []
        for ax in range(3):
            fl, dfl = tvdata.lsq_poly(f, V * el["lattice"][:, ax], 3)
            a = fl(fa) / va
            da = (dfl(fa) * dfdv * va - fl(fa)) / va ** 2
            dl.append(da / a)                                       # d ln a_i / dV
        dl = numpy.array(dl).T
        axial = dl / dl.sum(axis=1, keepdims=True)
    qv = inp["volumes"]
    fe, dfe = tvdata.lsq_poly(tvdata.eulerian_strain(qv[0], qv), inp["energies"], 3)
    dfdv_q = -(1.0 / 3.0) * (qv[0] / va) ** (2.0 / 3.0) / va
    static_p = -dfe(tvdata.eulerian_strain(qv[0], va)) * dfdv_q
    # mode parameters handed to the phonon part: [V dγ/dV, γ, γ²] with γ = −d ln ω / d ln V of the per-mode fit
    modes = None
    if st["mode_interpolator"] == "lsq_poly":
        lnv, lnva = numpy.log(qv), numpy.log(va)
        nq, npm = inp["freqs"].shape[1], inp["freqs"].shape[2]
        w = numpy.zeros((len(va), nq, npm)); g = numpy.zeros_like(w); dg = numpy.zeros_like(w)
        for j in range(nq):
            for m in range(npm):
                if j == 0 and m < 3: continue                       # Γ acoustic: no contribution
                fm_, dfm = tvdata.lsq_poly(lnv, numpy.log(inp["freqs"][:, j, m]), st["mode_order"])
                w[:, j, m] = numpy.exp(fm_(lnva)); g[:, j, m] = -dfm(lnva); dg[:, j, m] = -fm_.d2(lnva)
        modes = {"freq": w, "gamma": g, "vdgdv": dg}
    t_ref = st["T_MIN"] + st["DT"] * numpy.arange(st["NT"] + 4)
    h = float(numpy.max(numpy.abs(numpy.diff(va)) / va[1:]))
    return {"settings": st, "v_array": va, "t_array": t_ref, "keys": sorted(table), "static": static, "axial": axial,
            "static_p": static_p, "h": h, "table": table, "lattice": el["lattice"], "modes": modes}


def oracle(files: Dict[str, str], files_alt: Optional[Dict[str, str]] = None, only: Optional[str] = None, run=None) -> List[dict]:
    """Evaluate the property statement on the real code for these files.  Returns failure dicts
    {check, key, observed, expected}.  `files_alt`: same data with altered static table values (metamorphic)."""
    fails: List[dict] = []

    def fail(check, observed, expected, key=None):
        if only is None or only == check:
            fails.append({"check": check, "key": key, "observed": jsonable(observed), "expected": jsonable(expected)})

    run = run if run is not None else tvdata.Run(files)
    if run.error is not None:
        fail("runs", f"{type(run.error).__name__}: {run.error}", "a well-formed data set inside the pressure range is computed")
        return fails
    calc = run.calc
    ob = observe(calc)
    ref = reference_from_files(files)
    # --- grids
    if ob["v_array"].shape != ref["v_array"].shape or not family_close(ob["v_array"], ref["v_array"], rtol=1e-11)[0]:
        fail("grid", ob["v_array"], ref["v_array"])
        return fails
    if ob["t_array"].shape != ref["t_array"].shape or not family_close(ob["t_array"], ref["t_array"], rtol=1e-12)[0]:
        fail("grid", ob["t_array"], ref["t_array"])
        return fails
    nt, ntv = len(ref["t_array"]), len(ref["v_array"])
    # --- key set after the (independent) symmetry completion
    if sorted(ob["keys"]) != ref["keys"]:
        fail("keys", sorted(ob["keys"]), ref["keys"])
        return fails
    # --- "evaluated with the spectrum ... read from those files": the thermodynamic fields the phonon part takes from the QHA
    #     layer (P(T,V) for the off-diagonal terms, C_V for the adiabatic correction, V(T,P)) are those of the qha package run
    #     directly on the phonon file (its own reader; no cij code in between)
    try:
        qd = tvdata.qha_direct(files)
    except Exception as e:                                          # the external package refuses the file: nothing to compare
        qd = None
    if qd is not None:
        for name, got, want in (("P(T,V)", ob["p_tv"], qd["p_tv_au"]), ("C_V(T,V)", ob["cv_tv"], qd["cv_tv_au"]),
                                ("V(T,P)", ob["v_tp"], qd["v_tp_bohr3"])):
            if got.shape != want.shape or not family_close(got, want, rtol=1e-10)[0]:
                fail("qha_layer", {"field": name, "first_row": got.reshape(len(got), -1)[min(1, len(got) - 1), :3]},
                     {"field": name, "first_row": want.reshape(len(want), -1)[min(1, len(want) - 1), :3]})
    # --- the mode parameters the phonon part is "evaluated with": order [V dγ/dV, γ, γ²]
    if ref["modes"] is not None:
        mg = ob["mode_gamma"]
        exp3 = [ref["modes"]["vdgdv"], ref["modes"]["gamma"], ref["modes"]["gamma"] ** 2]
        names = ["V*dgamma/dV", "gamma", "gamma^2"]
        sc = float(max(numpy.max(numpy.abs(e)) for e in exp3)) or 1.0
        if len(mg) != 3:
            fail("mode_parameters", len(mg), 3)
        else:
            for a, e, nm in zip(mg, exp3, names):
                if a.shape != e.shape or not family_close(a, e, rtol=1e-6, scale=sc)[0]:
                    fail("mode_parameters", {"slot": nm, "value": a.reshape(len(a), -1)[0, -3:]}, e.reshape(len(e), -1)[0, -3:]); break
        if ob["freq_array"].shape != ref["modes"]["freq"].shape or \
                not family_close(ob["freq_array"], ref["modes"]["freq"], rtol=1e-7)[0]:
            fail("mode_parameters", {"slot": "frequencies"}, "per-mode fit of ln w in ln V")
    # --- strain fractions
    h = ref["h"]
    if ref["axial"] is None:
        exp = numpy.ones((ntv, 3))
        if ob["axial"].shape != exp.shape or not numpy.array_equal(ob["axial"] / ob["axial"].sum(axis=1, keepdims=True), exp / 3.0):
            fail("axial_thirds", ob["axial"][:2], "equal thirds")
        from cij.core.tasks import PhononContributionTaskParams
        from cij.util import c_
        for kk in ((1, 1), (1, 2), (2, 3)):
            with tvdata.quiet():
                pa, pb = PhononContributionTaskParams._make_param_by_strain_key(ob["axial"], c_(*kk))
            if not (numpy.allclose(pa, 1 / 3, rtol=0, atol=1e-15) and numpy.allclose(pb, 1 / 3, rtol=0, atol=1e-15)):
                fail("axial_thirds", [pa[:2], pb[:2]], "1/3 each", key=kstr(kk))
    else:
        if ob["axial"].shape != ref["axial"].shape:
            fail("axial_lattice", ob["axial"].shape, ref["axial"].shape)
        else:
            err = numpy.abs(ob["axial"] - ref["axial"])
            tol = numpy.full(ntv, C_AX_INT * h * h + 1e-9); tol[0] = tol[-1] = C_AX_END * h + 1e-9
            if not numpy.all(numpy.isfinite(ob["axial"])) or numpy.any(err.max(axis=1) > tol):
                i = int(numpy.argmax(err.max(axis=1) / tol))
                fail("axial_lattice", {"row": i, "value": ob["axial"][i], "err": err[i].max(), "tol": tol[i]}, ref["axial"][i])
            s = ob["axial"].sum(axis=1)
            if numpy.max(numpy.abs(s - 1)) > 1e-12:
                fail("axial_sum_one", s[:4], 1.0)
    # --- static pressure
    spref = ref["static_p"]
    scale = float(numpy.max(numpy.abs(spref)))
    err = numpy.abs(ob["static_p"] - spref) / scale if ob["static_p"].shape == spref.shape else numpy.full(ntv, numpy.inf)
    tol = numpy.full(ntv, C_SP_INT * h * h + 1e-9); tol[0] = tol[-1] = C_SP_END * h
    if numpy.any(~(err <= tol)):
        i = int(numpy.argmax(err / tol))
        fail("static_pressure", {"index": i, "value": float(ob["static_p"][i]) if i < len(ob["static_p"]) else None,
                                 "relerr": float(err[i]), "tol": float(tol[i])}, float(spref[i]))
    # --- decomposition: total − static_ref == task-list output (ours, on the constructed calculator)
    ph_iso, ph_adi = rerun_task_list(calc, ob["axial"])
    for kind, tot, ph in (("isothermal", ob["iso"], ph_iso), ("adiabatic", ob["adi"], ph_adi)):
        for k in ref["keys"]:
            if tot[k].shape != (nt, ntv):
                fail("decomposition_" + kind, tot[k].shape, (nt, ntv), key=kstr(k)); continue
            exp = ref["static"][k][None, :] + ph[k]
            sc = float(max(numpy.nanmax(numpy.abs(ref["static"][k])), 1e-300))
            ok, e, _ = family_close(tot[k], exp, rtol=TOL_ORACLE, scale=sc)
            if not ok:
                t, v = numpy.unravel_index(int(numpy.nanargmax(numpy.abs(numpy.nan_to_num(tot[k] - exp)))), tot[k].shape) \
                    if numpy.isfinite(e) else (0, 0)
                fail("decomposition_" + kind, {"t": int(t), "v": int(v), "total": float(tot[k][t, v]), "relerr": e},
                     {"static_ref": float(ref["static"][k][v]), "phonon": float(ph[k][t, v])}, key=kstr(k))
            # static part independent of T: total − phonon has identical rows
            with numpy.errstate(all="ignore"):
                st_rows = tot[k] - ph[k]
            fin = numpy.isfinite(st_rows).all(axis=1)
            if fin.sum() >= 2:
                spread = float(numpy.max(numpy.abs(st_rows[fin] - st_rows[fin][0][None, :])))
                if spread > 1e-9 * sc:
                    fail("static_indep_T_" + kind, spread, 0.0, key=kstr(k))
    # --- metamorphic: alter the table values, keep keys / volumes / lattice: phonon part must not move
    if files_alt is not None:
        run2 = tvdata.Run(files_alt)
        if run2.error is not None:
            fail("metamorphic_runs", f"{type(run2.error).__name__}: {run2.error}", "runs")
        else:
            ob2 = observe(run2.calc)
            ref2 = reference_from_files(files_alt)
            if not numpy.array_equal(ob2["axial"], ob["axial"]):
                fail("phonon_indep_static_axial", ob2["axial"][:2], ob["axial"][:2])
            for kind in ("iso", "adi"):
                for k in ref["keys"]:
                    if k not in ob2[kind]:
                        fail("phonon_indep_static", "key missing after altering values", kstr(k), key=kstr(k)); continue
                    sc = float(max(numpy.nanmax(numpy.abs(ref["static"][k])), numpy.nanmax(numpy.abs(ref2["static"][k]))))
                    with numpy.errstate(all="ignore"):
                        p1 = ob[kind][k] - ref["static"][k][None, :]
                        p2 = ob2[kind][k] - ref2["static"][k][None, :]
                    ok, e, _ = family_close(p1, p2, rtol=TOL_ORACLE, scale=sc)
                    if not ok:
                        fail("phonon_indep_static", {"kind": kind, "relerr": e, "p1": p1[-1, :3], "p2": p2[-1, :3]},
                             "identical phonon part", key=kstr(k))
    return fails


# ----------------------------------------------------------------------------- cases
def history_oracle(files: Dict[str, str]) -> List[dict]:
    """"read from those files": a calculation is determined by ITS files and settings, also when another calculation on the same
    files ran earlier in the process.  In one directory: first A = the same two data files with a crystal system forced onto the
    table (`cubic`, both ignore flags: the filling rewrites every component), then B = the case itself (data files untouched, own
    settings file).  B must satisfy every clause of the statement as if it had run alone."""
    import tempfile, shutil
    st = yaml_load(files["settings.yaml"])
    if ((st.get("elast") or {}).get("settings") or {}).get("symmetry", {}).get("system") not in (None, "triclinic"):
        return []
    a_files = tvdata.with_settings(files, {"elast": {"settings": {"symmetry": {"system": "cubic", "ignore_residuals": True, "ignore_rank": True}}}})
    d = tempfile.mkdtemp(prefix="c05hist_")
    try:
        ra = tvdata.Run(a_files, workdir=d, settings_name="settings_a.yaml")
        rb = tvdata.Run(files, workdir=d, settings_name="settings_b.yaml", write_data=False)
        out = oracle(files, run=rb)
        for f in out: f["check"] = "history:" + f["check"]
        return out
    finally:
        shutil.rmtree(d, ignore_errors=True)


def rewrite_oracle(files: Dict[str, str], files_alt: Dict[str, str]) -> List[dict]:
    """"read from those files", second history: in ONE directory first a calculation on `files_alt` (same names, same volumes / keys /
    lattice, OTHER table values), then the data files are rewritten in place with `files` and the case itself is computed.  The second
    calculator must see what the files say NOW (nothing parsed earlier may be reused for a path whose content changed)."""
    import tempfile, shutil
    d = tempfile.mkdtemp(prefix="c05rewr_")
    try:
        tvdata.Run(files_alt, workdir=d, settings_name="settings.yaml")
        rb = tvdata.Run(files, workdir=d, settings_name="settings.yaml")
        out = oracle(files, run=rb)
        for f in out: f["check"] = "rewritten:" + f["check"]
        return out
    finally:
        shutil.rmtree(d, ignore_errors=True)


def yaml_load(text):
    import yaml
    return yaml.safe_load(text)


def alter_table(ds: synth.DataSet, rng: numpy.random.Generator, n_redundant: int = 0) -> synth.DataSet:
    """same keys / volumes / lattice, different table values (still consistent with the requested symmetry:
    redundant columns — the last `n_redundant` — are recomputed from the altered independent ones)"""
    ds2 = copy.deepcopy(ds)
    nk = ds.static_table.shape[1]
    fac = 1.0 + rng.uniform(-0.06, 0.06, size=nk)
    tilt = rng.uniform(-0.3, 0.3, size=nk)
    sv = numpy.asarray(ds.volumes if ds.static_volumes is None else ds.static_volumes, dtype=float)     # the table's own rows
    ds2.static_table = ds.static_table * fac[None, :] * (sv[0] / sv)[:, None] ** tilt[None, :]
    if n_redundant:
        system = ds.settings["elast"]["settings"]["symmetry"]["system"]
        ni = nk - n_redundant
        pair = lambda k: tuple(sorted((int(k[0]), int(k[1]))))
        full = tvdata.symmetry_fill(system, {pair(k): ds2.static_table[:, c] for c, k in enumerate(ds.static_keys[:ni])})
        for c in range(ni, nk):
            ds2.static_table[:, c] = full[pair(ds.static_keys[c])]
    return ds2


def plan(ctx: Ctx, n: int) -> List[dict]:
    """forced coverage first (every system option with and without lattice block), then free draws"""
    opts = [None] + tvdata.SYSTEMS
    forced = [{"system": s, "lattice": lat} for lat in (False, True) for s in opts]
    # every third forced case with a symmetry system carries redundant, slightly inconsistent components; every fourth has
    # its static table on its own volume mesh
    for i, f in enumerate(forced):
        if f["system"] not in (None, "triclinic") and i % 3 == 0: f["redundant"] = "noisy"
        if i % 4 == 1: f["static_mesh"] = "shifted"
        if i % 6 == 3: f["static_mesh"] = ["fewer", "more"][(i // 6) % 2]      # elast.dat with its own N
        if i % 7 == 4: f["qha_order"] = [4, 5][(i // 7) % 2]                   # qha EOS order other than 3 (schema: 2..5): the static pressure stays cubic
        if f["system"] in ("monoclinic", "triclinic", "trigonal7", "trigonal6", "tetragonal7") and i % 2 == 1: f["small_component"] = True
        # every fifth: the rows of the static table (and of its lattice block) are not listed by decreasing volume
        if i % 5 == 2: f["static_rows"] = ["shuffled", "increasing"][(i // 5) % 2]
        # SHORT tables (the tie: the cubic of `fit_modulus` and the centred ratios of `get_axial_strains` are the same code for every
        # table length): 4 volumes — where the least-squares cubic interpolates and any lower degree does not — and 5, with and
        # without lattice block, also with the static table on its own (shorter) mesh
        if i % 4 == 0: f["nv"] = 4
        elif i % 4 == 2: f["nv"] = 5
        elif i % 6 == 3 and f.get("static_mesh") == "fewer": f["nv"] = 6          # elast.dat with 4 rows next to a 6-volume phonon file
    out = forced[:n]
    while len(out) < n:
        out.append({})
    return out


def run_cases(ctx: Ctx, res: Result, n_cases: int, small: bool, budget_s: float, collect_ops: bool = True):
    t0 = time.time()
    dist = res.distribution
    for name in ("system", "lattice", "nv", "nq", "na", "NT", "NTV", "redundant_keys", "static_mesh", "static_rows",
                 "static_table_rows", "short_table_with_lattice"):
        dist.setdefault(name, {})
    pend = []   # (label, ob) waiting for the model
    seen_shapes = set()
    for force in plan(ctx, n_cases):
        if time.time() - t0 > budget_s or ctx.time_left() < 30:
            res.notes.append(f"stopped after {res.evaluations} cases (time budget)")
            break
        sub = numpy.random.Generator(numpy.random.PCG64(int(ctx.rng.integers(0, 2 ** 62))))
        ds, desc = tvdata.draw_case(sub, small=small, force=force)
        files = tvdata.case_files(ds)
        files_alt = tvdata.case_files(alter_table(ds, sub, desc.get("redundant_keys", 0)))
        res.evaluations += 1
        for name in ("system", "lattice", "nv", "nq", "na", "NT", "NTV", "redundant_keys", "static_mesh", "static_rows"):
            key = str(desc[name]); dist[name][key] = dist[name].get(key, 0) + 1
        n_rows = int(ds.static_table.shape[0])
        dist["static_table_rows"][str(n_rows)] = dist["static_table_rows"].get(str(n_rows), 0) + 1
        if desc["lattice"] and n_rows <= 5:
            dist["short_table_with_lattice"][str(n_rows)] = dist["short_table_with_lattice"].get(str(n_rows), 0) + 1
        seen_shapes.add((desc["system"], desc["lattice"], desc["nv"], desc["nq"], desc["na"], desc["NT"], desc["NTV"]))
        label = {k: desc[k] for k in ("system", "lattice", "nv", "nq", "na", "NT", "DT", "NTV", "volume_ratio", "P_MIN", "DELTA_P")}
        # ---- oracle on the real code
        fails = oracle(files, files_alt)
        per_check = set()
        for f in fails:
            if f["check"] in per_check or len(res.oracle_failures) >= 12: continue     # one per clause and case
            per_check.add(f["check"])
            res.oracle_failures.append(OracleFailure(
                what=f"C05 {f['check']}" + (f" key {f['key']}" if f["key"] else ""),
                input={"files": files, "files_alt": files_alt, "check": f["check"], "desc": label},
                observed=f["observed"], expected=f["expected"], site=f"c05:{f['check']}"))
        if desc["system"] is None and not fails:
            for f in history_oracle(files)[:2]:
                res.oracle_failures.append(OracleFailure(
                    what=f"C05 {f['check']}" + (f" key {f['key']}" if f["key"] else "") + " (after another calculation on the same files in this process)",
                    input={"files": files, "history": True, "check": f["check"], "desc": label},
                    observed=f["observed"], expected=f["expected"], site=f"c05:{f['check']}"))
            dist["history_cases"] = dist.get("history_cases", 0) + 1
        if not fails and res.evaluations % 3 == 0:
            for f in rewrite_oracle(files, files_alt)[:2]:
                res.oracle_failures.append(OracleFailure(
                    what=f"C05 {f['check']}" + (f" key {f['key']}" if f["key"] else "") + " (data files rewritten in place after an earlier calculation)",
                    input={"files": files, "files_alt": files_alt, "rewritten": True, "check": f["check"], "desc": label},
                    observed=f["observed"], expected=f["expected"], site=f"c05:{f['check']}"))
            dist["rewritten_file_cases"] = dist.get("rewritten_file_cases", 0) + 1
        if any(f["check"] in ("runs", "grid", "keys") for f in fails):
            continue
        # ---- correspondence inputs (second run of the same files is avoided: observe inside oracle is cheap, redo)
        run = tvdata.Run(files)
        if run.error is not None:
            continue
        ob = observe(run.calc)
        pend.append((label, ob))
        if len(res.samples) < 4:
            k0 = ob["keys"][0]
            res.samples.append({"case": label, "key": kstr(k0), "static[0:3]": ob["static"][k0][:3],
                                "c_T[last T][0:3]": ob["iso"][k0][-1, :3], "phonon_T[last T][0:3]": ob["ph_iso"][k0][-1, :3],
                                "axial[0]": ob["axial"][0]})
        if len(pend) >= 12:
            flush(ctx, res, pend); pend = []
    flush(ctx, res, pend)
    res.distinct_nontrivial += len(seen_shapes)


def flush(ctx: Ctx, res: Result, pend):
    if not pend:
        return
    ops, spans = [], []
    for label, ob in pend:
        o = model_ops(ob)
        spans.append((len(ops), len(o))); ops.extend(o)
    ans = ctx.driver.ask(ops)
    for (label, ob), (a, n) in zip(pend, spans):
        res.traces_validated += compare_model(ob, ans[a:a + n], ctx.driver, res, label)
        res.extra["optimality_checked"] = res.extra.get("optimality_checked", 0) + optimality(ob, ctx.driver, res, label)


def run(ctx: Ctx) -> Result:
    res = Result()
    res.rule = ("a case = one synthetic data set written to files + the real Calculator on it (+ a second real run with altered "
                "table values); distinct = distinct (system, lattice, nv, nq, na, NT, NTV) tuples; non-trivial = all (every case "
                "has a non-zero static table, >= 4 volumes and a real (T,V) grid)")
    warm = tvdata.warm_up()
    res.extra["numba_warmup_s"] = round(warm, 2)
    for payload in ctx.corpus():
        for f in replay(ctx, payload.get("input", payload)):
            res.oracle_failures.append(f)
    if ctx.thorough():
        run_cases(ctx, res, 400, small=False, budget_s=420)
    else:
        run_cases(ctx, res, 26, small=True, budget_s=45)
    res.distribution["tolerances"] = {"model_vs_numpy": TOL_MODEL, "oracle": TOL_ORACLE,
                                      "axial": f"{C_AX_INT}*h^2 interior, {C_AX_END}*h ends",
                                      "static_pressure": f"{C_SP_INT}*h^2 interior, {C_SP_END}*h ends"}
    return res


def search(ctx: Ctx, res: Result):
    """tie broken and no failing input yet: more (and larger) cases"""
    r2 = Result()
    run_cases(ctx, r2, 60, small=False, budget_s=120)
    res.evaluations += r2.evaluations
    return r2.oracle_failures


def replay(ctx: Ctx, payload) -> List[OracleFailure]:
    tvdata.warm_up()
    if payload.get("history"): fails = history_oracle(payload["files"])
    elif payload.get("rewritten"): fails = rewrite_oracle(payload["files"], payload["files_alt"])
    else: fails = oracle(payload["files"], payload.get("files_alt"))
    # the recorded clause first; any failing clause on this input keeps the violation alive
    fails.sort(key=lambda f: f["check"] != payload.get("check"))
    return [OracleFailure(what=f"C05 {f['check']}" + (f" key {f['key']}" if f["key"] else ""), input=payload,
                          observed=f["observed"], expected=f["expected"], site=f"c05:{f['check']}") for f in fails]
